(* VENDORED COPY for C09 of coq/C08/Proofs.v as committed at /verif e7efffc (the C08 development is edited in
   parallel by its own builder; C09 builds only from its own directory so that an edit there cannot
   break or silently change C09's model).  The part C09 uses (tables, blocks, efilter, update_self) is
   tied to the implementation by C09's own correspondence. *)
(* C08 — proofs about the attribute model (Model.v). *)
From Coq Require Import ZArith List Bool Arith Lia Permutation Sorted.
Import ListNotations.
From FV.C09 Require Import Table AttrModel.

Section Proofs.
Context {V : Type}.
Implicit Types (a : attr V) (o : op V) (c : cfg).

(* ------------------------------------------------------------ small facts *)
Lemma list_eqb_eq (x y : list Z) : list_eqb x y = true <-> x = y.
Proof.
  unfold list_eqb. revert y; induction x as [|i x IH]; intros [|j y]; simpl;
    try (split; [discriminate|discriminate]); [split; reflexivity|].
  specialize (IH y). rewrite andb_true_iff in *. simpl.
  rewrite andb_true_iff, Z.eqb_eq, Nat.eqb_eq.
  split.
  - intros [L [E F]]. f_equal; auto. apply IH. rewrite Nat.eqb_eq. auto.
  - intros E; inversion E; subst. destruct (proj2 IH eq_refl) as [L F].
    rewrite Nat.eqb_eq in L. auto.
Qed.

Lemma Inv_len a : Inv a -> shape_len a = length (frame a).
Proof.
  intros [_ [D _]]. unfold data_view in D.
  destruct (Nat.eqb_spec (length (rows_of a)) (shape_len a)); [|discriminate].
  inversion D as [R]. rewrite <- e, R. apply vals_length.
Qed.

Lemma Inv_rows a : Inv a -> rows_of a = vals (frame a).
Proof.
  intros [_ [D _]]. unfold data_view in D.
  destruct (Nat.eqb (length (rows_of a)) (shape_len a)); [|discriminate]. inversion D; auto.
Qed.

Lemma data_view_intro a : rows_of a = vals (frame a) -> shape_len a = length (frame a) ->
  data_view a = Some (vals (frame a)).
Proof.
  intros R L. unfold data_view. rewrite R, vals_length, L, Nat.eqb_refl. reflexivity.
Qed.

(* ----------------------------------------------------------------- init *)
Lemma inv_init l rows gen tsf a : NoDup l -> mk_attr l rows gen tsf = Some a -> Inv a.
Proof.
  unfold mk_attr. intros ND H.
  destruct (Nat.eqb_spec (length l) (length rows)) as [E|]; [|discriminate].
  inversion H; subst; clear H. unfold Inv; simpl. repeat split.
  - rewrite ids_combine; auto.
  - apply data_view_intro; simpl; [rewrite vals_combine; auto|].
    rewrite combine_length. lia.
  - intros m. rewrite ids_combine by auto. destruct gen; intros H; inversion H; reflexivity.
Qed.

(* --------------------------------------------------------- combine_first *)
Lemma lookup_app (t1 t2 : table V) i :
  lookup i (t1 ++ t2) = match lookup i t1 with Some v => Some v | None => lookup i t2 end.
Proof.
  induction t1 as [|[j w] r IH]; simpl; [reflexivity|].
  destruct (Z.eqb i j); auto.
Qed.

Lemma lookup_filter_notin (new old : table V) i : lookup i new = None ->
  lookup i (filter (fun iv => negb (memZ (fst iv) (ids new))) old) = lookup i old.
Proof.
  intros Hn. apply lookup_None in Hn. apply memZ_false in Hn.
  induction old as [|[j w] r IH]; simpl; [reflexivity|].
  destruct (Z.eqb_spec i j).
  - subst. rewrite Hn. simpl. rewrite Z.eqb_refl. reflexivity.
  - destruct (memZ j (ids new)); simpl; [auto|].
    destruct (Z.eqb_spec i j); [congruence|auto].
Qed.

Lemma filter_ids_sub (p : Z * V -> bool) (old : table V) i :
  In i (ids (filter p old)) -> In i (ids old).
Proof.
  unfold ids. rewrite !in_map_iff. intros [x [E H]]. apply filter_In in H. exists x; tauto.
Qed.

Lemma filter_NoDup (p : Z * V -> bool) (old : table V) : NoDup (ids old) -> NoDup (ids (filter p old)).
Proof.
  induction old as [|[j w] r IH]; simpl; intros H; [constructor|].
  inversion H; subst. destruct (p (j, w)); simpl; auto.
  constructor; auto. intros Hin. apply H2. eapply filter_ids_sub; eauto.
Qed.

Lemma NoDup_app_disjoint (l1 l2 : list Z) : NoDup l1 -> NoDup l2 ->
  (forall i, In i l1 -> ~ In i l2) -> NoDup (l1 ++ l2).
Proof.
  induction l1 as [|x l1 IH]; simpl; intros H1 H2 D; auto.
  inversion H1; subst. constructor.
  - rewrite in_app_iff. intros [H|H]; [auto|]. eapply D; eauto.
  - apply IH; auto.
Qed.

Lemma merged_NoDup (new old : table V) : NoDup (ids new) -> NoDup (ids old) ->
  NoDup (ids (new ++ filter (fun iv => negb (memZ (fst iv) (ids new))) old)).
Proof.
  intros Hn Ho. unfold ids at 1. rewrite map_app. apply NoDup_app_disjoint; auto.
  - apply filter_NoDup; auto.
  - intros i Hi Hin. apply in_map_iff in Hin. destruct Hin as [x [E Hx]].
    apply filter_In in Hx. destruct Hx as [_ Hx]. apply negb_true_iff, memZ_false in Hx.
    subst. auto.
Qed.

Lemma combine_first_NoDup (new old : table V) : NoDup (ids new) -> NoDup (ids old) ->
  NoDup (ids (combine_first new old)).
Proof.
  intros Hn Ho. unfold combine_first. destruct (list_eqb (ids new) (ids old)); auto.
  apply sort_NoDup. apply merged_NoDup; auto.
Qed.

(* rows of `new` win, every other id keeps its row *)
Lemma combine_first_lookup (new old : table V) i : NoDup (ids new) -> NoDup (ids old) ->
  lookup i (combine_first new old) =
  match lookup i new with Some v => Some v | None => lookup i old end.
Proof.
  intros Hn Ho. unfold combine_first. destruct (list_eqb (ids new) (ids old)) eqn:E.
  - apply list_eqb_eq in E. destruct (lookup i new) eqn:L; [reflexivity|].
    symmetry. apply lookup_None. rewrite <- E. apply lookup_None; auto.
  - rewrite lookup_sort by (apply merged_NoDup; auto).
    rewrite lookup_app. destruct (lookup i new) eqn:L; [reflexivity|].
    apply lookup_filter_notin; auto.
Qed.

(* the result is ascending by id unless the two id lists are identical *)
Lemma combine_first_sorted (new old : table V) : NoDup (ids new) -> NoDup (ids old) ->
  ids new <> ids old -> StronglySorted Z.lt (ids (combine_first new old)).
Proof.
  intros Hn Ho Hne. unfold combine_first. destruct (list_eqb (ids new) (ids old)) eqn:E.
  - apply list_eqb_eq in E. contradiction.
  - apply sort_ids_strict. apply merged_NoDup; auto.
Qed.

Lemma cfg_ok_safe c a o : cfg_ok c = true -> safe_op c a o = true.
Proof.
  unfold cfg_ok. rewrite !andb_true_iff. intros [[[[A B] C] D] E].
  destruct o; simpl; try reflexivity; try rewrite A; try rewrite B; try rewrite C; try rewrite D;
    reflexivity.
Qed.

Lemma refresh_ok flag a f :
  (flag = true \/ id2index a = None) ->
  forall m, refresh_id2index flag a f = Some m -> m = enumerate (ids f).
Proof.
  unfold refresh_id2index. intros [H|H] m.
  - subst. destruct (id2index a); intros E; inversion E; reflexivity.
  - rewrite H. discriminate.
Qed.

Lemma flag_or flag a : flag || no_id2index a = true -> flag = true \/ id2index a = None.
Proof.
  unfold no_id2index. destruct flag; [auto|]. simpl. destruct (id2index a); [discriminate|auto].
Qed.

Lemma set_data_inv a rows a' : Inv a -> set_data a rows = Some a' -> Inv a'.
Proof.
  intros [ND [D I]] H. unfold set_data in H.
  destruct (Nat.eqb_spec (length rows) (length (frame a))) as [E|]; [|discriminate].
  inversion H; subst; clear H. unfold Inv; simpl.
  assert (L : length (ids (frame a)) = length rows) by (rewrite ids_length; auto).
  rewrite ids_combine by auto. repeat split; auto.
  apply data_view_intro; simpl; [rewrite vals_combine; auto|].
  rewrite combine_length. lia.
Qed.

(* ------------------------------------------------- the invariant step lemma *)
Lemma inv_step_safe c a o :
  Inv a -> op_wf a o = true -> safe_op c a o = true -> Inv (step_total c a o).
Proof.
  intros HI Hwf Hs. unfold step_total.
  destruct (step c a o) as [a'|] eqn:St; [|exact HI].
  pose proof (Inv_len a HI) as HL. pose proof (Inv_rows a HI) as HR.
  destruct HI as [ND [D I]].
  destruct o; simpl in St, Hwf, Hs.
  - (* SetData *) eapply set_data_inv; eauto. repeat split; auto.
  - (* SetFrame *)
    destruct (ts a); [discriminate|]. inversion St; subst; clear St.
    apply andb_true_iff in Hwf. destruct Hwf as [W1 W2].
    apply nodupZ_NoDup in W1. apply Nat.eqb_eq in W2.
    unfold Inv, set_frame; simpl. repeat split; auto.
    + apply data_view_intro; simpl; auto. lia.
    + apply refresh_ok. apply flag_or; auto.
  - (* SetIds *)
    destruct (ts a); [discriminate|].
    destruct (Nat.eqb_spec (length l) (length (frame a))) as [E|]; [|discriminate].
    inversion St; subst; clear St. apply nodupZ_NoDup in Hwf.
    assert (L : length l = length (vals (frame a))) by (rewrite vals_length; auto).
    unfold Inv; simpl. rewrite ids_combine by auto. repeat split; auto.
    + apply data_view_intro; simpl.
      * unfold rows_of; simpl. rewrite vals_combine by auto.
        unfold rows_of in HR. destruct (dat a); auto.
      * rewrite combine_length. rewrite <- L. lia.
    + intros m Hm. apply refresh_ok in Hm; [|apply flag_or; auto].
      rewrite ids_combine in Hm; auto.
  - (* Update *)
    destruct (ts a); [discriminate|]. destruct new as [|x new]; [discriminate|].
    inversion St; subst; clear St. apply nodupZ_NoDup in Hwf.
    unfold Inv, set_frame; simpl. repeat split.
    + apply combine_first_NoDup; auto.
    + apply data_view_intro; reflexivity.
    + apply refresh_ok. apply flag_or; auto.
  - (* SliceWrite *)
    destruct (slice c a s) as [sl|]; [|discriminate].
    destruct (negb (length rows =? length sl)%nat); [discriminate|].
    destruct (ts a); [discriminate|].
    destruct (negb (forallb _ _)); [discriminate|].
    inversion St; subst; clear St. unfold Inv; simpl.
    rewrite set_rows_ids. repeat split; auto.
    apply data_view_intro; simpl; [|rewrite <- (ids_length (set_rows _ _)), set_rows_ids, ids_length; auto].
    unfold rows_of; simpl.
    destruct (parent_refreshes_data c); [reflexivity|]. simpl in Hs.
    destruct (dat a); [discriminate|reflexivity].
  - (* Overwrite *)
    rewrite Hs in St. eapply set_data_inv; eauto. repeat split; auto.
  - (* OverwriteIds *)
    apply nodupZ_NoDup in Hwf. eapply inv_init; eauto.
  - (* SetAttr *)
    destruct (data_view a); [|discriminate]. eapply inv_init; eauto.
Qed.

Theorem inv_step c a o : cfg_ok c = true -> Inv a -> op_wf a o = true -> Inv (step_total c a o).
Proof. intros; apply inv_step_safe; auto using cfg_ok_safe. Qed.

Theorem inv_reachable c : cfg_ok c = true ->
  forall os a, Inv a -> ops_wf c a os = true -> Inv (run c a os).
Proof.
  intros Hc. unfold run. induction os as [|o os IH]; simpl; intros a HI Hw; [exact HI|].
  apply andb_true_iff in Hw. destruct Hw as [W1 W2].
  apply IH; auto. apply inv_step; auto.
Qed.

Theorem inv_reachable_safe c os : forall a, Inv a -> ops_wf c a os = true ->
  ops_safe c a os = true -> Inv (run c a os).
Proof.
  unfold run. induction os as [|o os IH]; simpl; intros a HI Hw Hs; [exact HI|].
  apply andb_true_iff in Hw. destruct Hw as [W1 W2].
  apply andb_true_iff in Hs. destruct Hs as [S1 S2].
  apply IH; auto. apply inv_step_safe; auto.
Qed.

(* ---------------------------------------------------------- views agree *)
Theorem views_agree c a k i v : Inv a ->
  nth_error (ids_view a) k = Some i ->
  (exists d, data_view a = Some d /\ nth_error d k = Some v) ->
     nth_error (frame_view a) k = Some (i, v)
  /\ lookup i (frame_view a) = Some v
  /\ slice c a (ByIds [i]) = Some [(i, v)]
  /\ slice c a (ById1 i) = Some [(i, v)]
  /\ slice c a (ByPos [k]) = Some [(i, v)]
  /\ (scalar_key_uses_label c = true -> slice c a (ByPos1 k) = Some [(i, v)])
  /\ getitem c a [i] = Some [v]
  /\ filter_with_ids a [i] = Some [(i, v)]
  /\ (forall m, id2index a = Some m -> ids2indices a [i] = Some [k]).
Proof.
  intros HI Hi [d [Hd Hv]]. destruct HI as [ND [D I]].
  rewrite D in Hd. inversion Hd; subst d; clear Hd.
  unfold ids_view in Hi. rewrite nth_ids in Hi. rewrite nth_vals in Hv.
  destruct (nth_error (frame a) k) as [[j w]|] eqn:N; [|discriminate].
  simpl in Hi, Hv. inversion Hi; inversion Hv; subst; clear Hi Hv.
  pose proof (nth_lookup _ _ _ _ ND N) as L.
  unfold frame_view, getitem, filter_with_ids, ids2indices; simpl.
  rewrite select_ids_singleton, select_pos_singleton, N, L; simpl.
  repeat split; auto.
  - intros ->. reflexivity.
  - intros m Hm. rewrite Hm. rewrite (I m Hm). simpl. rewrite lookup_enumerate.
    assert (P : nth_error (ids (frame a)) k = Some i) by (rewrite nth_ids, N; reflexivity).
    rewrite (nth_pos _ _ _ ND P). reflexivity.
Qed.

(* conversely, whatever an id-keyed read returns sits at one position of the
   positional view *)
Theorem lookup_is_positional a i v : Inv a -> lookup i (frame_view a) = Some v ->
  exists k d, nth_error (ids_view a) k = Some i /\ data_view a = Some d /\ nth_error d k = Some v.
Proof.
  intros [ND [D I]] L. apply lookup_In in L. destruct (In_nth_error _ _ L) as [k Hk].
  exists k, (vals (frame a)). unfold ids_view. rewrite nth_ids, nth_vals.
  unfold frame_view in Hk. rewrite Hk. auto.
Qed.

(* arbitrary selections: every id-keyed read path returns the rows of the one
   table (ids[k], data[k]), in the order requested *)
Theorem selection_reads_agree c a l d : Inv a -> data_view a = Some d ->
  let t := combine (ids_view a) d in
     slice c a (ByIds l) = select_ids l t
  /\ getitem c a l = option_map vals (select_ids l t)
  /\ filter_with_ids a l = select_ids l t
  /\ (forall ks, ids2indices a l = Some ks -> slice c a (ByPos ks) = select_ids l t)
  /\ (forall r, select_ids l t = Some r ->
        ids r = l /\ forall i, In i l -> lookup i r = lookup i t).
Proof.
  intros HI Hd t. destruct HI as [ND [D I]]. rewrite D in Hd. inversion Hd; subst d.
  assert (Et : t = frame a) by (unfold t, ids_view; apply combine_ids_vals).
  rewrite Et. unfold getitem, filter_with_ids; simpl. repeat split; auto.
  - intros ks H. unfold ids2indices in H. destruct (id2index a) as [m|] eqn:Em; [|discriminate].
    rewrite (I m eq_refl) in H. apply select_pos_of_ids; auto.
    rewrite <- H. apply mapM_ext. intros; symmetry; apply lookup_enumerate.
  - eapply select_ids_ids; eauto.
  - intros i Hi. eapply select_ids_lookup; eauto.
Qed.

(* FEMAttributes.filter_with_ids: the collection filter is the member-wise
   filter by id; each member's result has exactly the requested ids, each
   with the row that member holds for it - whatever order the members store
   their rows in *)
Theorem cfilter_memberwise (ms : list (attr V)) l rs : cfilter ms l = Some rs ->
  Forall2 (fun a r => filter_with_ids a l = Some r /\ ids r = l /\
                      forall i, In i l -> lookup i r = lookup i (frame_view a)) ms rs.
Proof.
  unfold cfilter. revert rs. induction ms as [|a ms IH]; simpl; intros rs H.
  - inversion H. constructor.
  - destruct (filter_with_ids a l) as [r|] eqn:F; [|discriminate].
    destruct (mapM _ ms) as [rs'|]; [|discriminate]. inversion H; subst.
    constructor; [|apply IH; reflexivity]. split; [exact F|]. unfold filter_with_ids in F. split.
    + eapply select_ids_ids; eauto.
    + intros i Hi. eapply select_ids_lookup; eauto.
Qed.

(* ... and it answers iff every member holds every requested id *)
Theorem cfilter_defined (ms : list (attr V)) l :
  (exists rs, cfilter ms l = Some rs) <-> (forall a, In a ms -> forall i, In i l -> In i (ids_view a)).
Proof.
  unfold cfilter. split.
  - intros [rs H] a Ha i Hi. destruct (In_nth_error _ _ Ha) as [k Hk].
    destruct (mapM_nth _ _ _ H k a Hk) as [r [Hr _]].
    apply (proj1 (select_ids_defined l (frame a))); eauto.
  - intros H. apply mapM_Some_all. intros a Ha E.
    destruct (proj2 (select_ids_defined l (frame a)) (H a Ha)) as [r Hr].
    unfold filter_with_ids in E. congruence.
Qed.

(* ------------------------------------------ what the row updates write *)
(* write-through of an id-selected slice (distinct ids): exactly the selected
   ids change, each to its new row *)
Theorem slice_write_exact c a l rows a' : Inv a -> NoDup l ->
  step c a (SliceWrite (ByIds l) rows) = Some a' ->
  ids (frame a') = ids (frame a) /\
  forall i, lookup i (frame a') =
            match lookup i (combine l rows) with Some v => Some v | None => lookup i (frame a) end.
Proof.
  intros HI NDl St. simpl in St.
  destruct (select_ids l (frame a)) as [sl|] eqn:Sl; [|discriminate].
  destruct (Nat.eqb_spec (length rows) (length sl)) as [E|]; simpl in St; [|discriminate].
  destruct (ts a); [discriminate|].
  destruct (forallb _ _) eqn:F; simpl in St; [|discriminate].
  inversion St; subst; clear St; simpl.
  rewrite (select_ids_ids _ _ _ Sl) in *. split; [apply set_rows_ids|].
  intros i. apply lookup_set_rows.
  - rewrite ids_combine; auto. rewrite E. rewrite <- (select_ids_ids _ _ _ Sl). apply ids_length.
  - intros j Hj. rewrite forallb_forall in F. apply memZ_In. apply F; auto.
Qed.

Theorem update_exact c a new a' : Inv a -> NoDup (ids new) ->
  step c a (Update new) = Some a' ->
  (forall i, lookup i (frame a') =
             match lookup i new with Some v => Some v | None => lookup i (frame a) end)
  /\ (ids new <> ids (frame a) -> StronglySorted Z.lt (ids (frame a'))).
Proof.
  intros [ND _] NDn St. simpl in St. destruct (ts a); [discriminate|].
  destruct new as [|x new]; [discriminate|]. inversion St; subst; clear St.
  cbn [frame set_frame].
  split; [intros; apply combine_first_lookup; auto | apply combine_first_sorted; auto].
Qed.

End Proofs.

(* --------------------------------------------------------- refutations *)
(* for each refresh the code may omit, a one-step history after which two
   read paths differ (rows are integers here) *)
Definition a1 (gen : bool) : attr Z :=
  {| frame := [(1%Z, 0%Z)]; dat := Own [0%Z]; shape_len := 1; id2index := if gen then Some [(1%Z, 0%nat)] else None; ts := false |}.

Lemma a1_inv gen : Inv (a1 gen).
Proof.
  unfold Inv; simpl. repeat split.
  - repeat constructor. simpl; tauto.
  - destruct gen; intros m H; inversion H; reflexivity.
Qed.

Definition witness (c : cfg) : attr Z * op Z :=
  if negb (parent_refreshes_data c) then (a1 false, SliceWrite (ByIds [1%Z]) [1%Z])
  else if negb (overwrite_uses_setter c) then (a1 false, Overwrite [1%Z])
  else if negb (frame_setter_refreshes_id2index c) then (a1 true, Update [(2%Z, 1%Z)])
  else (a1 true, SetIds [2%Z]).

Lemma not_inv_data (a : attr Z) : data_view a <> Some (vals (frame a)) -> ~ Inv a.
Proof. intros H [_ [D _]]. auto. Qed.

Lemma not_inv_id2index (a : attr Z) m : id2index a = Some m -> m <> enumerate (ids (frame a)) -> ~ Inv a.
Proof. intros E H [_ [_ I]]. apply H. apply I; auto. Qed.

Theorem inv_step_refuted c :
  parent_refreshes_data c && overwrite_uses_setter c && frame_setter_refreshes_id2index c
    && ids_setter_refreshes_id2index c = false ->
  let '(a, o) := witness c in
  Inv a /\ op_wf a o = true /\ ~ Inv (step_total c a o).
Proof.
  unfold witness.
  destruct c as [p ow fs is sk]; simpl.
  destruct p; simpl.
  2:{ intros _. split; [apply a1_inv|]. split; [reflexivity|]. apply not_inv_data.
      unfold step_total; simpl. discriminate. }
  destruct ow; simpl.
  2:{ intros _. split; [apply a1_inv|]. split; [reflexivity|]. apply not_inv_data.
      unfold step_total; simpl. discriminate. }
  destruct fs; simpl.
  2:{ intros _. split; [apply a1_inv|]. split; [reflexivity|].
      eapply not_inv_id2index; [unfold step_total; simpl; reflexivity|]. simpl. discriminate. }
  destruct is; simpl; [discriminate|].
  intros _. split; [apply a1_inv|]. split; [reflexivity|].
  eapply not_inv_id2index; [unfold step_total; simpl; reflexivity|]. simpl. discriminate.
Qed.

(* a.iloc[k] with a scalar key: the slice carries the key as its id *)
Theorem iloc_scalar_refuted c : scalar_key_uses_label c = false ->
  let a : attr Z := {| frame := [(5%Z, 7%Z); (0%Z, 8%Z)]; dat := View; shape_len := 2;
                       id2index := None; ts := false |} in
  Inv a /\ slice c a (ByPos1 0) = Some [(0%Z, 7%Z)] /\ lookup 0%Z (frame_view a) = Some 8%Z
  /\ (* ... and a write through that slice lands on another row *)
     option_map frame (step c a (SliceWrite (ByPos1 0) [9%Z])) = Some [(5%Z, 7%Z); (0%Z, 9%Z)].
Proof.
  intros H. simpl. rewrite H. simpl. repeat split.
  - repeat constructor; simpl; intuition discriminate.
  - discriminate.
Qed.

(* ------------------------------------------- mixed element collections *)
Section Summary.
Context {V : Type}.

Lemma flatten_In (bs : @blocks V) (i : Z) (t : nat) (v : V) :
  In (i, (t, v)) (flatten bs) <-> exists b, In (t, b) bs /\ In (i, v) b.
Proof.
  unfold flatten. rewrite in_flat_map. split.
  - intros [[t' b] [Hb H]]. simpl in H. apply in_map_iff in H. destruct H as [[j w] [E Hw]].
    simpl in E. inversion E; subst. eauto.
  - intros [b [Hb H]]. exists (t, b). split; auto. simpl. apply in_map_iff. exists (i, v). auto.
Qed.

Definition zip3 (s : @summary V) : table (nat * V) :=
  combine (s_ids s) (combine (s_types s) (s_data s)).

Lemma zip3_of (t : table (nat * V)) :
  combine (ids t) (combine (map fst (vals t)) (map snd (vals t))) = t.
Proof. induction t as [|[i [ty v]] r IH]; simpl; [|rewrite IH]; reflexivity. Qed.

(* every element of every block is listed exactly once, with its type and
   data; mixed collections are strictly ascending by id; the id->position
   map is the enumeration of the listed ids *)
Theorem summary_sorted_complete (bs : @blocks V) (s : @summary V) :
  update_self bs = Some s ->
     Permutation (flatten bs) (zip3 s)
  /\ NoDup (s_ids s)
  /\ (length bs <> 1%nat -> StronglySorted Z.lt (s_ids s))
  /\ s_id2index s = enumerate (s_ids s)
  /\ length (s_types s) = length (s_ids s) /\ length (s_data s) = length (s_ids s).
Proof.
  unfold update_self. destruct (nodupZ (ids (flatten bs))) eqn:ND; simpl; [|discriminate].
  apply nodupZ_NoDup in ND. intros H. inversion H; subst; clear H. unfold zip3; simpl.
  set (srt := match bs with [_] => flatten bs | _ => sort_by_id (flatten bs) end).
  assert (P : Permutation (flatten bs) srt).
  { unfold srt. destruct bs as [|b [|b' r]]; try apply sort_perm. reflexivity. }
  rewrite zip3_of. repeat split; auto.
  - eapply Permutation_NoDup; [apply Permutation_map; exact P|exact ND].
  - intros Hl. unfold srt. destruct bs as [|b [|b' r]]; try (apply sort_ids_strict; exact ND).
    simpl in Hl. congruence.
  - unfold ids, vals. rewrite !map_length. reflexivity.
  - unfold ids, vals. rewrite !map_length. reflexivity.
Qed.

(* position k of the summary, looked up by id, by position and through the
   id->position map, is one element of one block *)
Theorem summary_consistent (bs : @blocks V) (s : @summary V) k i t v :
  update_self bs = Some s ->
  nth_error (s_ids s) k = Some i -> nth_error (s_types s) k = Some t ->
  nth_error (s_data s) k = Some v ->
     lookup i (s_id2index s) = Some k
  /\ (exists b, In (t, b) bs /\ In (i, v) b)
  /\ (forall k', nth_error (s_ids s) k' = Some i -> k' = k).
Proof.
  intros H Hi Ht Hv.
  destruct (summary_sorted_complete bs s H) as [P [ND [_ [E [L1 L2]]]]].
  repeat split.
  - rewrite E, lookup_enumerate. apply nth_pos; auto.
  - apply flatten_In. eapply Permutation_in; [apply Permutation_sym; exact P|].
    unfold zip3. eapply nth_error_In with (n := k).
    clear - Hi Ht Hv. revert k Hi Ht Hv. generalize (s_ids s) (s_types s) (s_data s).
    induction l as [|x l IH]; intros [|y l0] [|z l1] k; destruct k; simpl; try discriminate.
    + intros A B C; inversion A; inversion B; inversion C; subst; reflexivity.
    + apply IH.
  - intros k' Hk'. apply nth_pos in Hk'; auto. apply nth_pos in Hi; auto. congruence.
Qed.

(* conversely every element of every block is found in the summary *)
Theorem summary_complete (bs : @blocks V) (s : @summary V) t b i v :
  update_self bs = Some s -> In (t, b) bs -> In (i, v) b ->
  exists k, nth_error (s_ids s) k = Some i /\ nth_error (s_types s) k = Some t
            /\ nth_error (s_data s) k = Some v.
Proof.
  intros H Hb Hv.
  destruct (summary_sorted_complete bs s H) as [P _].
  assert (Hin : In (i, (t, v)) (zip3 s)).
  { eapply Permutation_in; [exact P|]. apply flatten_In. eauto. }
  destruct (In_nth_error _ _ Hin) as [k Hk]. exists k.
  unfold zip3 in Hk. clear - Hk. revert k Hk. generalize (s_ids s) (s_types s) (s_data s).
  induction l as [|x l IH]; intros l0 l1 k; [destruct k; discriminate|].
  destruct l0 as [|y l0]; [destruct k; discriminate|].
  destruct l1 as [|z l1]; [destruct k; discriminate|].
  destruct k; simpl.
  - intros E; inversion E; subst; auto.
  - apply IH.
Qed.

End Summary.

Section Generate.
Context {V W : Type}.

(* generate_elemental_attribute: an element id carries, in the block of its own
   type, exactly the row handed in for that id; ids of a block ascending *)
Definition gpick (tbl : table V) (i : Z) : table V :=
  match lookup i tbl with Some v => [(i, v)] | None => [] end.

Lemma gpick_In tbl l i v : In (i, v) (flat_map (gpick tbl) l) <-> In i l /\ lookup i tbl = Some v.
Proof.
  rewrite in_flat_map. unfold gpick. split.
  - intros [j [Hj H]]. destruct (lookup j tbl) eqn:L; [|destruct H].
    destruct H as [E|[]]. inversion E; subst. auto.
  - intros [Hi L]. exists i. split; auto. rewrite L. simpl; auto.
Qed.

Theorem egenerate_In (bs : list (nat * table W)) (tbl : table V) i t v :
  In (i, (t, v)) (flatten (egenerate bs tbl)) <->
  lookup i tbl = Some v /\ exists c, In (i, (t, c)) (flatten bs).
Proof.
  unfold egenerate. rewrite flatten_In. split.
  - intros [b [Hb Hv]]. apply filter_In in Hb. destruct Hb as [Hb _].
    apply in_map_iff in Hb. destruct Hb as [[t0 b0] [E Hb0]]. simpl in E. inversion E; subst; clear E.
    apply gpick_In in Hv. destruct Hv as [Hi L]. split; auto.
    apply (proj1 (uniqueZ_In _ _)) in Hi. apply in_map_iff in Hi. destruct Hi as [[j c] [E Hc]]. simpl in E; subst j.
    exists c. apply flatten_In. eauto.
  - intros [L [c Hc]]. apply flatten_In in Hc. destruct Hc as [b0 [Hb0 Hc]].
    assert (Hin : In (i, v) (flat_map (gpick tbl) (uniqueZ (ids b0)))).
    { apply gpick_In. split; auto. apply uniqueZ_In. apply in_map_iff. exists (i, c). auto. }
    exists (flat_map (gpick tbl) (uniqueZ (ids b0))). split; auto.
    apply filter_In. split.
    + apply in_map_iff. exists (t, b0). auto.
    + simpl. apply negb_true_iff, Nat.eqb_neq. intros Hl. apply length_zero_iff_nil in Hl.
      rewrite Hl in Hin. destruct Hin.
Qed.

Lemma gpick_ids tbl l : ids (flat_map (gpick tbl) l) =
  filter (fun i => match lookup i tbl with Some _ => true | None => false end) l.
Proof.
  induction l as [|i l IH]; simpl; [reflexivity|]. unfold ids in *. rewrite map_app, IH.
  unfold gpick. destruct (lookup i tbl); reflexivity.
Qed.

Lemma filter_sorted_lt (f : Z -> bool) l : StronglySorted Z.lt l -> StronglySorted Z.lt (filter f l).
Proof.
  induction 1 as [|x r S IH F]; simpl; [constructor|]. destruct (f x); auto.
  constructor; auto. rewrite Forall_forall in *. intros y Hy. apply filter_In in Hy. apply F; tauto.
Qed.

Theorem egenerate_sorted (bs : list (nat * table W)) (tbl : table V) :
  Forall (fun b => StronglySorted Z.lt (ids (snd b))) (egenerate bs tbl).
Proof.
  unfold egenerate. apply Forall_forall. intros b Hb. apply filter_In in Hb. destruct Hb as [Hb _].
  apply in_map_iff in Hb. destruct Hb as [b0 [E _]]. subst b. simpl.
  change (StronglySorted Z.lt (ids (flat_map (gpick tbl) (uniqueZ (ids (snd b0)))))).
  rewrite gpick_ids. apply filter_sorted_lt. apply uniqueZ_sorted.
Qed.

End Generate.

