(* C09 — sub-mesh extraction on id-keyed tables.  Hand model (tie H) of
   femio/fem_data.py: cut_with_element_ids, cut_with_element_type,
   cut_with_node_ids, extract_with_element_indices, remove_useless_nodes,
   to_first_order, to_surface, to_facets.  Definitions only.

   Coordinates and variable rows are opaque (type V); connectivity rows are
   lists of node ids.  Element collections are C08's `blocks` (per-type
   tables in ELEMENT_TYPES order) with C08's `efilter` / `update_self`. *)
From Coq Require Import ZArith List Bool Arith.
Import ListNotations.
From FV.C09 Require Import Table AttrModel.
From FV.C09.gen Require Export FirstOrder.

(* how a nodal variable is carried over by the three operations that select
   nodes by storage position: by id (true) or by the position in the node
   table (false).  Read from the source by translate/c09_cfg.py. *)
Record cfg := {
  useless_by_id : bool;      (* remove_useless_nodes *)
  first_order_by_id : bool;  (* to_first_order *)
  surface_by_id : bool       (* to_surface *)
}.
Definition cfg_ok (c : cfg) : bool := useless_by_id c && first_order_by_id c && surface_by_id c.

(* the two-pointer sweep of remove_useless_nodes over the ascending node ids
   xs and the ascending useful ids us: the mask of the xs that are useful;
   None = the loop runs past the end of xs (IndexError) *)
Fixpoint sweep (xs us : list Z) {struct xs} : option (list bool) :=
  match us with
  | [] => Some (map (fun _ => false) xs)
  | u :: us' =>
      match xs with
      | [] => None
      | x :: xs' =>
          if Z.eqb x u then option_map (cons true) (sweep xs' us')
          else option_map (cons false) (sweep xs' us)
      end
  end.
Definition mask (xs us : list Z) : list bool := map (fun x => memZ x us) xs.

Fixpoint filter_mask {A} (m : list bool) (l : list A) : list A :=
  match m, l with
  | b :: m', x :: l' => if b then x :: filter_mask m' l' else filter_mask m' l'
  | _, _ => []
  end.

(* functions.remove_duplicates (np.unique(axis=0, return_index=True) over the
   sorted rows, then rows[indices]): one row per sorted-row key, the first
   occurrence, in ascending lexicographic order of the keys *)
Fixpoint insert_sortZ (x : Z) (l : list Z) : list Z :=
  match l with [] => [x] | y :: r => if Z.leb x y then x :: l else y :: insert_sortZ x r end.
Definition sort_row (c : list Z) : list Z := fold_right insert_sortZ [] c.

Fixpoint lex_cmp (a b : list Z) : comparison :=
  match a, b with
  | [], [] => Eq
  | [], _ => Lt
  | _, [] => Gt
  | x :: a', y :: b' => match Z.compare x y with Eq => lex_cmp a' b' | c => c end
  end.

Fixpoint firsts (seen : list (list Z)) (rows : list (list Z)) : list (list Z * list Z) :=
  match rows with
  | [] => []
  | r :: t => let k := sort_row r in
              if existsb (list_eqb k) seen then firsts seen t else (k, r) :: firsts (k :: seen) t
  end.

Fixpoint insert_lex (x : list Z * list Z) (l : list (list Z * list Z)) : list (list Z * list Z) :=
  match l with
  | [] => [x]
  | y :: t => match lex_cmp (fst x) (fst y) with Gt => y :: insert_lex x t | _ => x :: l end
  end.

Definition remove_duplicates (rows : list (list Z)) : list (list Z) :=
  map snd (fold_right insert_lex [] (firsts [] rows)).

Section Mesh.
Context {V : Type}.

Definition conn := list Z.

Record mesh := {
  nodes : table V;                          (* FEMData.nodes: id, coordinates *)
  elems : @blocks conn;                     (* FEMData.elements *)
  nodal : list (nat * table V);             (* nodal_data (without the NODE entry) *)
  elemental : list (nat * @blocks V)        (* elemental_data *)
}.

Definition conn_ids (bs : @blocks conn) : list Z :=
  flat_map (fun b => flat_map snd (snd b)) bs.

Definition eids (bs : @blocks conn) : list Z := ids (flatten bs).

(* mapM over the named nodal variables *)
Definition map_nodal (f : table V -> option (table V)) (l : list (nat * table V))
  : option (list (nat * table V)) :=
  mapM (fun nv => option_map (pair (fst nv)) (f (snd nv))) l.

(* ---- cut_with_element_ids (sel: requested element ids) ---- *)
Definition cut_with_element_ids (m : mesh) (sel : list Z) : option mesh :=
  let fe := efilter (elems m) sel in
  match fe with
  | [] => None                               (* np.concatenate of nothing raises *)
  | _ =>
      let nids := uniqueZ (conn_ids fe) in
      match select_ids nids (nodes m), map_nodal (select_ids nids) (nodal m) with
      | Some ns, Some nd =>
          Some {| nodes := ns; elems := fe; nodal := nd;
                  elemental := map (fun nv => (fst nv, efilter (snd nv) sel)) (elemental m) |}
      | _, _ => None
      end
  end.

(* ---- cut_with_element_type (t: type index) ---- *)
Definition block_of (t : nat) (bs : @blocks conn) : option (table conn) :=
  option_map snd (find (fun b => Nat.eqb (fst b) t) bs).

Definition cut_with_element_type (m : mesh) (t : nat) : option mesh :=
  match block_of t (elems m) with
  | None => None
  | Some b => cut_with_element_ids m (ids b)
  end.

(* ---- extract_with_element_indices (positions in the collection summary) ---- *)
Definition extract_with_element_indices (m : mesh) (ks : list nat) : option mesh :=
  match update_self (elems m) with
  | None => None
  | Some s =>
      match mapM (fun k => nth_error (s_ids s) k) ks with
      | None => None
      | Some sel => cut_with_element_ids m sel
      end
  end.

(* ---- cut_with_node_ids ---- *)
Definition inside (sel : list Z) (c : conn) : bool := forallb (fun n => memZ n sel) c.

Definition cut_with_node_ids (m : mesh) (sel : list Z) : option mesh :=
  match update_self (elems m) with
  | None => None
  | Some s =>
      let keep := map fst (filter (fun ic => inside sel (snd ic)) (combine (s_ids s) (s_data s))) in
      match select_ids sel (nodes m), map_nodal (select_ids sel) (nodal m) with
      | Some ns, Some nd =>
          Some {| nodes := ns; elems := efilter (elems m) keep; nodal := nd;
                  elemental := map (fun nv => (fst nv, efilter (snd nv) keep)) (elemental m) |}
      | _, _ => None
      end
  end.

(* ---- remove_useless_nodes ---- *)
(* node table with storage positions, ascending by id (argsort) *)
Definition indexed (t : table V) : table (nat * V) :=
  combine (ids t) (combine (seq 0 (length t)) (vals t)).

Definition by_position (ks : list nat) (new_ids : list Z) (var : table V) : option (table V) :=
  option_map (combine new_ids) (mapM (fun k => nth_error (vals var) k) ks).

Definition remove_useless_nodes (c : cfg) (m : mesh) : option mesh :=
  let useful := uniqueZ (conn_ids (elems m)) in
  let sorted := sort_by_id (indexed (nodes m)) in
  if Nat.eqb (length sorted) (length useful) then
    if list_eqb (ids sorted) useful then Some m else None
  else
    match sweep (ids sorted) useful with
    | None => None
    | Some msk =>
        let kept := filter_mask msk sorted in
        let ks := map (fun e => fst (snd e)) kept in
        let ns : table V := map (fun e => (fst e, snd (snd e))) kept in
        match map_nodal (fun var => if useless_by_id c then select_ids (ids ns) var
                                    else by_position ks (ids ns) var) (nodal m) with
        | None => None
        | Some nd => Some {| nodes := ns; elems := elems m; nodal := nd; elemental := elemental m |}
        end
    end.

(* ---- to_first_order ---- *)
(* second-order types and the number of corner nodes kept (tet2 -> 4, hex2 -> 8):
   `first_order_arity`, regenerated on every run from FEMElementalAttribute._to_first_order by
   translate/c09_cfg.py (gen/FirstOrder.v).  Some None: returned unchanged; Some (Some k): the
   first k columns are kept; None: the type is not supported (raises). *)
Definition is_second (t : nat) : bool :=
  match first_order_arity t with Some None => false | _ => true end.

Definition elems_first_order (bs : @blocks conn) : option (@blocks conn) :=
  mapM (fun b => match first_order_arity (fst b) with
                 | None => None
                 | Some None => Some b
                 | Some (Some k) => Some (fst b, map (fun ic => (fst ic, firstn k (snd ic))) (snd b))
                 end) bs.

Definition to_first_order (c : cfg) (m : mesh) : option mesh :=
  if negb (existsb (fun b => is_second (fst b)) (elems m)) then Some m
  else
    match elems_first_order (elems m) with
    | None => None
    | Some fe =>
        let first := uniqueZ (conn_ids fe) in
        let msk := map (fun i => memZ i first) (ids (nodes m)) in
        let ns := filter_mask msk (nodes m) in
        (* variables of another length are dropped *)
        let vars := filter (fun nv => Nat.eqb (length (snd nv)) (length (nodes m))) (nodal m) in
        match map_nodal (fun var => if first_order_by_id c then select_ids (ids ns) var
                                    else Some (filter_mask msk var)) vars with
        | None => None
        | Some nd => Some {| nodes := ns; elems := fe; nodal := nd; elemental := elemental m |}
        end
    end.

(* ---- to_surface / to_facets ---- *)
(* facets: per output type (tri / quad / polygon index) the rows of node
   *positions* returned by extract_surface, resp. of node ids returned by
   extract_facets; the facet extraction itself belongs to C10 *)
Fixpoint renumber_from (start : Z) (groups : list (nat * list conn)) : @blocks conn :=
  match groups with
  | [] => []
  | g :: r =>
      let n := length (snd g) in
      (fst g, combine (map (fun k => start + Z.of_nat k)%Z (seq 1 n)) (snd g))
        :: renumber_from (start + Z.of_nat n) r
  end.
(* FEMElementalAttribute._generate_surface: ids 1..k running over the groups *)
Definition renumber (groups : list (nat * list conn)) : @blocks conn := renumber_from 0 groups.

Definition positions_to_ids (t : table V) (row : list nat) : option conn :=
  mapM (fun k => nth_error (ids t) k) row.

Fixpoint insert_nat (x : nat) (l : list nat) : list nat :=
  match l with
  | [] => [x]
  | y :: r => if Nat.ltb x y then x :: l else if Nat.eqb x y then l else y :: insert_nat x r
  end.
Definition unique_nat (l : list nat) : list nat := fold_right insert_nat [] l.

Definition to_surface (c : cfg) (m : mesh) (surf : list (nat * list (list nat))) (remove : bool)
  : option mesh :=
  match mapM (fun g => option_map (pair (fst g)) (mapM (positions_to_ids (nodes m)) (snd g))) surf with
  | None => None
  | Some groups =>
      let el := renumber groups in
      (* no facet at all: building the empty attribute raises *)
      if Nat.eqb (length (flat_map snd surf)) 0 then None else
      if negb remove then
        Some {| nodes := nodes m; elems := el; nodal := nodal m; elemental := [] |}
      else
        let ks := unique_nat (flat_map (fun g => concat (snd g)) surf) in
        match select_pos ks (nodes m) with
        | None => None
        | Some ns =>
            let vars := filter (fun nv => Nat.eqb (length (snd nv)) (length (nodes m))) (nodal m) in
            match map_nodal (fun var => if surface_by_id c then select_ids (ids ns) var
                                        else by_position ks (ids ns) var) vars with
            | None => None
            | Some nd => Some {| nodes := ns; elems := el; nodal := nd; elemental := [] |}
            end
        end
  end.

Definition to_facets (m : mesh) (facets : list (nat * list conn)) : mesh :=
  {| nodes := nodes m; elems := renumber facets; nodal := nodal m; elemental := [] |}.

(* ---- well-formedness and the properties ---- *)
Definition wf_mesh (m : mesh) : bool :=
  nodupZ (ids (nodes m)) && nodupZ (eids (elems m)) && nodupZ (map Z.of_nat (map fst (elems m)))
  && forallb (fun n => memZ n (ids (nodes m))) (conn_ids (elems m)).

(* every node an element refers to exists exactly once *)
Definition self_contained (m : mesh) : Prop :=
  NoDup (ids (nodes m)) /\ forall n, In n (conn_ids (elems m)) -> In n (ids (nodes m)).

(* a nodal variable is stored in the node table's order *)
Definition aligned (m : mesh) : Prop := forall nv, In nv (nodal m) -> ids (snd nv) = ids (nodes m).

End Mesh.
Arguments mesh V : clear implicits.
