(* C09 — proofs about sub-mesh extraction (Model.v). *)
From Coq Require Import ZArith List Bool Arith Lia Permutation Sorted.
Import ListNotations.
From FV.C08 Require Import Table Model Proofs.
From FV.C09 Require Import Model.

(* ------------------------------------------------------------ np.unique *)
Lemma insertZ_In x y l : In y (insertZ x l) <-> y = x \/ In y l.
Proof.
  induction l as [|z r IH]; simpl; [intuition|].
  destruct (Z.ltb_spec x z); simpl; [intuition|].
  destruct (Z.eqb_spec x z); simpl.
  - subst. intuition.
  - rewrite IH. intuition.
Qed.

Lemma uniqueZ_In x l : In x (uniqueZ l) <-> In x l.
Proof.
  unfold uniqueZ. induction l as [|y r IH]; simpl; [tauto|].
  rewrite insertZ_In, IH. intuition.
Qed.

Lemma insertZ_sorted x l : StronglySorted Z.lt l -> StronglySorted Z.lt (insertZ x l).
Proof.
  induction 1 as [|y r S IH F]; simpl; [repeat constructor|].
  destruct (Z.ltb_spec x y).
  - constructor; [constructor; auto|]. constructor; auto.
    eapply Forall_impl; [|exact F]. intros; lia.
  - destruct (Z.eqb_spec x y); [constructor; auto|].
    constructor; auto. rewrite Forall_forall in *. intros z Hz.
    apply insertZ_In in Hz. destruct Hz as [->|Hz]; [lia|auto].
Qed.

Lemma uniqueZ_sorted l : StronglySorted Z.lt (uniqueZ l).
Proof. unfold uniqueZ. induction l; simpl; [constructor|apply insertZ_sorted; auto]. Qed.

Lemma sorted_lt_NoDup l : StronglySorted Z.lt l -> NoDup l.
Proof.
  induction 1 as [|x r S IH F]; constructor; auto.
  intros Hin. rewrite Forall_forall in F. specialize (F x Hin). lia.
Qed.

Lemma uniqueZ_NoDup l : NoDup (uniqueZ l).
Proof. apply sorted_lt_NoDup, uniqueZ_sorted. Qed.

(* two strictly ascending lists with the same members are equal *)
Lemma sorted_ext a b : StronglySorted Z.lt a -> StronglySorted Z.lt b ->
  (forall x, In x a <-> In x b) -> a = b.
Proof.
  intros Sa. revert b. induction Sa as [|x a Sa IH Fa]; intros b Sb H.
  - destruct b as [|y b]; [reflexivity|]. exfalso. apply (H y). simpl; auto.
  - destruct b as [|y b]; [exfalso; apply (H x); simpl; auto|].
    inversion Sb as [|? ? Sb' Fb]; subst.
    rewrite Forall_forall in Fa, Fb.
    assert (x = y).
    { destruct (proj1 (H x) (or_introl eq_refl)) as [E|E]; [auto|].
      destruct (proj2 (H y) (or_introl eq_refl)) as [E'|E']; [auto|].
      specialize (Fa y E'). specialize (Fb x E). lia. }
    subst y. f_equal. apply IH; auto. intros z. split; intros Hz.
    + destruct (proj1 (H z) (or_intror Hz)) as [E|E]; [|auto].
      subst z. specialize (Fa x Hz). lia.
    + destruct (proj2 (H z) (or_intror Hz)) as [E|E]; [|auto].
      subst z. specialize (Fb x Hz). lia.
Qed.

(* -------------------------------------------------------------- the sweep *)
Lemma mask_nil xs : mask xs [] = map (fun _ => false) xs.
Proof. unfold mask. apply map_ext. reflexivity. Qed.

Lemma mask_skip x xs u us : (forall y, In y xs -> x < y) -> x <> u -> (forall v, In v us -> u < v) ->
  True.
Proof. auto. Qed.

(* sweep_correct: ascending node ids xs, ascending useful ids us, every useful
   id present: the sweep ends normally and marks exactly the useful ids *)
Theorem sweep_correct xs : forall us, StronglySorted Z.lt xs -> StronglySorted Z.lt us ->
  incl us xs -> sweep xs us = Some (mask xs us).
Proof.
  induction xs as [|x xs IH]; intros us Sx Su Hin.
  - destruct us as [|u us]; [reflexivity|]. exfalso. apply (Hin u). simpl; auto.
  - destruct us as [|u us]; [simpl; rewrite <- mask_nil; reflexivity|].
    inversion Sx as [|? ? Sx' Fx]; subst. inversion Su as [|? ? Su' Fu]; subst.
    rewrite Forall_forall in Fx, Fu.
    cbn [sweep]. destruct (Z.eqb_spec x u) as [E|E].
    + subst u. rewrite (IH us); auto.
      * simpl. unfold mask; simpl. rewrite Z.eqb_refl. simpl. f_equal. f_equal.
        apply map_ext_in. intros y Hy. destruct (Z.eqb_spec y x); [|reflexivity].
        subst. specialize (Fx x Hy). lia.
      * intros v Hv. destruct (Hin v (or_intror Hv)) as [E|E]; [|auto].
        subst v. specialize (Fu x Hv). lia.
    + assert (Hux : In u xs).
      { destruct (Hin u (or_introl eq_refl)); [congruence|auto]. }
      assert (Hlt : x < u) by (apply Fx; auto).
      rewrite (IH (u :: us)); auto.
      * simpl. unfold mask; simpl. destruct (Z.eqb_spec x u); [congruence|]. simpl.
        replace (memZ x us) with false; [reflexivity|].
        symmetry. apply memZ_false. intros Hx. specialize (Fu x Hx). lia.
      * intros v [Hv|Hv]; [subst; auto|].
        destruct (Hin v (or_intror Hv)) as [E'|E']; [|auto].
        subst v. specialize (Fu x Hv). lia.
Qed.

(* ... and when some useful id is not a node id the loop runs off the end *)
Theorem sweep_error xs : forall us, StronglySorted Z.lt xs -> StronglySorted Z.lt us ->
  ~ incl us xs -> sweep xs us = None.
Proof.
  induction xs as [|x xs IH]; intros us Sx Su Hn.
  - destruct us as [|u us]; [exfalso; apply Hn; intros y []|reflexivity].
  - destruct us as [|u us]; [exfalso; apply Hn; intros y []|].
    inversion Sx as [|? ? Sx' Fx]; subst. inversion Su as [|? ? Su' Fu]; subst.
    rewrite Forall_forall in Fx, Fu.
    cbn [sweep]. destruct (Z.eqb_spec x u) as [E|E].
    + subst u. rewrite (IH us); auto. intros H. apply Hn.
      intros y [Hy|Hy]; [left; auto|right; auto].
    + rewrite (IH (u :: us)); auto. intros H. apply Hn.
      intros y Hy. right. apply H. exact Hy.
Qed.

Lemma filter_mask_mask {A} (f : A -> Z) us (t : list A) :
  filter_mask (mask (map f t) us) t = filter (fun e => memZ (f e) us) t.
Proof.
  induction t as [|e t IH]; simpl; [reflexivity|].
  destruct (memZ (f e) us); rewrite IH; reflexivity.
Qed.

Lemma filter_mask_map {A} (p : A -> bool) (t : list A) :
  filter_mask (map p t) t = filter p t.
Proof. induction t as [|e t IH]; simpl; [reflexivity|]. destruct (p e); rewrite IH; reflexivity. Qed.

(* --------------------------------------------------- sub-tables keep rows *)
Section Sub.
Context {V : Type}.

(* every row of t' is a row of t and the ids of both are distinct: looking an
   id of t' up gives the same row before and after *)
Lemma sub_lookup (t t' : table V) n : NoDup (ids t) -> NoDup (ids t') -> incl t' t ->
  In n (ids t') -> lookup n t' = lookup n t.
Proof.
  intros ND ND' Hi Hn. apply in_map_iff in Hn. destruct Hn as [[j v] [E Hv]]. simpl in E; subst j.
  rewrite (In_lookup _ _ _ ND' Hv). symmetry. apply In_lookup; auto.
Qed.

Lemma select_ids_incl sel (t r : table V) : select_ids sel t = Some r -> incl r t.
Proof.
  intros H [i v] Hin. apply lookup_In. eapply select_ids_rows; eauto.
Qed.

Lemma select_pos_incl ks (t r : table V) : select_pos ks t = Some r -> incl r t.
Proof.
  unfold select_pos. revert r. induction ks as [|k ks IH]; simpl; intros r H.
  - inversion H. intros x [].
  - destruct (nth_error t k) eqn:N; [|discriminate]. destruct (mapM _ ks); [|discriminate].
    inversion H; subst. intros x [E|E]; [subst; eapply nth_error_In; eauto | eapply IH; eauto].
Qed.

Lemma filter_mask_incl {A} m (t : list A) : incl (filter_mask m t) t.
Proof.
  revert t. induction m as [|b m IH]; intros [|x t]; simpl; try (intros y []).
  destruct b; [intros y [E|E]; [left; auto|right; apply IH; auto] | intros y Hy; right; apply IH; auto].
Qed.

Lemma filter_mask_NoDup_ids m (t : table V) : NoDup (ids t) -> NoDup (ids (filter_mask m t)).
Proof.
  revert t. induction m as [|b m IH]; intros [|[i v] t]; simpl; intros H; try constructor.
  inversion H; subst. destruct b; simpl; auto. constructor; auto.
  intros Hin. apply H2. apply in_map_iff in Hin. destruct Hin as [x [E Hx]].
  apply in_map_iff. exists x. split; auto. eapply filter_mask_incl; eauto.
Qed.

(* a table selected by distinct ids: ids are the selection, rows are kept *)
Lemma select_ids_keeps sel (t r : table V) : NoDup (ids t) -> NoDup sel ->
  select_ids sel t = Some r ->
  ids r = sel /\ forall n, In n sel -> lookup n r = lookup n t.
Proof.
  intros ND NDs H. split; [eapply select_ids_ids; eauto|].
  intros n Hn. eapply select_ids_lookup; eauto.
Qed.

End Sub.

(* ------------------------------------------------------------- efilter *)
Section Efilter.
Context {W : Type}.
Implicit Types bs : @blocks W.

Definition tags bs : list nat := map fst bs.

Lemma flatten_tag bs i t v : In (i, (t, v)) (flatten bs) -> In t (tags bs).
Proof.
  intros H. apply flatten_In in H. destruct H as [b [Hb _]].
  unfold tags. apply in_map_iff. exists (t, b). auto.
Qed.

(* rows of filter_with_ids(sel): exactly the requested ids that exist, each
   with its type and row *)
Theorem efilter_In bs sel i t v : NoDup (ids (flatten bs)) ->
  (In (i, (t, v)) (flatten (efilter bs sel)) <-> In i sel /\ In (i, (t, v)) (flatten bs)).
Proof.
  intros ND. unfold efilter.
  set (flat := flatten bs).
  set (present := filter (fun i => memZ i (ids flat)) sel).
  set (pick := fun (b : nat * table W) (i : Z) =>
                 match lookup i flat with
                 | Some (t, v) => if Nat.eqb t (fst b) then [(i, v)] else []
                 | None => [] end).
  rewrite flatten_In. split.
  - intros [b [Hb Hv]]. apply filter_In in Hb. destruct Hb as [Hb _].
    apply in_map_iff in Hb. destruct Hb as [b0 [E Hb0]]. inversion E; subst; clear E.
    apply in_flat_map in Hv. destruct Hv as [j [Hj Hv]].
    apply filter_In in Hj. destruct Hj as [Hj _].
    destruct (lookup j flat) as [[t' v']|] eqn:L; [|destruct Hv].
    destruct (Nat.eqb_spec t' (fst b0)); [|destruct Hv].
    destruct Hv as [E|[]]. inversion E; subst. split; auto.
    apply lookup_In in L. exact L.
  - intros [Hs Hf]. pose proof (flatten_tag _ _ _ _ Hf) as Ht.
    unfold tags in Ht. apply in_map_iff in Ht. destruct Ht as [[t0 b0] [E Hb0]]. simpl in E; subst t0.
    exists (flat_map (pick (t, b0)) present). split.
    + apply filter_In. split.
      * apply in_map_iff. exists (t, b0). split; auto.
      * apply negb_true_iff. apply Nat.eqb_neq. intros Hl.
        apply length_zero_iff_nil in Hl.
        assert (Hin : In (i, v) (flat_map (pick (t, b0)) present)).
        { apply in_flat_map. exists i. split.
          - apply filter_In. split; auto. apply memZ_In. apply in_map_iff. exists (i, (t, v)); auto.
          - unfold pick, flat. rewrite (In_lookup _ _ _ ND Hf). simpl. rewrite Nat.eqb_refl. simpl; auto. }
        simpl in Hl. rewrite Hl in Hin. destruct Hin.
    + apply in_flat_map. exists i. split.
      * apply filter_In. split; auto. apply memZ_In. apply in_map_iff. exists (i, (t, v)); auto.
      * unfold pick, flat. rewrite (In_lookup _ _ _ ND Hf). simpl. rewrite Nat.eqb_refl. simpl; auto.
Qed.

End Efilter.
