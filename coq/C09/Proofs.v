(* C09 — proofs about sub-mesh extraction (Model.v). *)
From Coq Require Import ZArith List Bool Arith Lia Permutation Sorted.
Import ListNotations.
From FV.C09 Require Import Table AttrModel AttrProofs.
From FV.C09 Require Import Model.

(* two strictly ascending lists with the same members are equal *)
Lemma sorted_ext a b : StronglySorted Z.lt a -> StronglySorted Z.lt b ->
  (forall x, In x a <-> In x b) -> a = b.
Proof.
  intros Sa. revert b. induction Sa as [|x a Sa IH Fa]; intros b Sb H.
  - destruct b as [|y b]; [reflexivity|]. exfalso. apply (H y). simpl; auto.
  - destruct b as [|y b]; [exfalso; apply (H x); simpl; auto|].
    inversion Sb as [|? ? Sb' Fb]; subst.
    rewrite Forall_forall in Fa, Fb.
    assert (x = y).
    { destruct (proj1 (H x) (or_introl eq_refl)) as [E|E]; [auto|].
      destruct (proj2 (H y) (or_introl eq_refl)) as [E'|E']; [auto|].
      specialize (Fa y E'). specialize (Fb x E). lia. }
    subst y. f_equal. apply IH; auto. intros z. split; intros Hz.
    + destruct (proj1 (H z) (or_intror Hz)) as [E|E]; [|auto].
      subst z. specialize (Fa x Hz). lia.
    + destruct (proj2 (H z) (or_intror Hz)) as [E|E]; [|auto].
      subst z. specialize (Fb x Hz). lia.
Qed.

(* -------------------------------------------------------------- the sweep *)
Lemma mask_nil xs : mask xs [] = map (fun _ => false) xs.
Proof. unfold mask. apply map_ext. reflexivity. Qed.

Lemma mask_skip x xs u us : (forall y, In y xs -> x < y) -> x <> u -> (forall v, In v us -> u < v) ->
  True.
Proof. auto. Qed.

(* sweep_correct: ascending node ids xs, ascending useful ids us, every useful
   id present: the sweep ends normally and marks exactly the useful ids *)
Theorem sweep_correct xs : forall us, StronglySorted Z.lt xs -> StronglySorted Z.lt us ->
  incl us xs -> sweep xs us = Some (mask xs us).
Proof.
  induction xs as [|x xs IH]; intros us Sx Su Hin.
  - destruct us as [|u us]; [reflexivity|]. exfalso. apply (Hin u). simpl; auto.
  - destruct us as [|u us]; [simpl; rewrite <- mask_nil; reflexivity|].
    inversion Sx as [|? ? Sx' Fx]; subst. inversion Su as [|? ? Su' Fu]; subst.
    rewrite Forall_forall in Fx, Fu.
    cbn [sweep]. destruct (Z.eqb_spec x u) as [E|E].
    + subst u. rewrite (IH us); auto.
      * simpl. unfold mask; simpl. rewrite Z.eqb_refl. simpl. f_equal. f_equal.
        apply map_ext_in. intros y Hy. destruct (Z.eqb_spec y x); [|reflexivity].
        subst. specialize (Fx x Hy). lia.
      * intros v Hv. destruct (Hin v (or_intror Hv)) as [E|E]; [|auto].
        subst v. specialize (Fu x Hv). lia.
    + assert (Hux : In u xs).
      { destruct (Hin u (or_introl eq_refl)); [congruence|auto]. }
      assert (Hlt : x < u) by (apply Fx; auto).
      rewrite (IH (u :: us)); auto.
      * simpl. unfold mask; simpl. destruct (Z.eqb_spec x u); [congruence|]. simpl.
        replace (memZ x us) with false; [reflexivity|].
        symmetry. apply memZ_false. intros Hx. specialize (Fu x Hx). lia.
      * intros v [Hv|Hv]; [subst; auto|].
        destruct (Hin v (or_intror Hv)) as [E'|E']; [|auto].
        subst v. specialize (Fu x Hv). lia.
Qed.

(* ... and when some useful id is not a node id the loop runs off the end *)
Theorem sweep_error xs : forall us, StronglySorted Z.lt xs -> StronglySorted Z.lt us ->
  ~ incl us xs -> sweep xs us = None.
Proof.
  induction xs as [|x xs IH]; intros us Sx Su Hn.
  - destruct us as [|u us]; [exfalso; apply Hn; intros y []|reflexivity].
  - destruct us as [|u us]; [exfalso; apply Hn; intros y []|].
    inversion Sx as [|? ? Sx' Fx]; subst. inversion Su as [|? ? Su' Fu]; subst.
    rewrite Forall_forall in Fx, Fu.
    cbn [sweep]. destruct (Z.eqb_spec x u) as [E|E].
    + subst u. rewrite (IH us); auto. intros H. apply Hn.
      intros y [Hy|Hy]; [left; auto|right; auto].
    + rewrite (IH (u :: us)); auto. intros H. apply Hn.
      intros y Hy. right. apply H. exact Hy.
Qed.

Lemma filter_mask_mask {A} (f : A -> Z) us (t : list A) :
  filter_mask (mask (map f t) us) t = filter (fun e => memZ (f e) us) t.
Proof.
  induction t as [|e t IH]; simpl; [reflexivity|].
  destruct (memZ (f e) us); rewrite IH; reflexivity.
Qed.

Lemma filter_mask_mask_ids {W} us (t : table W) :
  filter_mask (mask (ids t) us) t = filter (fun e => memZ (fst e) us) t.
Proof.
  induction t as [|e t IH]; simpl; [reflexivity|].
  destruct (memZ (fst e) us); rewrite IH; reflexivity.
Qed.

Lemma filter_mask_map {A} (p : A -> bool) (t : list A) :
  filter_mask (map p t) t = filter p t.
Proof. induction t as [|e t IH]; simpl; [reflexivity|]. destruct (p e); rewrite IH; reflexivity. Qed.

(* --------------------------------------------------- sub-tables keep rows *)
Section Sub.
Context {V : Type}.

(* every row of t' is a row of t and the ids of both are distinct: looking an
   id of t' up gives the same row before and after *)
Lemma sub_lookup (t t' : table V) n : NoDup (ids t) -> NoDup (ids t') -> incl t' t ->
  In n (ids t') -> lookup n t' = lookup n t.
Proof.
  intros ND ND' Hi Hn. apply in_map_iff in Hn. destruct Hn as [[j v] [E Hv]]. simpl in E; subst j.
  rewrite (In_lookup _ _ _ ND' Hv). symmetry. apply In_lookup; auto.
Qed.

Lemma select_ids_incl sel (t r : table V) : select_ids sel t = Some r -> incl r t.
Proof.
  intros H [i v] Hin. apply lookup_In. eapply select_ids_rows; eauto.
Qed.

Lemma select_pos_incl ks (t r : table V) : select_pos ks t = Some r -> incl r t.
Proof.
  unfold select_pos. revert r. induction ks as [|k ks IH]; simpl; intros r H.
  - inversion H. intros x [].
  - destruct (nth_error t k) eqn:N; [|discriminate]. destruct (mapM _ ks); [|discriminate].
    inversion H; subst. intros x [E|E]; [subst; eapply nth_error_In; eauto | eapply IH; eauto].
Qed.

Lemma filter_mask_incl {A} m (t : list A) : incl (filter_mask m t) t.
Proof.
  revert t. induction m as [|b m IH]; intros [|x t]; simpl; try (intros y []).
  destruct b; [intros y [E|E]; [left; auto|right; apply IH; auto] | intros y Hy; right; apply IH; auto].
Qed.

Lemma filter_mask_NoDup_ids m (t : table V) : NoDup (ids t) -> NoDup (ids (filter_mask m t)).
Proof.
  revert t. induction m as [|b m IH]; intros [|[i v] t]; simpl; intros H; try constructor.
  inversion H; subst. destruct b; simpl; auto. constructor; auto.
  intros Hin. apply H2. apply in_map_iff in Hin. destruct Hin as [x [E Hx]].
  apply in_map_iff. exists x. split; auto. eapply filter_mask_incl; eauto.
Qed.

(* a table selected by distinct ids: ids are the selection, rows are kept *)
Lemma select_ids_keeps sel (t r : table V) : NoDup (ids t) -> NoDup sel ->
  select_ids sel t = Some r ->
  ids r = sel /\ forall n, In n sel -> lookup n r = lookup n t.
Proof.
  intros ND NDs H. split; [eapply select_ids_ids; eauto|].
  intros n Hn. eapply select_ids_lookup; eauto.
Qed.

End Sub.

(* ------------------------------------------------------------- efilter *)
Section Efilter.
Context {W : Type}.
Implicit Types bs : @blocks W.

Definition tags bs : list nat := map fst bs.

Lemma flatten_tag bs i t v : In (i, (t, v)) (flatten bs) -> In t (tags bs).
Proof.
  intros H. apply flatten_In in H. destruct H as [b [Hb _]].
  unfold tags. apply in_map_iff. exists (t, b). auto.
Qed.

(* rows of filter_with_ids(sel): exactly the requested ids that exist, each
   with its type and row *)
Theorem efilter_In bs sel i t v : NoDup (ids (flatten bs)) ->
  (In (i, (t, v)) (flatten (efilter bs sel)) <-> In i sel /\ In (i, (t, v)) (flatten bs)).
Proof.
  intros ND. unfold efilter.
  set (flat := flatten bs).
  set (present := filter (fun i => memZ i (ids flat)) sel).
  set (pick := fun (b : nat * table W) (i : Z) =>
                 match lookup i flat with
                 | Some (t, v) => if Nat.eqb t (fst b) then [(i, v)] else []
                 | None => [] end).
  rewrite flatten_In. split.
  - intros [b [Hb Hv]]. apply filter_In in Hb. destruct Hb as [Hb _].
    apply in_map_iff in Hb. destruct Hb as [b0 [E Hb0]]. inversion E; subst; clear E.
    apply in_flat_map in Hv. destruct Hv as [j [Hj Hv]].
    apply filter_In in Hj. destruct Hj as [Hj _].
    destruct (lookup j flat) as [[t' v']|] eqn:L; [|destruct Hv].
    destruct (Nat.eqb_spec t' (fst b0)); [|destruct Hv].
    destruct Hv as [E|[]]. inversion E; subst. split; auto.
    apply lookup_In in L. exact L.
  - intros [Hs Hf]. pose proof (flatten_tag _ _ _ _ Hf) as Ht.
    unfold tags in Ht. apply in_map_iff in Ht. destruct Ht as [[t0 b0] [E Hb0]]. simpl in E; subst t0.
    exists (flat_map (pick (t, b0)) present). split.
    + apply filter_In. split.
      * apply in_map_iff. exists (t, b0). split; auto.
      * apply negb_true_iff. apply Nat.eqb_neq. intros Hl.
        apply length_zero_iff_nil in Hl.
        assert (Hin : In (i, v) (flat_map (pick (t, b0)) present)).
        { apply in_flat_map. exists i. split.
          - apply filter_In. split; auto. apply memZ_In. apply in_map_iff. exists (i, (t, v)); auto.
          - unfold pick, flat. rewrite (In_lookup _ _ _ ND Hf). simpl. rewrite Nat.eqb_refl. simpl; auto. }
        simpl in Hl. rewrite Hl in Hin. destruct Hin.
    + apply in_flat_map. exists i. split.
      * apply filter_In. split; auto. apply memZ_In. apply in_map_iff. exists (i, (t, v)); auto.
      * unfold pick, flat. rewrite (In_lookup _ _ _ ND Hf). simpl. rewrite Nat.eqb_refl. simpl; auto.
Qed.

End Efilter.

(* ------------------------------------------------------------ the cuts *)
Section Cuts.
Context {V : Type}.
Implicit Types m : mesh V.

Lemma map_nodal_spec (f : table V -> option (table V)) l r : map_nodal f l = Some r ->
  Forall2 (fun nv nv' => fst nv' = fst nv /\ f (snd nv) = Some (snd nv')) l r.
Proof.
  unfold map_nodal. revert r. induction l as [|[nm var] l IH]; simpl; intros r H.
  - inversion H. constructor.
  - destruct (f var) eqn:F; simpl in H; [|discriminate].
    destruct (mapM _ l) eqn:M; [|discriminate]. inversion H; subst.
    constructor; [simpl; auto | apply IH; reflexivity].
Qed.

Lemma Forall2_impl {A B} (P Q : A -> B -> Prop) l r :
  (forall a b, In a l -> P a b -> Q a b) -> Forall2 P l r -> Forall2 Q l r.
Proof.
  intros H F. induction F; constructor; [apply H; simpl; auto|].
  apply IHF. intros; apply H; simpl; auto.
Qed.

Lemma Forall2_map_r {A B} (g : A -> B) (Q : A -> B -> Prop) l :
  (forall a, In a l -> Q a (g a)) -> Forall2 Q l (map g l).
Proof. induction l; simpl; intros H; constructor; auto. Qed.

Lemma conn_ids_In (bs : @blocks conn) n :
  In n (conn_ids bs) <-> exists i t c, In (i, (t, c)) (flatten bs) /\ In n c.
Proof.
  unfold conn_ids. rewrite in_flat_map. split.
  - intros [[t b] [Hb H]]. simpl in H. apply in_flat_map in H. destruct H as [[i c] [Hc Hn]].
    exists i, t, c. split; auto. apply flatten_In. eauto.
  - intros [i [t [c [H Hn]]]]. apply flatten_In in H. destruct H as [b [Hb Hc]].
    exists (t, b). split; auto. simpl. apply in_flat_map. exists (i, c). auto.
Qed.

Lemma wf_parts m : wf_mesh m = true ->
  NoDup (ids (nodes m)) /\ NoDup (ids (flatten (elems m))) /\
  (forall n, In n (conn_ids (elems m)) -> In n (ids (nodes m))).
Proof.
  unfold wf_mesh, eids. rewrite !andb_true_iff. intros [[[A B] _] D].
  apply nodupZ_NoDup in A. apply nodupZ_NoDup in B. repeat split; auto.
  intros n Hn. rewrite forallb_forall in D. apply memZ_In. auto.
Qed.

(* the relation between a nodal variable before and after: same name, defined
   exactly on the retained nodes, every retained node keeps its row *)
Definition nodal_kept (m m' : mesh V) : Prop :=
  Forall2 (fun nv nv' => fst nv' = fst nv /\ ids (snd nv') = ids (nodes m') /\
             forall n, In n (ids (nodes m')) -> lookup n (snd nv') = lookup n (snd nv))
          (nodal m) (nodal m').

(* ... and for elemental variables: the retained elements that carry a value
   keep it, nothing else appears *)
Definition elemental_kept (m m' : mesh V) (kept : Z -> Prop) : Prop :=
  Forall2 (fun nv nv' => fst nv' = fst nv /\
             (NoDup (ids (flatten (snd nv))) -> forall i t v,
                In (i, (t, v)) (flatten (snd nv')) <-> kept i /\ In (i, (t, v)) (flatten (snd nv))))
          (elemental m) (elemental m').

Theorem cut_with_element_ids_spec m m' sel :
  wf_mesh m = true -> cut_with_element_ids m sel = Some m' ->
  (* exactly the requested elements, each with its type and connectivity *)
  (forall i t c, In (i, (t, c)) (flatten (elems m')) <->
                 In i sel /\ In (i, (t, c)) (flatten (elems m))) /\
  (* exactly the nodes they refer to, once each, ascending; coordinates kept *)
  ids (nodes m') = uniqueZ (conn_ids (elems m')) /\
  self_contained m' /\
  (forall n, In n (ids (nodes m')) -> lookup n (nodes m') = lookup n (nodes m)) /\
  nodal_kept m m' /\
  elemental_kept m m' (fun i => In i sel).
Proof.
  intros W H. destruct (wf_parts m W) as [NDn [NDe Href]].
  unfold cut_with_element_ids in H.
  set (fe := efilter (elems m) sel) in *.
  destruct fe as [|b0 fe'] eqn:Efe; [discriminate|]. rewrite <- Efe in *. clear Efe b0 fe'.
  set (nids := uniqueZ (conn_ids fe)) in *.
  destruct (select_ids nids (nodes m)) as [ns|] eqn:Sn; [|discriminate].
  destruct (map_nodal (select_ids nids) (nodal m)) as [nd|] eqn:Sd; [|discriminate].
  inversion H; subst m'; clear H. simpl.
  pose proof (select_ids_ids _ _ _ Sn) as Ei.
  split; [intros i t c; apply efilter_In; auto|].
  split; [exact Ei|].
  split.
  { split; simpl.
    - rewrite Ei. apply uniqueZ_NoDup.
    - intros n Hn. rewrite Ei. apply uniqueZ_In. exact Hn. }
  split.
  { intros n Hn. rewrite Ei in Hn. eapply select_ids_lookup; eauto. }
  split.
  - unfold nodal_kept; simpl. eapply Forall2_impl; [|apply map_nodal_spec; exact Sd].
    intros nv nv' _ [A B]. simpl in B. split; auto. split.
    + rewrite Ei. eapply select_ids_ids; eauto.
    + intros n Hn. rewrite Ei in Hn. eapply select_ids_lookup; eauto.
  - unfold elemental_kept; simpl. apply Forall2_map_r. intros nv _. simpl. split; auto.
    intros ND i t v. apply efilter_In; auto.
Qed.

Theorem cut_with_element_type_spec m m' t :
  wf_mesh m = true -> cut_with_element_type m t = Some m' ->
  exists b, block_of t (elems m) = Some b /\ cut_with_element_ids m (ids b) = Some m'.
Proof.
  unfold cut_with_element_type. intros _ H. destruct (block_of t (elems m)) as [b|]; [|discriminate].
  eauto.
Qed.

Theorem extract_with_element_indices_spec m m' ks :
  wf_mesh m = true -> extract_with_element_indices m ks = Some m' ->
  exists s sel, update_self (elems m) = Some s /\ mapM (fun k => nth_error (s_ids s) k) ks = Some sel /\
                cut_with_element_ids m sel = Some m'.
Proof.
  unfold extract_with_element_indices. intros _ H.
  destruct (update_self (elems m)) as [s|]; [|discriminate].
  destruct (mapM _ ks) as [sel|] eqn:M; [|discriminate]. eauto.
Qed.

End Cuts.

Section CutNodes.
Context {V : Type}.
Implicit Types m : mesh V.

Lemma update_self_srt {W} (bs : @blocks W) s : update_self bs = Some s ->
  exists srt, Permutation (flatten bs) srt /\ NoDup (ids (flatten bs)) /\
              s_ids s = ids srt /\ s_data s = map snd (vals srt) /\ s_types s = map fst (vals srt).
Proof.
  unfold update_self. destruct (nodupZ (ids (flatten bs))) eqn:ND; simpl; [|discriminate].
  apply nodupZ_NoDup in ND. intros H. inversion H; subst; clear H; simpl.
  exists (match bs with [_] => flatten bs | _ => sort_by_id (flatten bs) end).
  repeat split; auto.
  destruct bs as [|b [|b' r]]; try apply sort_perm. reflexivity.
Qed.

Lemma combine_ids_data {W} (srt : table (nat * W)) :
  combine (ids srt) (map snd (vals srt)) = map (fun e => (fst e, snd (snd e))) srt.
Proof. induction srt as [|[i [t c]] r IH]; simpl; [|rewrite IH]; reflexivity. Qed.

Lemma keep_In (bs : @blocks conn) s sel i : update_self bs = Some s ->
  (In i (map fst (filter (fun ic => inside sel (snd ic)) (combine (s_ids s) (s_data s)))) <->
   exists t c, In (i, (t, c)) (flatten bs) /\ inside sel c = true).
Proof.
  intros H. destruct (update_self_srt bs s H) as [srt [P [ND [E1 [E2 _]]]]].
  rewrite E1, E2, combine_ids_data. rewrite in_map_iff. split.
  - intros [[j c] [E Hf]]. simpl in E; subst j. apply filter_In in Hf. destruct Hf as [Hm Hi].
    apply in_map_iff in Hm. destruct Hm as [[j [t c']] [E Hs]]. simpl in E. inversion E; subst.
    exists t, c. split; auto. eapply Permutation_in; [apply Permutation_sym; exact P|exact Hs].
  - intros [t [c [Hf Hi]]]. exists (i, c). split; auto. apply filter_In. split; auto.
    apply in_map_iff. exists (i, (t, c)). split; auto. eapply Permutation_in; eauto.
Qed.

Theorem cut_with_node_ids_spec m m' sel :
  wf_mesh m = true -> NoDup sel -> cut_with_node_ids m sel = Some m' ->
  (* exactly the requested nodes, in the order requested; coordinates kept *)
  ids (nodes m') = sel /\
  (forall n, In n sel -> lookup n (nodes m') = lookup n (nodes m)) /\
  (* exactly the elements all of whose nodes were requested *)
  (forall i t c, In (i, (t, c)) (flatten (elems m')) <->
                 In (i, (t, c)) (flatten (elems m)) /\ inside sel c = true) /\
  self_contained m' /\
  nodal_kept m m' /\
  elemental_kept m m' (fun i => exists t c, In (i, (t, c)) (flatten (elems m)) /\ inside sel c = true).
Proof.
  intros W NDs H. destruct (wf_parts m W) as [NDn [NDe Href]].
  unfold cut_with_node_ids in H.
  destruct (update_self (elems m)) as [s|] eqn:Us; [|discriminate].
  set (keep := map fst (filter (fun ic => inside sel (snd ic)) (combine (s_ids s) (s_data s)))) in *.
  destruct (select_ids sel (nodes m)) as [ns|] eqn:Sn; [|discriminate].
  destruct (map_nodal (select_ids sel) (nodal m)) as [nd|] eqn:Sd; [|discriminate].
  inversion H; subst m'; clear H. simpl.
  pose proof (select_ids_ids _ _ _ Sn) as Ei.
  assert (Hel : forall i t c, In (i, (t, c)) (flatten (efilter (elems m) keep)) <->
                              In (i, (t, c)) (flatten (elems m)) /\ inside sel c = true).
  { intros i t c. rewrite efilter_In by auto. unfold keep. rewrite (keep_In _ _ sel i Us). split.
    - intros [[t' [c' [Hf Hi]]] Hf']. split; auto.
      pose proof (In_lookup _ _ _ NDe Hf) as L1. pose proof (In_lookup _ _ _ NDe Hf') as L2.
      rewrite L1 in L2. inversion L2; subst. exact Hi.
    - intros [Hf Hi]. split; eauto. }
  split; [exact Ei|].
  split; [intros n Hn; eapply select_ids_lookup; eauto|].
  split; [exact Hel|].
  split.
  { split; simpl; [rewrite Ei; exact NDs|].
    intros n Hn. apply conn_ids_In in Hn. destruct Hn as [i [t [c [Hf Hc]]]].
    apply Hel in Hf. destruct Hf as [_ Hi]. unfold inside in Hi. rewrite forallb_forall in Hi.
    rewrite Ei. apply memZ_In. auto. }
  split.
  - unfold nodal_kept; simpl. eapply Forall2_impl; [|apply map_nodal_spec; exact Sd].
    intros nv nv' _ [A B]. simpl in B. split; auto. split.
    + rewrite Ei. eapply select_ids_ids; eauto.
    + intros n Hn. rewrite Ei in Hn. eapply select_ids_lookup; eauto.
  - unfold elemental_kept; simpl. apply Forall2_map_r. intros nv _. simpl. split; auto.
    intros ND i t v. rewrite efilter_In by auto. unfold keep. rewrite (keep_In _ _ sel i Us). tauto.
Qed.

(* ---------------------------------------------------- remove_useless_nodes *)
Definition strip (e : Z * (nat * V)) : Z * V := (fst e, snd (snd e)).

Lemma strip_indexed_gen (t : table V) k :
  map strip (combine (ids t) (combine (seq k (length t)) (vals t))) = t.
Proof.
  revert k. induction t as [|[i v] t IH]; intros k; simpl; [reflexivity|].
  unfold strip at 1; simpl. f_equal. apply IH.
Qed.

Lemma ids_indexed (t : table V) : ids (indexed t) = ids t.
Proof.
  unfold indexed. apply ids_combine. rewrite combine_length, seq_length, vals_length, ids_length. lia.
Qed.

Lemma ids_strip (l : table (nat * V)) : ids (map strip l) = ids l.
Proof. unfold ids. rewrite map_map. reflexivity. Qed.

(* nodes part of remove_useless_nodes: exactly the referenced nodes remain,
   once each, with their coordinates; elements and elemental data untouched *)
Theorem remove_useless_nodes_nodes c m m' :
  wf_mesh m = true -> remove_useless_nodes c m = Some m' ->
  elems m' = elems m /\ elemental m' = elemental m /\
  (forall n, In n (ids (nodes m')) <-> In n (conn_ids (elems m))) /\
  self_contained m' /\
  (forall n, In n (ids (nodes m')) -> lookup n (nodes m') = lookup n (nodes m)).
Proof.
  intros W H. destruct (wf_parts m W) as [NDn [NDe Href]].
  unfold remove_useless_nodes in H.
  set (useful := uniqueZ (conn_ids (elems m))) in *.
  set (sorted := sort_by_id (indexed (nodes m))) in *.
  assert (NDi : NoDup (ids (indexed (nodes m)))) by (rewrite ids_indexed; auto).
  assert (Ps : Permutation (ids (nodes m)) (ids sorted)).
  { rewrite <- ids_indexed. apply sort_ids_perm. }
  assert (Ss : StronglySorted Z.lt (ids sorted)) by (apply sort_ids_strict; auto).
  assert (Hinc : incl useful (ids sorted)).
  { intros n Hn. unfold useful in Hn. apply (proj1 (uniqueZ_In _ _)) in Hn.
    eapply Permutation_in; [exact Ps|]. apply Href; exact Hn. }
  destruct (Nat.eqb (length sorted) (length useful)).
  - destruct (list_eqb (ids sorted) useful) eqn:E; [|discriminate].
    apply list_eqb_eq in E. inversion H; subst m'; clear H.
    split; auto. split; auto. split.
    { intros n. split; intros Hn.
      - apply uniqueZ_In. fold useful. rewrite <- E. eapply Permutation_in; eauto.
      - auto. }
    split; [split; auto|]. auto.
  - assert (Su : StronglySorted Z.lt useful) by apply uniqueZ_sorted.
    rewrite (sweep_correct _ _ Ss Su Hinc) in H.
    destruct (map_nodal _ (nodal m)) as [nd|]; [|discriminate].
    inversion H; subst m'; clear H. simpl.
    rewrite filter_mask_mask_ids.
    set (kept := filter (fun e : Z * (nat * V) => memZ (fst e) useful) sorted).
    assert (Hk : forall n, In n (ids (map strip kept)) <-> In n useful).
    { intros n. rewrite ids_strip. unfold ids, kept. rewrite in_map_iff. split.
      - intros [e [E He]]. apply filter_In in He. destruct He as [_ He]. subst. apply memZ_In; auto.
      - intros Hn. pose proof (Hinc n Hn) as Hs. unfold ids in Hs. apply in_map_iff in Hs.
        destruct Hs as [e [E He]]. exists e. split; auto. apply filter_In. split; auto.
        subst. apply memZ_In; auto. }
    assert (NDk : NoDup (ids (map strip kept))).
    { rewrite ids_strip. unfold kept. apply filter_NoDup. apply sort_NoDup; auto. }
    split; auto. split; auto. split.
    { intros n. rewrite Hk. unfold useful. apply uniqueZ_In. }
    split.
    { split; simpl; auto. intros n Hn. apply Hk. apply uniqueZ_In. exact Hn. }
    intros n Hn. apply sub_lookup; auto.
    intros x Hx. apply in_map_iff in Hx. destruct Hx as [e [E He]]. subst x.
    apply filter_In in He. destruct He as [He _].
    assert (Hin : In (strip e) (map strip (indexed (nodes m)))).
    { apply in_map. eapply Permutation_in; [apply Permutation_sym, sort_perm|exact He]. }
    unfold indexed in Hin. rewrite strip_indexed_gen in Hin. exact Hin.
Qed.

End CutNodes.

Section Positional.
Context {V : Type}.
Implicit Types m : mesh V.

(* nodal variables through remove_useless_nodes when they are carried by id *)
Theorem remove_useless_nodes_nodal_by_id c m m' :
  wf_mesh m = true -> useless_by_id c = true -> remove_useless_nodes c m = Some m' ->
  m' = m \/ nodal_kept m m'.
Proof.
  intros W Hc H. unfold remove_useless_nodes in H. rewrite Hc in H.
  destruct (Nat.eqb _ _).
  - destruct (list_eqb _ _); [|discriminate]. inversion H; auto.
  - destruct (sweep _ _) as [msk|]; [|discriminate].
    destruct (map_nodal _ (nodal m)) as [nd|] eqn:Sd; [|discriminate].
    inversion H; subst m'; clear H. right. unfold nodal_kept; simpl.
    eapply Forall2_impl; [|apply map_nodal_spec; exact Sd].
    intros nv nv' _ [A B]. simpl in B. split; auto. split.
    + eapply select_ids_ids; eauto.
    + intros n Hn. eapply select_ids_lookup; eauto.
Qed.

(* to_first_order: the nodes kept are nodes of the mesh, each once, with
   their coordinates; they are exactly the nodes the reduced elements use;
   elemental data untouched *)
Lemma firstn_incl {A} k (l : list A) : incl (firstn k l) l.
Proof.
  revert l; induction k as [|k IH]; intros l; simpl; [intros y []|].
  destruct l as [|x l]; [intros y []|].
  intros y [E|E]; [left; exact E|right; apply IH; exact E].
Qed.

Lemma mapM_Forall2 {A B} (f : A -> option B) l r : mapM f l = Some r ->
  Forall2 (fun a b => f a = Some b) l r.
Proof.
  revert r. induction l as [|a l IH]; simpl; intros r H.
  - inversion H. constructor.
  - destruct (f a) eqn:F; [|discriminate]. destruct (mapM f l); [|discriminate].
    inversion H; subst. constructor; auto.
Qed.

Lemma elems_first_order_conn (bs fe : @blocks conn) : elems_first_order bs = Some fe ->
  incl (conn_ids fe) (conn_ids bs).
Proof.
  intros H. apply mapM_Forall2 in H. unfold conn_ids.
  induction H as [|[t b] b' bs fe Hb F IH]; [intros x []|].
  simpl. intros n Hn. apply in_app_iff in Hn. apply in_app_iff.
  destruct Hn as [Hn|Hn]; [left|right; apply IH; exact Hn].
  simpl in Hb. destruct (first_order_arity t) as [[k|]|]; try discriminate; inversion Hb; subst; simpl in *; auto.
  apply in_flat_map in Hn. destruct Hn as [[i c] [Hc Hn]]. apply in_map_iff in Hc.
  destruct Hc as [[i' c'] [E Hc]]. simpl in E. inversion E; subst i c. simpl in Hn.
  apply in_flat_map. exists (i', c'). split; auto. simpl. eapply firstn_incl; eauto.
Qed.

Theorem to_first_order_nodes c m m' :
  wf_mesh m = true -> to_first_order c m = Some m' ->
  m' = m \/
  (exists fe, elems_first_order (elems m) = Some fe /\ elems m' = fe /\ elemental m' = elemental m /\
     (forall n, In n (ids (nodes m')) <-> In n (conn_ids fe)) /\
     self_contained m' /\
     (forall n, In n (ids (nodes m')) -> lookup n (nodes m') = lookup n (nodes m))).
Proof.
  intros W H. destruct (wf_parts m W) as [NDn [NDe Href]].
  unfold to_first_order in H. destruct (negb _); [inversion H; auto|].
  destruct (elems_first_order (elems m)) as [fe|] eqn:Fe; [|discriminate].
  destruct (map_nodal _ _) as [nd|]; [|discriminate].
  inversion H; subst m'; clear H. right. exists fe. simpl.
  set (first := uniqueZ (conn_ids fe)).
  assert (Hk : forall n, In n (ids (filter (fun e : Z * V => memZ (fst e) first) (nodes m))) <->
                         In n (conn_ids fe)).
  { intros n. unfold ids. rewrite in_map_iff. split.
    - intros [e [E He]]. apply filter_In in He. destruct He as [_ He]. subst.
      apply memZ_In in He. unfold first in He. apply (proj1 (uniqueZ_In _ _)) in He. exact He.
    - intros Hn. pose proof (Href n (elems_first_order_conn _ _ Fe n Hn)) as Hs.
      unfold ids in Hs. apply in_map_iff in Hs. destruct Hs as [e [E He]]. exists e. split; auto.
      apply filter_In. split; auto. subst. apply memZ_In. apply uniqueZ_In. exact Hn. }
  assert (Em : filter_mask (map (fun i => memZ i first) (ids (nodes m))) (nodes m) =
               filter (fun e : Z * V => memZ (fst e) first) (nodes m)).
  { unfold ids. rewrite map_map. apply (filter_mask_map (fun e : Z * V => memZ (fst e) first)). }
  rewrite Em.
  split; auto. split; auto. split; auto. split; [exact Hk|].
  split.
  - split; simpl; [apply filter_NoDup; auto | intros n Hn; apply Hk; exact Hn].
  - intros n Hn. apply sub_lookup; auto; [apply filter_NoDup; auto|].
    intros x Hx. apply filter_In in Hx. tauto.
Qed.

(* to_surface / to_facets: nodes are nodes of the mesh with their coordinates *)
Theorem to_surface_nodes c m m' surf remove :
  wf_mesh m = true -> to_surface c m surf remove = Some m' ->
  incl (nodes m') (nodes m) /\
  (NoDup (ids (nodes m')) -> forall n, In n (ids (nodes m')) -> lookup n (nodes m') = lookup n (nodes m)).
Proof.
  intros W H. destruct (wf_parts m W) as [NDn _].
  unfold to_surface in H. destruct (mapM _ surf) as [groups|]; [|discriminate].
  destruct (Nat.eqb _ 0); [discriminate|].
  assert (Hi : incl (nodes m') (nodes m)).
  { destruct (negb remove).
    - inversion H; subst; simpl. intros x Hx; exact Hx.
    - destruct (select_pos _ (nodes m)) as [ns|] eqn:Sp; [|discriminate].
      destruct (map_nodal _ _); [|discriminate]. inversion H; subst; simpl.
      eapply select_pos_incl; eauto. }
  split; auto. intros ND n Hn. apply sub_lookup; auto.
Qed.

Theorem to_facets_nodes m facets :
  nodes (to_facets m facets) = nodes m /\ nodal (to_facets m facets) = nodal m.
Proof. split; reflexivity. Qed.

End Positional.

(* --------------------------------------------------------- refutations *)
(* a nodal variable stored in another order than the nodes (same ids):
   the three operations that carry it by storage position attach values to
   other ids / retain other ids.  Rows are integers; the variable holds the
   id itself as value, the coordinates 10*id. *)
Definition m_ref : mesh Z :=
  {| nodes := [(3, 30); (1, 10); (9, 90); (2, 20)];
     elems := [(3%nat, [(7, [1; 2; 3])])];                 (* one tri 1-2-3; node 9 unused *)
     nodal := [(0%nat, [(2, 2); (9, 9); (1, 1); (3, 3)])];
     elemental := [] |}%Z.

Theorem remove_useless_nodes_refuted c : useless_by_id c = false ->
  wf_mesh m_ref = true /\
  exists m', remove_useless_nodes c m_ref = Some m' /\
             ids (nodes m') = [1; 2; 3]%Z /\
             exists var', nodal m' = [(0%nat, var')] /\ lookup 1%Z var' = Some 9%Z.
Proof.
  intros H. split; [reflexivity|]. unfold remove_useless_nodes. rewrite H.
  eexists. split; [vm_compute; reflexivity|]. split; [reflexivity|].
  eexists. split; reflexivity.
Qed.

Definition m_ref2 : mesh Z :=
  {| nodes := [(3, 30); (1, 10); (9, 90); (2, 20); (4, 40); (11, 110); (12, 120); (13, 130); (14, 140);
               (15, 150); (16, 160)];
     elems := [(9%nat, [(7, [1; 2; 3; 4; 11; 12; 13; 14; 15; 16])])];     (* one tet2 *)
     nodal := [(0%nat, [(16, 16); (15, 15); (14, 14); (13, 13); (12, 12); (11, 11); (4, 4); (2, 2);
                        (9, 9); (1, 1); (3, 3)])];
     elemental := [] |}%Z.

Theorem to_first_order_refuted c : first_order_by_id c = false ->
  wf_mesh m_ref2 = true /\
  exists m', to_first_order c m_ref2 = Some m' /\
             ids (nodes m') = [3; 1; 2; 4]%Z /\
             exists var', nodal m' = [(0%nat, var')] /\ ids var' = [16; 15; 13; 12]%Z.
Proof.
  intros H. split; [reflexivity|]. unfold to_first_order. rewrite H.
  eexists. split; [vm_compute; reflexivity|]. split; [reflexivity|].
  eexists. split; reflexivity.
Qed.

Theorem to_surface_refuted c : surface_by_id c = false ->
  exists m', to_surface c m_ref [(3%nat, [[1; 3; 0]%nat])] true = Some m' /\
             ids (nodes m') = [3; 1; 2]%Z /\
             exists var', nodal m' = [(0%nat, var')] /\ lookup 3%Z var' = Some 2%Z.
Proof.
  intros H. unfold to_surface. rewrite H.
  eexists. split; [vm_compute; reflexivity|]. split; [reflexivity|].
  eexists. split; reflexivity.
Qed.

(* ------------------------------------------------ surface / facet results *)
Section Surface.
Context {V : Type}.
Implicit Types m : mesh V.

Lemma flat_map_snd_combine {A} (l : list A) (rows : list conn) : length l = length rows ->
  flat_map snd (combine l rows) = concat rows.
Proof.
  revert rows. induction l as [|a l IH]; intros [|r rows]; simpl; intros H; try discriminate; auto.
  f_equal. apply IH. lia.
Qed.

Lemma renumber_conn start groups :
  conn_ids (renumber_from start groups) = flat_map (fun g => concat (snd g)) groups.
Proof.
  revert start. induction groups as [|g r IH]; intros start; [reflexivity|].
  unfold conn_ids in *. simpl. rewrite IH. f_equal.
  apply flat_map_snd_combine. rewrite map_length, seq_length. reflexivity.
Qed.

Lemma map_seq_shift {B} (f : nat -> B) a : forall b s,
  map f (seq (a + s) b) = map (fun k => f (a + k)%nat) (seq s b).
Proof.
  induction b as [|b IH]; intros s; simpl; [reflexivity|].
  f_equal. rewrite <- IH. f_equal. f_equal. lia.
Qed.

Lemma ids_combine_gen {A} (l : list Z) (rows : list A) : length l = length rows ->
  map fst (combine l rows) = l.
Proof.
  revert rows. induction l as [|a l IH]; intros [|r rows]; simpl; intros H; try discriminate; auto.
  f_equal. apply IH. lia.
Qed.

(* the new element ids are start+1 .. start+k *)
Lemma renumber_ids start groups :
  eids (renumber_from start groups) =
  map (fun k => start + Z.of_nat k) (seq 1 (length (flat_map snd groups))).
Proof.
  revert start. induction groups as [|g r IH]; intros start; [reflexivity|].
  unfold eids, flatten, ids in *. simpl. rewrite map_app, IH.
  rewrite app_length, seq_app, map_app. f_equal.
  - rewrite map_map. simpl.
    change (map (fun x : Z * conn => fst x) ?l) with (map fst l).
    apply ids_combine_gen. rewrite map_length, seq_length. reflexivity.
  - replace (1 + length (snd g))%nat with (length (snd g) + 1)%nat by lia.
    rewrite (map_seq_shift (fun k => start + Z.of_nat k) (length (snd g)) _ 1%nat).
    apply map_ext. intros k. lia.
Qed.

Theorem to_facets_ids m facets :
  eids (elems (to_facets m facets)) = map Z.of_nat (seq 1 (length (flat_map snd facets))).
Proof.
  unfold to_facets, renumber; simpl. rewrite renumber_ids. apply map_ext. intros; lia.
Qed.

Lemma insert_nat_In x y l : In y (insert_nat x l) <-> y = x \/ In y l.
Proof.
  induction l as [|z r IH]; simpl; [intuition|].
  destruct (Nat.ltb x z); simpl; [intuition|].
  destruct (Nat.eqb_spec x z); simpl; [subst; intuition|]. rewrite IH. intuition.
Qed.

Lemma unique_nat_In x l : In x (unique_nat l) <-> In x l.
Proof.
  unfold unique_nat. induction l as [|y r IH]; simpl; [tauto|]. rewrite insert_nat_In, IH. intuition.
Qed.

Lemma insert_nat_sorted x l : StronglySorted lt l -> StronglySorted lt (insert_nat x l).
Proof.
  induction 1 as [|y r S IH F]; simpl; [repeat constructor|].
  destruct (Nat.ltb_spec x y).
  - constructor; [constructor; auto|]. constructor; auto. eapply Forall_impl; [|exact F]. intros; lia.
  - destruct (Nat.eqb_spec x y); [constructor; auto|].
    constructor; auto. rewrite Forall_forall in *. intros z Hz.
    apply insert_nat_In in Hz. destruct Hz as [->|Hz]; [lia|auto].
Qed.

Lemma unique_nat_NoDup l : NoDup (unique_nat l).
Proof.
  assert (S : StronglySorted lt (unique_nat l)).
  { unfold unique_nat. induction l; simpl; [constructor|apply insert_nat_sorted; auto]. }
  induction S as [|x r S IH F]; constructor; auto.
  intros Hin. rewrite Forall_forall in F. specialize (F x Hin). lia.
Qed.

Lemma mapM_In_inv {A B} (f : A -> option B) l r b : mapM f l = Some r -> In b r ->
  exists a, In a l /\ f a = Some b.
Proof.
  revert r. induction l as [|x l IH]; simpl; intros r H Hb.
  - inversion H; subst. destruct Hb.
  - destruct (f x) eqn:F; [|discriminate]. destruct (mapM f l) eqn:M; [|discriminate].
    inversion H; subst. destruct Hb as [E|Hb].
    + subst. exists x. auto.
    + destruct (IH _ eq_refl Hb) as [a [Ha Fa]]. exists a. auto.
Qed.

Lemma select_pos_NoDup ks (t r : table V) : NoDup ks -> NoDup (ids t) ->
  select_pos ks t = Some r -> NoDup (ids r).
Proof.
  unfold select_pos. intros NDk NDt. revert r. induction ks as [|k ks IH]; simpl; intros r H.
  - inversion H. constructor.
  - destruct (nth_error t k) as [[i v]|] eqn:N; [|discriminate].
    destruct (mapM _ ks) as [r'|] eqn:M; [|discriminate]. inversion H; subst; clear H.
    inversion NDk; subst. simpl. constructor; [|apply IH; auto].
    intros Hin. apply in_map_iff in Hin. destruct Hin as [[j w] [E Hw]]. simpl in E; subst j.
    destruct (mapM_In_inv _ _ _ _ M Hw) as [k' [Hk' Nk']].
    assert (Pk : nth_error (ids t) k = Some i) by (rewrite nth_ids, N; reflexivity).
    assert (Pk' : nth_error (ids t) k' = Some i) by (rewrite nth_ids, Nk'; reflexivity).
    assert (k = k').
    { apply (proj1 (NoDup_nth_error (ids t)) NDt); [|congruence].
      apply nth_error_Some. congruence. }
    subst k'. auto.
Qed.

Definition all_positions (surf : list (nat * list (list nat))) : list nat :=
  flat_map (fun g => concat (snd g)) surf.

(* ids in the translated facet rows come from positions listed in surf *)
Lemma groups_ids (t : table V) surf groups :
  mapM (fun g : nat * list (list nat) =>
          option_map (pair (fst g)) (mapM (positions_to_ids t) (snd g))) surf = Some groups ->
  forall n, In n (flat_map (fun g : nat * list conn => concat (snd g)) groups) ->
  exists k, In k (all_positions surf) /\ nth_error (ids t) k = Some n.
Proof.
  intros G n Hn. apply in_flat_map in Hn. destruct Hn as [[ty rows] [Hg Hn]]. simpl in Hn.
  apply in_concat in Hn. destruct Hn as [row [Hrow Hn]].
  destruct (mapM_In_inv _ _ _ _ G Hg) as [g0 [Hg0 Fg0]].
  destruct (mapM (positions_to_ids t) (snd g0)) as [rows'|] eqn:R; [|discriminate].
  simpl in Fg0. inversion Fg0; subst.
  destruct (mapM_In_inv _ _ _ _ R Hrow) as [prow [Hp Fp]].
  unfold positions_to_ids in Fp.
  destruct (mapM_In_inv _ _ _ _ Fp Hn) as [k [Hk Fk]].
  exists k. split; auto. unfold all_positions. apply in_flat_map. exists g0. split; auto.
  apply in_concat. exists prow. auto.
Qed.

Lemma groups_count (t : table V) surf groups :
  mapM (fun g : nat * list (list nat) =>
          option_map (pair (fst g)) (mapM (positions_to_ids t) (snd g))) surf = Some groups ->
  length (flat_map snd groups) = length (flat_map snd surf).
Proof.
  intros G. apply mapM_Forall2 in G. induction G as [|g0 g' s gs Hg F IH]; [reflexivity|].
  simpl. rewrite !app_length, IH. f_equal.
  destruct (mapM (positions_to_ids t) (snd g0)) as [rows'|] eqn:R; [|discriminate].
  simpl in Hg. inversion Hg; subst. simpl. eapply mapM_length; eauto.
Qed.

(* to_surface with node removal: the result is self-contained, its elements
   are numbered 1..k, the retained nodes keep their coordinates *)
Theorem to_surface_self_contained c m m' surf :
  wf_mesh m = true -> to_surface c m surf true = Some m' ->
  self_contained m' /\
  eids (elems m') = map Z.of_nat (seq 1 (length (flat_map snd surf))) /\
  (forall n, In n (ids (nodes m')) -> lookup n (nodes m') = lookup n (nodes m)).
Proof.
  intros W H. destruct (wf_parts m W) as [NDn _].
  unfold to_surface in H.
  destruct (mapM _ surf) as [groups|] eqn:G; [|discriminate].
  destruct (Nat.eqb _ 0); [discriminate|]. simpl in H.
  fold (all_positions surf) in H.
  set (ks := unique_nat (all_positions surf)) in *.
  destruct (select_pos ks (nodes m)) as [ns|] eqn:Sp; [|discriminate].
  destruct (map_nodal _ _) as [nd|]; [|discriminate].
  inversion H; subst m'; clear H. simpl.
  assert (NDs : NoDup (ids ns)) by (eapply select_pos_NoDup; eauto; apply unique_nat_NoDup).
  split; [split; simpl; auto|split].
  - intros n Hn. unfold renumber in Hn. rewrite renumber_conn in Hn.
    destruct (groups_ids _ _ _ G n Hn) as [k [Hk Nk]].
    assert (Hks : In k ks) by (apply unique_nat_In; exact Hk).
    destruct (In_nth_error _ _ Hks) as [p Hp].
    destruct (mapM_nth _ _ _ Sp p k Hp) as [e [He Hpe]].
    rewrite nth_ids in Nk. rewrite He in Nk. simpl in Nk. inversion Nk; subst n.
    apply in_map. eapply nth_error_In; eauto.
  - unfold renumber. rewrite renumber_ids, (groups_count _ _ _ G). apply map_ext. intros; lia.
  - intros n Hn. apply sub_lookup; auto. eapply select_pos_incl; eauto.
Qed.

(* nodal variables through to_first_order / to_surface when carried by id *)
Definition full_vars m := filter (fun nv : nat * table V => Nat.eqb (length (snd nv)) (length (nodes m))) (nodal m).

Definition vars_kept (l : list (nat * table V)) m' :=
  Forall2 (fun nv nv' => fst nv' = fst nv /\ ids (snd nv') = ids (nodes m') /\
             forall n, In n (ids (nodes m')) -> lookup n (snd nv') = lookup n (snd nv)) l (nodal m').

Theorem to_first_order_nodal_by_id c m m' :
  first_order_by_id c = true -> to_first_order c m = Some m' -> m' = m \/ vars_kept (full_vars m) m'.
Proof.
  intros Hc H. unfold to_first_order in H. rewrite Hc in H.
  destruct (negb _); [inversion H; auto|].
  destruct (elems_first_order (elems m)) as [fe|]; [|discriminate].
  destruct (map_nodal _ _) as [nd|] eqn:Sd; [|discriminate].
  inversion H; subst m'; clear H. right. unfold vars_kept, full_vars; simpl.
  eapply Forall2_impl; [|apply map_nodal_spec; exact Sd].
  intros nv nv' _ [A B]. simpl in B. split; auto. split.
  - eapply select_ids_ids; eauto.
  - intros n Hn. eapply select_ids_lookup; eauto.
Qed.

Theorem to_surface_nodal_by_id c m m' surf :
  surface_by_id c = true -> to_surface c m surf true = Some m' -> vars_kept (full_vars m) m'.
Proof.
  intros Hc H. unfold to_surface in H. rewrite Hc in H.
  destruct (mapM _ surf) as [groups|]; [|discriminate].
  destruct (Nat.eqb _ 0); [discriminate|]. simpl in H.
  destruct (select_pos _ (nodes m)) as [ns|]; [|discriminate].
  destruct (map_nodal _ _) as [nd|] eqn:Sd; [|discriminate].
  inversion H; subst m'; clear H. unfold vars_kept, full_vars; simpl.
  eapply Forall2_impl; [|apply map_nodal_spec; exact Sd].
  intros nv nv' _ [A B]. simpl in B. split; auto. split.
  - eapply select_ids_ids; eauto.
  - intros n Hn. eapply select_ids_lookup; eauto.
Qed.

End Surface.

(* --------------------------------------------- functions.remove_duplicates *)
Lemma existsb_list_eqb k seen : existsb (list_eqb k) seen = true <-> In k seen.
Proof.
  rewrite existsb_exists. split.
  - intros [x [Hx E]]. apply list_eqb_eq in E. subst. exact Hx.
  - intros H. exists k. split; auto. apply list_eqb_eq. reflexivity.
Qed.

Lemma firsts_sound seen rows k r : In (k, r) (firsts seen rows) ->
  In r rows /\ k = sort_row r /\ ~ In k seen.
Proof.
  revert seen. induction rows as [|r0 t IH]; simpl; intros seen H; [destruct H|].
  destruct (existsb (list_eqb (sort_row r0)) seen) eqn:E.
  - destruct (IH _ H) as [A [B C]]. auto.
  - destruct H as [H|H].
    + inversion H; subst. split; auto. split; auto.
      intros Hin. apply existsb_list_eqb in Hin. congruence.
    + destruct (IH _ H) as [A [B C]]. split; auto. split; auto. intros Hin. apply C. right. exact Hin.
Qed.

Lemma firsts_complete seen rows r : In r rows ->
  In (sort_row r) seen \/ exists r', In (sort_row r, r') (firsts seen rows).
Proof.
  revert seen. induction rows as [|r0 t IH]; simpl; intros seen H; [destruct H|].
  destruct (existsb (list_eqb (sort_row r0)) seen) eqn:E.
  - destruct H as [H|H]; [subst; left; apply existsb_list_eqb; exact E | apply IH; exact H].
  - destruct H as [H|H]; [subst; right; eexists; left; reflexivity|].
    destruct (IH (sort_row r0 :: seen) H) as [[A|A]|[r' A]].
    + right. exists r0. left. rewrite A. reflexivity.
    + left. exact A.
    + right. exists r'. right. exact A.
Qed.

Lemma firsts_NoDup seen rows : NoDup (map fst (firsts seen rows)).
Proof.
  revert seen. induction rows as [|r0 t IH]; simpl; intros seen; [constructor|].
  destruct (existsb (list_eqb (sort_row r0)) seen); [apply IH|].
  simpl. constructor; [|apply IH]. intros Hin. apply in_map_iff in Hin.
  destruct Hin as [[k r] [E H]]. simpl in E; subst k.
  destruct (firsts_sound _ _ _ _ H) as [_ [_ C]]. apply C. left. reflexivity.
Qed.

Lemma insert_lex_perm x l : Permutation (x :: l) (insert_lex x l).
Proof.
  induction l as [|y t IH]; simpl; [reflexivity|].
  destruct (lex_cmp (fst x) (fst y)); try reflexivity.
  rewrite perm_swap. constructor. exact IH.
Qed.

Lemma sort_lex_perm l : Permutation l (fold_right insert_lex [] l).
Proof.
  induction l as [|x t IH]; simpl; [constructor|]. rewrite <- insert_lex_perm. constructor. exact IH.
Qed.

(* exactly one row per distinct sorted row: every input row is represented,
   every output row is an input row, no two output rows have the same nodes *)
Theorem remove_duplicates_spec rows :
  (forall r, In r rows -> exists r', In r' (remove_duplicates rows) /\ sort_row r' = sort_row r) /\
  (forall r', In r' (remove_duplicates rows) -> In r' rows) /\
  NoDup (map sort_row (remove_duplicates rows)).
Proof.
  unfold remove_duplicates.
  pose proof (sort_lex_perm (firsts [] rows)) as P.
  split; [|split].
  - intros r Hr. destruct (firsts_complete [] rows r Hr) as [[]|[r' H]].
    exists r'. split.
    + apply in_map_iff. exists (sort_row r, r'). split; auto. eapply Permutation_in; eauto.
    + destruct (firsts_sound _ _ _ _ H) as [_ [E _]]. auto.
  - intros r' H. apply in_map_iff in H. destruct H as [[k r] [E H]]. simpl in E; subst r.
    apply (Permutation_in _ (Permutation_sym P)) in H. apply firsts_sound in H. tauto.
  - rewrite map_map.
    assert (E : map (fun x => sort_row (snd x)) (fold_right insert_lex [] (firsts [] rows)) =
                map fst (fold_right insert_lex [] (firsts [] rows))).
    { apply map_ext_in. intros [k r] H. simpl.
      apply (Permutation_in _ (Permutation_sym P)) in H. apply firsts_sound in H.
      destruct H as [_ [E _]]. auto. }
    rewrite E. eapply Permutation_NoDup; [apply Permutation_map; exact P|apply firsts_NoDup].
Qed.
