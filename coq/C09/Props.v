(* C09 — sub-mesh extraction keeps ids, values and geometry attached.
   Statements only.  gen/MeshCfg.v is regenerated from /repo on every run. *)
From Coq Require Import ZArith List Bool Arith Sorted Lia.
Import ListNotations.
From FV.C09 Require Import Table AttrModel.
From FV.C09 Require Import Model Proofs PolyModel PolyProofs PolyCut PolyCutProofs SurfaceTypes.
From FV.C09.gen Require Import FirstOrder MeshCfg.

(* np.unique and the two-pointer sweep of remove_useless_nodes *)
Theorem C09_unique_sorted_complete : forall l,
  StronglySorted Z.lt (uniqueZ l) /\ forall x, In x (uniqueZ l) <-> In x l.
Proof. intros l. split; [apply uniqueZ_sorted | intros; apply uniqueZ_In]. Qed.

Theorem C09_sweep_correct : forall xs us, StronglySorted Z.lt xs -> StronglySorted Z.lt us ->
  incl us xs -> sweep xs us = Some (mask xs us).
Proof. exact sweep_correct. Qed.

Theorem C09_sweep_error : forall xs us, StronglySorted Z.lt xs -> StronglySorted Z.lt us ->
  ~ incl us xs -> sweep xs us = None.
Proof. exact sweep_error. Qed.

(* FEMElementalAttribute.filter_with_ids: exactly the requested ids that
   exist, each with its type and row *)
Theorem C09_efilter_exact : forall (W : Type) (bs : @blocks W) sel i t v,
  NoDup (ids (flatten bs)) ->
  (In (i, (t, v)) (flatten (efilter bs sel)) <-> In i sel /\ In (i, (t, v)) (flatten bs)).
Proof. intros W. exact (@efilter_In W). Qed.

(* cut_with_element_ids: exactly the requested elements with type and
   connectivity; exactly the nodes they use, once each; coordinates, nodal
   and elemental values looked up by id are those of the original mesh *)
Theorem C09_cut_with_element_ids : forall (V : Type) (m m' : mesh V) sel,
  wf_mesh m = true -> cut_with_element_ids m sel = Some m' ->
  (forall i t c, In (i, (t, c)) (flatten (elems m')) <->
                 In i sel /\ In (i, (t, c)) (flatten (elems m))) /\
  ids (nodes m') = uniqueZ (conn_ids (elems m')) /\
  self_contained m' /\
  (forall n, In n (ids (nodes m')) -> lookup n (nodes m') = lookup n (nodes m)) /\
  nodal_kept m m' /\
  elemental_kept m m' (fun i => In i sel).
Proof. intros V. exact (@cut_with_element_ids_spec V). Qed.

(* cut_with_element_type and extract_with_element_indices are
   cut_with_element_ids with the ids of the block / at the positions *)
Theorem C09_cut_with_element_type : forall (V : Type) (m m' : mesh V) t,
  wf_mesh m = true -> cut_with_element_type m t = Some m' ->
  exists b, block_of t (elems m) = Some b /\ cut_with_element_ids m (ids b) = Some m'.
Proof. intros V. exact (@cut_with_element_type_spec V). Qed.

Theorem C09_extract_with_element_indices : forall (V : Type) (m m' : mesh V) ks,
  wf_mesh m = true -> extract_with_element_indices m ks = Some m' ->
  exists s sel, update_self (elems m) = Some s /\ mapM (fun k => nth_error (s_ids s) k) ks = Some sel /\
                cut_with_element_ids m sel = Some m'.
Proof. intros V. exact (@extract_with_element_indices_spec V). Qed.

Theorem C09_cut_with_node_ids : forall (V : Type) (m m' : mesh V) sel,
  wf_mesh m = true -> NoDup sel -> cut_with_node_ids m sel = Some m' ->
  ids (nodes m') = sel /\
  (forall n, In n sel -> lookup n (nodes m') = lookup n (nodes m)) /\
  (forall i t c, In (i, (t, c)) (flatten (elems m')) <->
                 In (i, (t, c)) (flatten (elems m)) /\ inside sel c = true) /\
  self_contained m' /\
  nodal_kept m m' /\
  elemental_kept m m' (fun i => exists t c, In (i, (t, c)) (flatten (elems m)) /\ inside sel c = true).
Proof. intros V. exact (@cut_with_node_ids_spec V). Qed.

(* remove_useless_nodes: exactly the referenced nodes remain *)
Theorem C09_remove_useless_nodes_nodes : forall (V : Type) c (m m' : mesh V),
  wf_mesh m = true -> remove_useless_nodes c m = Some m' ->
  elems m' = elems m /\ elemental m' = elemental m /\
  (forall n, In n (ids (nodes m')) <-> In n (conn_ids (elems m))) /\
  self_contained m' /\
  (forall n, In n (ids (nodes m')) -> lookup n (nodes m') = lookup n (nodes m)).
Proof. intros V. exact (@remove_useless_nodes_nodes V). Qed.

Theorem C09_remove_useless_nodes_nodal_by_id : forall (V : Type) c (m m' : mesh V),
  wf_mesh m = true -> useless_by_id c = true -> remove_useless_nodes c m = Some m' ->
  m' = m \/ nodal_kept m m'.
Proof. intros V. exact (@remove_useless_nodes_nodal_by_id V). Qed.

(* FULL STATEMENT (not proved for the positional code path):
   forall c m m', wf_mesh m = true -> remove_useless_nodes c m = Some m' -> m' = m \/ nodal_kept m m'.
   It is FALSE for the code as it is (C09_remove_useless_nodes_refuted); the
   case `aligned m` of the positional path is not proved yet. *)

Theorem C09_to_first_order_nodes : forall (V : Type) c (m m' : mesh V),
  wf_mesh m = true -> to_first_order c m = Some m' ->
  m' = m \/
  (exists fe, elems_first_order (elems m) = Some fe /\ elems m' = fe /\ elemental m' = elemental m /\
     (forall n, In n (ids (nodes m')) <-> In n (conn_ids fe)) /\
     self_contained m' /\
     (forall n, In n (ids (nodes m')) -> lookup n (nodes m') = lookup n (nodes m))).
Proof. intros V. exact (@to_first_order_nodes V). Qed.

(* any flag value of remove_unnecessary_nodes *)
Theorem C09_to_surface_nodes : forall (V : Type) c (m m' : mesh V) surf remove,
  wf_mesh m = true -> to_surface c m surf remove = Some m' ->
  incl (nodes m') (nodes m) /\
  (NoDup (ids (nodes m')) -> forall n, In n (ids (nodes m')) -> lookup n (nodes m') = lookup n (nodes m)).
Proof. intros V. exact (@to_surface_nodes V). Qed.

(* to_surface with node removal: self-contained, facets numbered 1..k,
   retained nodes keep their coordinates *)
Theorem C09_to_surface_self_contained : forall (V : Type) c (m m' : mesh V) surf,
  wf_mesh m = true -> to_surface c m surf true = Some m' ->
  self_contained m' /\
  eids (elems m') = map Z.of_nat (seq 1 (length (flat_map snd surf))) /\
  (forall n, In n (ids (nodes m')) -> lookup n (nodes m') = lookup n (nodes m)).
Proof. intros V. exact (@to_surface_self_contained V). Qed.

Theorem C09_to_facets_ids : forall (V : Type) (m : mesh V) facets,
  eids (elems (to_facets m facets)) = map Z.of_nat (seq 1 (length (flat_map snd facets))).
Proof. intros V. exact (@to_facets_ids V). Qed.

(* nodal variables (those defined on every node) when carried by id *)
Theorem C09_to_first_order_nodal_by_id : forall (V : Type) c (m m' : mesh V),
  first_order_by_id c = true -> to_first_order c m = Some m' -> m' = m \/ vars_kept (full_vars m) m'.
Proof. intros V. exact (@to_first_order_nodal_by_id V). Qed.

Theorem C09_to_surface_nodal_by_id : forall (V : Type) c (m m' : mesh V) surf,
  surface_by_id c = true -> to_surface c m surf true = Some m' -> vars_kept (full_vars m) m'.
Proof. intros V. exact (@to_surface_nodal_by_id V). Qed.

Theorem C09_to_facets_nodes : forall (V : Type) (m : mesh V) facets,
  nodes (to_facets m facets) = nodes m /\ nodal (to_facets m facets) = nodal m.
Proof. intros V. exact (@to_facets_nodes V). Qed.

(* functions.remove_duplicates (to_facets): one facet per distinct node set *)
Theorem C09_remove_duplicates : forall rows,
  (forall r, In r rows -> exists r', In r' (remove_duplicates rows) /\ sort_row r' = sort_row r) /\
  (forall r', In r' (remove_duplicates rows) -> In r' rows) /\
  NoDup (map sort_row (remove_duplicates rows)).
Proof. exact remove_duplicates_spec. Qed.

(* FEMData.convert_polyhedron, the renumbering of the 'face' variable of the
   polyhedron elements kept by cut_with_element_ids: for the ascending
   (np.unique) node ids `new` of the cut mesh, the converted row names, face by
   face, the same node ids in the cut mesh as the original row did in the
   parent (whose node table holds the ids `now` in storage order, any order);
   the number of faces, the node counts and the length of the row are kept *)
Theorem C09_convert_polyhedron : forall now new poly poly' fs,
  StronglySorted Z.lt new ->
  convert_polyhedron now new poly = Some poly' ->
  faces_of now poly = Some fs ->
  (forall i, In i (concat fs) -> In i new) ->
  faces_of new poly' = Some fs /\ length poly' = length poly /\ hd_error poly' = hd_error poly.
Proof. exact convert_polyhedron_spec. Qed.

(* a row that is well formed for the parent's node table is always converted *)
Theorem C09_convert_polyhedron_total : forall now new poly fs,
  faces_of now poly = Some fs -> exists poly', convert_polyhedron now new poly = Some poly'.
Proof. exact convert_polyhedron_total. Qed.

Example C09_convert_polyhedron_nonvacuous :
  let now := [30; 10; 20; 40]%Z in let new := [10; 20; 30]%Z in
  let poly := [2; 3; 0; 1; 2; 2; 1; 2]%Z in
  StronglySorted Z.lt new /\
  faces_of now poly = Some [[30; 10; 20]; [10; 20]]%Z /\
  convert_polyhedron now new poly = Some [2; 3; 2; 0; 1; 2; 0; 1]%Z /\
  faces_of new [2; 3; 2; 0; 1; 2; 0; 1]%Z = Some [[30; 10; 20]; [10; 20]]%Z.
Proof.
  cbv zeta. split; [|repeat split; reflexivity].
  repeat (constructor; [|repeat constructor; reflexivity]). constructor.
Qed.

(* to_first_order, the elements: blocks, types, ids and their order are kept;
   the rows of a second-order block are cut to the corner nodes (tet2: 4,
   hex2: 8), first-order blocks are untouched, other second-order types raise *)
Theorem C09_to_first_order_elements : forall (bs fe : @blocks conn),
  elems_first_order bs = Some fe ->
  Forall2 (fun b b' =>
             fst b' = fst b /\ ids (snd b') = ids (snd b) /\
             match first_order_arity (fst b) with
             | Some None => snd b' = snd b
             | Some (Some k) => map snd (snd b') = map (firstn k) (map snd (snd b))
             | None => False
             end) bs fe.
Proof. exact elems_first_order_spec. Qed.

(* cut_with_element_ids on a mesh whose polyhedra carry the 'face' variable (PolyCut.cut_face =
   the mesh cut + filter_with_ids of the variable + convert_polyhedron on the rows of its
   'polyhedron' block): exactly the requested elements carry a row; every row of the cut mesh
   names, face by face, the same node ids in the node table of the cut mesh as the row of that
   element did in the parent, and has the same length; rows of other types pass through *)
Theorem C09_cut_with_element_ids_face : forall (V : Type) (m m' : mesh V) face face' sel,
  wf_mesh m = true -> face_wf m face -> cut_face m face sel = Some (m', face') ->
  cut_with_element_ids m sel = Some m' /\
  (forall i row', In (i, (POLY, row')) (flatten face') ->
     exists row, In i sel /\ In (i, (POLY, row)) (flatten face) /\
                 faces_of (ids (nodes m')) row' = faces_of (ids (nodes m)) row /\
                 length row' = length row) /\
  (forall i row, In i sel -> In (i, (POLY, row)) (flatten face) ->
     exists row', In (i, (POLY, row')) (flatten face') /\
                  faces_of (ids (nodes m')) row' = faces_of (ids (nodes m)) row) /\
  (forall i t row, t <> POLY ->
     (In (i, (t, row)) (flatten face') <-> In i sel /\ In (i, (t, row)) (flatten face))).
Proof. intros V. exact (@cut_face_spec V). Qed.

(* the conversion adds no error path *)
Theorem C09_cut_face_total : forall (V : Type) (m m' : mesh V) face sel,
  face_wf m face -> cut_with_element_ids m sel = Some m' ->
  exists face', cut_face m face sel = Some (m', face').
Proof. intros V. exact (@cut_face_total V). Qed.

Definition m_poly : mesh Z :=
  {| nodes := [(30, 3); (10, 1); (20, 2); (40, 4)]%Z;
     elems := [(POLY, [(7, [10; 20; 30])])]%Z; nodal := []; elemental := [] |}.
Definition face_poly : @blocks (list Z) := [(POLY, [(7, [2; 3; 0; 1; 2; 2; 1; 2])])]%Z.

Example C09_cut_face_nonvacuous :
  wf_mesh m_poly = true /\ face_wf m_poly face_poly /\
  exists m', cut_face m_poly face_poly [7]%Z = Some (m', [(POLY, [(7, [2; 3; 2; 0; 1; 2; 0; 1])])]%Z) /\
             ids (nodes m') = [10; 20; 30]%Z.
Proof.
  split; [reflexivity|]. split.
  - split.
    + simpl. constructor; [intros []|constructor].
    + intros i row H. simpl in H. destruct H as [E|[]]. inversion E; subst.
      exists [[30; 10; 20]; [10; 20]]%Z, POLY, [10; 20; 30]%Z.
      split; [reflexivity|]. split; [simpl; now left|].
      intros n Hn. simpl in Hn. simpl. intuition.
  - eexists. split; reflexivity.
Qed.

(* the table read from FEMElementalAttribute._generate_surface_core (gen/FacetType.v) is the right
   one: facets of 3 nodes are triangles, of 4 nodes quadrilaterals, of more nodes polygons, fewer
   than 3 nodes are refused; and typing the groups touches neither rows nor their order *)
Theorem C09_facet_type_table :
  facet_type 3 = Some 3%nat /\ facet_type 4 = Some 5%nat /\
  (forall w : nat, (5 <= w)%nat -> facet_type w = Some 7%nat) /\
  (forall w : nat, (w < 3)%nat -> facet_type w = None) /\ facet_type_1d = Some 7%nat.
Proof.
  split; [reflexivity|]. split; [reflexivity|]. split; [|split; [|reflexivity]].
  - intros w H. do 5 (destruct w as [|w]; [lia|]). reflexivity.
  - intros w H. do 3 (destruct w as [|w]; [reflexivity|]). lia.
Qed.

Theorem C09_typed_groups : forall gs g, typed gs = Some g ->
  map snd g = map snd gs /\ map (fun x => Some (fst x)) g = map (fun x => facet_type (fst x)) gs.
Proof.
  induction gs as [|a gs IH]; intros g H; simpl in H.
  - inversion H. split; reflexivity.
  - unfold typed in H. simpl in H. destruct (facet_type (fst a)) as [t|] eqn:F; [|discriminate].
    simpl in H. fold (typed gs) in H. destruct (typed gs) as [g'|] eqn:T; [|discriminate].
    inversion H; subst. destruct (IH g' eq_refl) as [A B]. simpl. rewrite A, B, F. split; reflexivity.
Qed.

Example C09_typed_groups_nonvacuous :
  typed [(3%nat, [[1; 2; 3]%Z]); (4%nat, [[1; 2; 3; 4]%Z]); (6%nat, [[1; 2; 3; 4; 5; 6]%Z])]
  = Some [(3%nat, [[1; 2; 3]%Z]); (5%nat, [[1; 2; 3; 4]%Z]); (7%nat, [[1; 2; 3; 4; 5; 6]%Z])]
  /\ typed [(2%nat, [[1; 2]%Z])] = None.
Proof. split; reflexivity. Qed.

(* the table read from FEMElementalAttribute._to_first_order (gen/FirstOrder.v) is the right one:
   a type that is reduced keeps exactly the nodes of its first-order counterpart (tet2 -> the 4 of
   tet, hex2 -> the 8 of hex, and for the types the code does not support yet line2 2, tri2 3,
   quad2 4, pyr2 5, prism2 6 would be the only admissible values); a first-order type is never
   touched; tet2 and hex2 are supported *)
Definition corner_nodes (t : nat) : option nat :=
  match t with
  | 1 => Some 2 | 4 => Some 3 | 6 => Some 4 | 9 => Some 4 | 11 => Some 5 | 13 => Some 6 | 15 => Some 8
  | _ => None
  end%nat.

Theorem C09_first_order_table : forall t,
  match corner_nodes t with
  | None => first_order_arity t = Some None
  | Some k => first_order_arity t = Some (Some k) \/ first_order_arity t = None
  end /\ first_order_arity 9 = Some (Some 4%nat) /\ first_order_arity 15 = Some (Some 8%nat).
Proof.
  intros t. split; [|split; reflexivity].
  do 19 (destruct t as [|t]; [vm_compute; auto|]). reflexivity.
Qed.

(* the positional code paths attach values to other ids *)
Theorem C09_remove_useless_nodes_refuted : forall c, useless_by_id c = false ->
  wf_mesh m_ref = true /\
  exists m', remove_useless_nodes c m_ref = Some m' /\ ids (nodes m') = [1; 2; 3]%Z /\
             exists var', nodal m' = [(0%nat, var')] /\ lookup 1%Z var' = Some 9%Z.
Proof. exact remove_useless_nodes_refuted. Qed.

Theorem C09_to_first_order_refuted : forall c, first_order_by_id c = false ->
  wf_mesh m_ref2 = true /\
  exists m', to_first_order c m_ref2 = Some m' /\ ids (nodes m') = [3; 1; 2; 4]%Z /\
             exists var', nodal m' = [(0%nat, var')] /\ ids var' = [16; 15; 13; 12]%Z.
Proof. exact to_first_order_refuted. Qed.

Theorem C09_to_surface_refuted : forall c, surface_by_id c = false ->
  exists m', to_surface c m_ref [(3%nat, [[1; 3; 0]%nat])] true = Some m' /\ ids (nodes m') = [3; 1; 2]%Z /\
             exists var', nodal m' = [(0%nat, var')] /\ lookup 3%Z var' = Some 2%Z.
Proof. exact to_surface_refuted. Qed.

(* the tree under test: for each of the three operations either nodal
   variables provably stay attached (carried by id) or the model exhibits the
   mesh on which they do not *)
Theorem C09_tree_decided :
  (if useless_by_id cfg
   then forall (V : Type) (m m' : mesh V), wf_mesh m = true -> remove_useless_nodes cfg m = Some m' ->
                                           m' = m \/ nodal_kept m m'
   else exists m', remove_useless_nodes cfg m_ref = Some m' /\
                   exists var', nodal m' = [(0%nat, var')] /\ lookup 1%Z var' = Some 9%Z)
  /\ (if first_order_by_id cfg
      then forall (V : Type) (m m' : mesh V), to_first_order cfg m = Some m' ->
                                              m' = m \/ vars_kept (full_vars m) m'
      else exists m', to_first_order cfg m_ref2 = Some m' /\ ids (nodes m') = [3; 1; 2; 4]%Z /\
                      exists var', nodal m' = [(0%nat, var')] /\ ids var' = [16; 15; 13; 12]%Z)
  /\ (if surface_by_id cfg
      then forall (V : Type) (m m' : mesh V) surf, to_surface cfg m surf true = Some m' ->
                                                   vars_kept (full_vars m) m'
      else exists m', to_surface cfg m_ref [(3%nat, [[1; 3; 0]%nat])] true = Some m' /\
                      exists var', nodal m' = [(0%nat, var')] /\ lookup 3%Z var' = Some 2%Z).
Proof.
  split; [|split].
  - destruct (useless_by_id cfg) eqn:E.
    + intros V m m' W H. eapply remove_useless_nodes_nodal_by_id; eauto.
    + destruct (remove_useless_nodes_refuted cfg E) as [_ [m' [H [_ R]]]]. eauto.
  - destruct (first_order_by_id cfg) eqn:E.
    + intros V m m' H. eapply to_first_order_nodal_by_id; eauto.
    + destruct (to_first_order_refuted cfg E) as [_ R]. exact R.
  - destruct (surface_by_id cfg) eqn:E.
    + intros V m m' surf H. eapply to_surface_nodal_by_id; eauto.
    + destruct (to_surface_refuted cfg E) as [m' [H [_ R]]]. eauto.
Qed.

(* non-vacuity: the reference meshes are well formed, mixed, with unsorted
   sparse ids and an unreferenced node, and the operations succeed on them *)
Example C09_nonvacuous :
  wf_mesh m_ref = true /\ wf_mesh m_ref2 = true /\
  (exists m', cut_with_element_ids m_ref [7]%Z = Some m' /\ ids (nodes m') = [1; 2; 3]%Z) /\
  (exists m', cut_with_node_ids m_ref [2; 9; 1; 3]%Z = Some m' /\ eids (elems m') = [7]%Z).
Proof. repeat split; eexists; split; reflexivity. Qed.

Print Assumptions C09_cut_with_element_ids.
Print Assumptions C09_cut_with_node_ids.
Print Assumptions C09_sweep_correct.
Print Assumptions C09_tree_decided.
Print Assumptions C09_convert_polyhedron.
Print Assumptions C09_to_first_order_elements.
Print Assumptions C09_cut_with_element_ids_face.
