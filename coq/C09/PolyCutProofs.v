(* C09 — proofs about cut_face (PolyCut.v). *)
From Coq Require Import ZArith List Bool Arith Lia Sorted.
Import ListNotations.
From FV.C09 Require Import Table AttrModel AttrProofs Model Proofs PolyModel PolyProofs PolyCut.
Set Default Timeout 120.

Lemma F2_sound {A B} (R : A -> B -> Prop) l r : Forall2 R l r ->
  forall b, In b r -> exists a, In a l /\ R a b.
Proof.
  induction 1 as [|a b l r H F IH]; intros x Hx; [destruct Hx|].
  destruct Hx as [<-|Hx]; [exists a; split; [now left|auto]|].
  destruct (IH x Hx) as [a' [Ha Hr]]. exists a'. split; [now right|auto].
Qed.

Lemma F2_complete {A B} (R : A -> B -> Prop) l r : Forall2 R l r ->
  forall a, In a l -> exists b, In b r /\ R a b.
Proof.
  induction 1 as [|a b l r H F IH]; intros x Hx; [destruct Hx|].
  destruct Hx as [<-|Hx]; [exists b; split; [now left|auto]|].
  destruct (IH x Hx) as [b' [Hb Hr]]. exists b'. split; [now right|auto].
Qed.

Lemma convert_rows_sound now new tb tb' : convert_rows now new tb = Some tb' ->
  forall i r', In (i, r') tb' -> exists r, In (i, r) tb /\ convert_polyhedron now new r = Some r'.
Proof.
  intros H i r' Hin. apply mapM_Forall2 in H.
  destruct (F2_sound _ _ _ H _ Hin) as [[j r] [Hj E]]. simpl in E.
  destruct (convert_polyhedron now new r) as [x|] eqn:C; [|discriminate].
  inversion E; subst. exists r. auto.
Qed.

Lemma convert_rows_complete now new tb tb' : convert_rows now new tb = Some tb' ->
  forall i r, In (i, r) tb -> exists r', In (i, r') tb' /\ convert_polyhedron now new r = Some r'.
Proof.
  intros H i r Hin. apply mapM_Forall2 in H.
  destruct (F2_complete _ _ _ H _ Hin) as [[j r'] [Hj E]]. simpl in E.
  destruct (convert_polyhedron now new r) as [x|] eqn:C; [|discriminate].
  inversion E; subst. exists r'. auto.
Qed.

Lemma conv_blocks_sound now new fe fe' : mapM (convert_block now new) fe = Some fe' ->
  forall i t r', In (i, (t, r')) (flatten fe') ->
    exists r, In (i, (t, r)) (flatten fe) /\
              (t = POLY -> convert_polyhedron now new r = Some r') /\ (t <> POLY -> r' = r).
Proof.
  intros H i t r' Hin. apply mapM_Forall2 in H.
  apply flatten_In in Hin. destruct Hin as [b' [Hb' Hr']].
  destruct (F2_sound _ _ _ H _ Hb') as [[t0 b] [Hb E]]. unfold convert_block in E. simpl in E.
  destruct (Nat.eqb t0 POLY) eqn:T.
  - destruct (convert_rows now new b) as [x|] eqn:C; [|discriminate]. inversion E; subst.
    destruct (convert_rows_sound _ _ _ _ C _ _ Hr') as [r [Hr Cr]].
    exists r. split; [apply flatten_In; eauto|]. split; [auto|].
    apply Nat.eqb_eq in T. intros N. contradiction.
  - inversion E; subst. exists r'. split; [apply flatten_In; eauto|].
    apply Nat.eqb_neq in T. split; [intros N; contradiction|auto].
Qed.

Lemma conv_blocks_complete now new fe fe' : mapM (convert_block now new) fe = Some fe' ->
  forall i t r, In (i, (t, r)) (flatten fe) ->
    exists r', In (i, (t, r')) (flatten fe') /\
               (t = POLY -> convert_polyhedron now new r = Some r') /\ (t <> POLY -> r' = r).
Proof.
  intros H i t r Hin. apply mapM_Forall2 in H.
  apply flatten_In in Hin. destruct Hin as [b [Hb Hr]].
  destruct (F2_complete _ _ _ H _ Hb) as [[t0 b'] [Hb' E]]. unfold convert_block in E. simpl in E.
  destruct (Nat.eqb t POLY) eqn:T.
  - destruct (convert_rows now new b) as [x|] eqn:C; [|discriminate]. inversion E; subst.
    destruct (convert_rows_complete _ _ _ _ C _ _ Hr) as [r' [Hr' Cr]].
    exists r'. split; [apply flatten_In; eauto|]. split; [auto|].
    apply Nat.eqb_eq in T. intros N. contradiction.
  - inversion E; subst. exists r. split; [apply flatten_In; eauto|].
    apply Nat.eqb_neq in T. split; [intros N; contradiction|auto].
Qed.

Section PolyCutProofs.
Context {V : Type}.

(* the retained polyhedra keep their faces: every face row of the cut mesh
   names, face by face, the same node ids in the node table of the cut mesh as
   the row of that element did in the parent; exactly the requested elements
   carry a row; rows of other element types are passed through *)
Theorem cut_face_spec (m m' : mesh V) face face' sel :
  wf_mesh m = true -> face_wf m face -> cut_face m face sel = Some (m', face') ->
  cut_with_element_ids m sel = Some m' /\
  (forall i row', In (i, (POLY, row')) (flatten face') ->
     exists row, In i sel /\ In (i, (POLY, row)) (flatten face) /\
                 faces_of (ids (nodes m')) row' = faces_of (ids (nodes m)) row /\
                 length row' = length row) /\
  (forall i row, In i sel -> In (i, (POLY, row)) (flatten face) ->
     exists row', In (i, (POLY, row')) (flatten face') /\
                  faces_of (ids (nodes m')) row' = faces_of (ids (nodes m)) row) /\
  (forall i t row, t <> POLY ->
     (In (i, (t, row)) (flatten face') <-> In i sel /\ In (i, (t, row)) (flatten face))).
Proof.
  intros W [ND FW] H. unfold cut_face in H.
  destruct (cut_with_element_ids m sel) as [m1|] eqn:C; [|discriminate].
  destruct (mapM (convert_block (ids (nodes m)) (ids (nodes m1))) (efilter face sel)) as [f1|] eqn:M;
    [|discriminate].
  inversion H; subst m1 f1; clear H.
  destruct (cut_with_element_ids_spec m m' sel W C) as [Sel [Ei _]].
  assert (Srt : StronglySorted Z.lt (ids (nodes m'))) by (rewrite Ei; apply uniqueZ_sorted).
  (* the nodes of a retained element are nodes of the cut mesh *)
  assert (Keep : forall i row fs, In i sel -> In (i, (POLY, row)) (flatten face) ->
                 faces_of (ids (nodes m)) row = Some fs ->
                 forall n, In n (concat fs) -> In n (ids (nodes m'))).
  { intros i row fs Hs Hf F n Hn. destruct (FW i row Hf) as [fs0 [t [c [F0 [Hc Hin]]]]].
    rewrite F in F0. inversion F0; subst fs0.
    rewrite Ei. apply uniqueZ_In. apply conn_ids_In. exists i, t, c. split; [|auto].
    apply Sel. auto. }
  split; [reflexivity|]. split; [|split].
  - intros i row' Hin.
    destruct (conv_blocks_sound _ _ _ _ M _ _ _ Hin) as [row [Hr [Cv _]]].
    apply efilter_In in Hr; [|exact ND]. destruct Hr as [Hs Hf].
    destruct (FW i row Hf) as [fs [t [c [F _]]]].
    destruct (convert_polyhedron_spec _ _ _ _ _ Srt (Cv eq_refl) F (Keep _ _ _ Hs Hf F)) as [A [B _]].
    exists row. rewrite A, F. auto.
  - intros i row Hs Hf.
    assert (Hr : In (i, (POLY, row)) (flatten (efilter face sel))) by (apply efilter_In; auto).
    destruct (conv_blocks_complete _ _ _ _ M _ _ _ Hr) as [row' [Hr' [Cv _]]].
    destruct (FW i row Hf) as [fs [t [c [F _]]]].
    destruct (convert_polyhedron_spec _ _ _ _ _ Srt (Cv eq_refl) F (Keep _ _ _ Hs Hf F)) as [A _].
    exists row'. rewrite A, F. auto.
  - intros i t row T. split.
    + intros Hin. destruct (conv_blocks_sound _ _ _ _ M _ _ _ Hin) as [r [Hr [_ Eq]]].
      rewrite (Eq T). apply efilter_In in Hr; auto.
    + intros Hr. apply (efilter_In _ _ _ _ _ ND) in Hr.
      destruct (conv_blocks_complete _ _ _ _ M _ _ _ Hr) as [r' [Hr' [_ Eq]]].
      rewrite (Eq T) in Hr'. exact Hr'.
Qed.

(* no error path of its own: when the mesh cut succeeds and the face variable
   fits the mesh, the face variable is always converted *)
Theorem cut_face_total (m m' : mesh V) face sel :
  face_wf m face -> cut_with_element_ids m sel = Some m' ->
  exists face', cut_face m face sel = Some (m', face').
Proof.
  intros [ND FW] C. unfold cut_face. rewrite C.
  destruct (mapM_Some_all (convert_block (ids (nodes m)) (ids (nodes m'))) (efilter face sel)) as [r Hr].
  - intros [t b] Hb. unfold convert_block. simpl. destruct (Nat.eqb t POLY) eqn:T; [|discriminate].
    apply Nat.eqb_eq in T. subst t.
    destruct (mapM_Some_all (fun e => option_map (pair (fst e))
               (convert_polyhedron (ids (nodes m)) (ids (nodes m')) (snd e))) b) as [x Hx].
    + intros [i row] Hi. simpl.
      assert (Hf : In (i, (POLY, row)) (flatten (efilter face sel))) by (apply flatten_In; eauto).
      apply efilter_In in Hf; [|exact ND]. destruct Hf as [_ Hf].
      destruct (FW i row Hf) as [fs [t [c [F _]]]].
      destruct (convert_polyhedron_total _ (ids (nodes m')) _ _ F) as [p Hp]. rewrite Hp. discriminate.
    + unfold convert_rows. rewrite Hx. discriminate.
  - rewrite Hr. eexists. reflexivity.
Qed.

End PolyCutProofs.
