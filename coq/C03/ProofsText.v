(* C03 proofs, part 2: the whole control file — what the writer emits for
   well-formed conditions and what the reader recovers from it. *)
From Coq Require Import String Ascii List Bool ZArith Lia Permutation.
From FV.C01 Require Import Str Dec Model ProofsLines ProofsHeaders ProofsAux ProofsText.
From FV.C03 Require Import Model ProofsRows.
Import ListNotations.
Local Open Scope string_scope.

Definition wf_cell (c : option dec) : bool :=
  match c with Some v => wf_dec_free v | None => true end.

Definition wf_table (t : table) : bool :=
  negb (is_nil t)
  && forallb (fun r => (length (snd r) =? 3)%nat && forallb wf_cell (snd r)) t
  && negb (is_nil (prescriptions t)).

Definition wf_values (t : list (Z * dec)) : bool :=
  negb (is_nil t) && forallb (fun r => wf_dec_free (snd r)) t.

Definition wf_opt {A} (f : A -> bool) (o : option A) : bool :=
  match o with None => true | Some a => f a end.

Definition wf_cnt (c : cnt) : bool :=
  wordy (c_solution c)
  && wf_opt wf_table (c_boundary c) && wf_opt wf_table (c_spring c)
  && wf_opt wf_table (c_cload c)
  && wf_opt wf_values (c_fixtemp c) && wf_opt wf_values (c_cflux c).

(* ------------------------------------------------------------------ *)
Definition glist (t : table) : list presc :=
  flat_map (fun j => flat_map (fun row => cell row j) t) (seq 0 (ncols t)).

Lemma wf_table_parts t :
  wf_table t = true ->
  t <> [] /\ rect 3 t /\ prescriptions t <> [] /\
  (forall p, In p (prescriptions t) -> presc_ok p = true) /\
  (forall p, In p (glist t) -> presc_ok p = true).
Proof.
  unfold wf_table. rewrite !andb_true_iff. intros [[Hn Hr] Hp].
  apply is_nil_false in Hn. apply is_nil_false in Hp. rewrite forallb_forall in Hr.
  assert (R : rect 3 t).
  { intros r Hin. specialize (Hr r Hin). apply andb_true_iff in Hr as [Hl _].
    now apply Nat.eqb_eq. }
  assert (C : forall row j p, In row t -> In p (cell row j) -> presc_ok p = true).
  { intros row j p Hrow Hin. unfold cell in Hin.
    destruct (nth_error (snd row) j) as [[v|]|] eqn:E; try contradiction.
    destruct Hin as [<-|[]]. unfold presc_ok. cbn [fst snd].
    pose proof (nth_error_In _ _ E) as Hv.
    assert (Hj : (j < length (snd row))%nat) by (apply nth_error_Some; congruence).
    specialize (Hr row Hrow). apply andb_true_iff in Hr as [Hl Hc]. apply Nat.eqb_eq in Hl.
    rewrite forallb_forall in Hc. specialize (Hc _ Hv). simpl in Hc. rewrite Hc, andb_true_r.
    unfold dof_ok. rewrite andb_true_iff, !Nat.leb_le. lia. }
  repeat split; try assumption.
  - intros p Hin. unfold prescriptions in Hin. apply in_flat_map in Hin as (row & Hrow & Hin).
    apply in_flat_map in Hin as (j & _ & Hin). now apply (C row j).
  - intros p Hin. unfold glist in Hin. apply in_flat_map in Hin as (j & _ & Hin).
    apply in_flat_map in Hin as (row & Hrow & Hin). now apply (C row j).
Qed.

Lemma glist_nonnil t : wf_table t = true -> glist t <> [].
Proof.
  intros W. destruct (wf_table_parts t W) as (Hn & Hr & Hp & _).
  intros E. apply Hp. apply Permutation_nil.
  pose proof (gen_perm t 3 Hn Hr) as P. fold (glist t) in P. now rewrite E in P.
Qed.

Lemma gen_constraints_ok t : wf_table t = true -> gen_constraints t = Ok (glist t).
Proof.
  intros W. pose proof (glist_nonnil t W) as H. unfold gen_constraints. fold (glist t).
  destruct (glist t); [congruence|reflexivity].
Qed.

Lemma data_rows_nonnil l : l <> [] -> data_rows l = l.
Proof. destruct l; [congruence|reflexivity]. Qed.

Lemma map_nonnil {A B} (f : A -> B) l : l <> [] -> map f l <> [].
Proof. destruct l; [congruence|discriminate]. Qed.

(* the blocks of the five constraint sections *)
Definition bb_of (c : cnt) : list block :=
  match c_boundary c with Some t => [("!BOUNDARY", map boundary_row (glist t))] | None => [] end.
Definition sb_of (c : cnt) : list block :=
  match c_spring c with Some t => [("!SPRING", map dof_row (prescriptions t))] | None => [] end.
Definition lb_of (c : cnt) : list block :=
  match c_cload c with Some t => [("!CLOAD", map dof_row (glist t))] | None => [] end.
Definition fb_of (c : cnt) : list block :=
  match c_fixtemp c with Some t => [("!FIXTEMP", map value_row t)] | None => [] end.
Definition xb_of (c : cnt) : list block :=
  match c_cflux c with Some t => [("!CFLUX", map value_row t)] | None => [] end.

Definition sol_header (c : cnt) : string := "!SOLUTION, TYPE=" ++ c_solution c.

Definition prefix_blocks (c : cnt) : list block :=
  ([("!VERSION", ["5"]); (sol_header c, [])]
   ++ (if String.eqb (c_solution c) "HEAT" then [("!HEAT", [])] else [])
   ++ [("!WRITE,RESULT, FREQUENCY=1", []); ("!WRITE,VISUAL, FREQUENCY=1", [])]
   ++ output_blocks (c_only_solid c))%list.

Definition whole (c : cnt) : list block :=
  (prefix_blocks c ++ bb_of c ++ sb_of c ++ lb_of c ++ fb_of c ++ xb_of c ++ trailer_blocks)%list.

Record wf_cfacts (c : cnt) : Prop := {
  wc_sol : wordy (c_solution c) = true;
  wc_b : wf_opt wf_table (c_boundary c) = true;
  wc_s : wf_opt wf_table (c_spring c) = true;
  wc_l : wf_opt wf_table (c_cload c) = true;
  wc_f : wf_opt wf_values (c_fixtemp c) = true;
  wc_x : wf_opt wf_values (c_cflux c) = true
}.

Lemma wf_cnt_facts c : wf_cnt c = true -> wf_cfacts c.
Proof.
  unfold wf_cnt. rewrite !andb_true_iff. intros [[[[[A B] C] D] E] F]. now constructor.
Qed.

Lemma wf_values_parts t :
  wf_values t = true -> t <> [] /\ forall r, In r t -> wf_dec_free (snd r) = true.
Proof.
  unfold wf_values. rewrite andb_true_iff. intros [Hn Hv]. split; [now apply is_nil_false|].
  now apply forallb_forall.
Qed.

Lemma cnt_blocks_ok c : wf_cfacts c -> cnt_blocks c = Ok (whole c).
Proof.
  intros W. unfold cnt_blocks, whole, prefix_blocks, bb_of, sb_of, lb_of, fb_of, xb_of, sol_header.
  pose proof (wc_b c W) as Wb. pose proof (wc_s c W) as Ws. pose proof (wc_l c W) as Wl.
  pose proof (wc_f c W) as Wf. pose proof (wc_x c W) as Wx.
  destruct (c_boundary c) as [tb|]; cbn [opt_block wf_opt bind] in *.
  2: destruct (c_spring c) as [ts|]; cbn [opt_block wf_opt bind] in *.
  1: rewrite (gen_constraints_ok _ Wb); cbn [bind];
     rewrite data_rows_nonnil by (apply map_nonnil, glist_nonnil, Wb);
     destruct (c_spring c) as [ts|]; cbn [opt_block wf_opt bind] in *.
  all: try (rewrite data_rows_nonnil
              by (apply map_nonnil; now destruct (wf_table_parts _ Ws) as (_ & _ & ? & _))).
  all: destruct (c_cload c) as [tl|]; cbn [opt_block wf_opt bind] in *.
  all: try (rewrite (gen_constraints_ok _ Wl); cbn [bind];
            rewrite data_rows_nonnil by (apply map_nonnil, glist_nonnil, Wl)).
  all: destruct (c_fixtemp c) as [tf|]; cbn [opt_block wf_opt bind] in *.
  all: try (rewrite (data_rows_nonnil (map value_row tf))
              by (apply map_nonnil; now destruct (wf_values_parts _ Wf))).
  all: destruct (c_cflux c) as [tx|]; cbn [opt_block wf_opt bind] in *.
  all: try (rewrite (data_rows_nonnil (map value_row tx))
              by (apply map_nonnil; now destruct (wf_values_parts _ Wx))).
  all: rewrite <- !app_assoc; reflexivity.
Qed.

(* ------------------------------------------------------------------ *)
(* every block is well-formed for the reader                          *)
Definition pbk (b : block) : pblock := (fst b, map fields (snd b)).

Lemma bang_header_safe t : all_chars hchar t = true -> safe_line (String "!" t) = true.
Proof.
  intros H. unfold safe_line.
  pose proof (hchars_no "!" t hchar_not_bang H) as Nb.
  pose proof (hchars_no "#" t hchar_not_hash H) as Nh.
  assert (E1 : has_char "#" (String "!" t) = false) by (cbn [has_char]; now rewrite Nh).
  assert (E3 : contains "!!" (String "!" t) = false).
  { rewrite contains_bang by assumption.
    destruct (starts "!" t) eqn:E; [|reflexivity].
    apply starts_has in E. congruence. }
  rewrite E1, E3. reflexivity.
Qed.

Lemma sol_header_good c :
  wordy (c_solution c) = true ->
  is_header (sol_header c) = true /\ safe_line (sol_header c) = true.
Proof.
  intros H. split; [reflexivity|].
  change (sol_header c) with (String "!" ("SOLUTION, TYPE=" ++ c_solution c)).
  apply bang_header_safe. rewrite all_chars_app, (wordy_hchars _ H). reflexivity.
Qed.

Ltac concrete_block :=
  split; [reflexivity|split; [reflexivity|]];
  let r := fresh "r" in let Hr := fresh "Hr" in
  intros r Hr; simpl in Hr;
  repeat (destruct Hr as [<-|Hr]; [split; reflexivity|]); destruct Hr.

Lemma whole_good c b : wf_cfacts c -> In b (whole c) -> good_block b.
Proof.
  intros W Hin. unfold whole in Hin.
  apply in_app_or in Hin as [Hin|Hin].
  { unfold prefix_blocks in Hin. apply in_app_or in Hin as [Hin|Hin].
    - destruct Hin as [<-|[<-|[]]]; [concrete_block|].
      destruct (sol_header_good c (wc_sol c W)) as [H1 H2].
      split; [exact H1|split; [exact H2|intros r []]].
    - apply in_app_or in Hin as [Hin|Hin].
      + destruct (String.eqb (c_solution c) "HEAT"); [|destruct Hin].
        destruct Hin as [<-|[]]. concrete_block.
      + apply in_app_or in Hin as [Hin|Hin].
        * destruct Hin as [<-|[<-|[]]]; concrete_block.
        * unfold output_blocks in Hin. destruct (c_only_solid c).
          -- destruct Hin as [<-|[<-|[]]]; concrete_block.
          -- destruct Hin as [<-|[]]; concrete_block. }
  apply in_app_or in Hin as [Hin|Hin].
  { unfold bb_of in Hin. destruct (c_boundary c); [|destruct Hin]. destruct Hin as [<-|[]].
    split; [reflexivity|split; [reflexivity|]]. intros r Hr.
    apply in_map_iff in Hr as (p & <- & _). apply boundary_row_good. }
  apply in_app_or in Hin as [Hin|Hin].
  { unfold sb_of in Hin. destruct (c_spring c); [|destruct Hin]. destruct Hin as [<-|[]].
    split; [reflexivity|split; [reflexivity|]]. intros r Hr.
    apply in_map_iff in Hr as (p & <- & _). apply dof_row_good. }
  apply in_app_or in Hin as [Hin|Hin].
  { unfold lb_of in Hin. destruct (c_cload c); [|destruct Hin]. destruct Hin as [<-|[]].
    split; [reflexivity|split; [reflexivity|]]. intros r Hr.
    apply in_map_iff in Hr as (p & <- & _). apply dof_row_good. }
  apply in_app_or in Hin as [Hin|Hin].
  { unfold fb_of in Hin. destruct (c_fixtemp c); [|destruct Hin]. destruct Hin as [<-|[]].
    split; [reflexivity|split; [reflexivity|]]. intros r Hr.
    apply in_map_iff in Hr as (p & <- & _). apply value_row_good. }
  apply in_app_or in Hin as [Hin|Hin].
  { unfold xb_of in Hin. destruct (c_cflux c); [|destruct Hin]. destruct Hin as [<-|[]].
    split; [reflexivity|split; [reflexivity|]]. intros r Hr.
    apply in_map_iff in Hr as (p & <- & _). apply value_row_good. }
  unfold trailer_blocks in Hin.
  destruct Hin as [<-|[<-|[<-|[<-|[<-|[<-|[]]]]]]]; concrete_block.
Qed.

Lemma parse_whole pats c :
  wf_cfacts c -> parse_blocks pats (flatten (whole c)) = map pbk (whole c).
Proof.
  intros W. unfold parse_blocks, flatten. apply parse_flatten.
  intros b Hb. now apply (whole_good c).
Qed.

(* ------------------------------------------------------------------ *)
(* selection by key                                                   *)
Inductive ckey : Type := KB | KS | KL | KF | KX.
Definition ckey_str (k : ckey) : string :=
  match k with
  | KB => "!BOUNDARY" | KS => "!SPRING" | KL => "!CLOAD" | KF => "!FIXTEMP" | KX => "!CFLUX"
  end.
Definition csel (k : ckey) (c : cnt) : list block :=
  match k with
  | KB => bb_of c | KS => sb_of c | KL => lb_of c | KF => fb_of c | KX => xb_of c
  end.

Lemma prefix_none k c b :
  wordy (c_solution c) = true -> In b (prefix_blocks c) -> contains (ckey_str k) (fst b) = false.
Proof.
  intros Hw Hin. unfold prefix_blocks in Hin.
  apply in_app_or in Hin as [Hin|Hin].
  { destruct Hin as [<-|[<-|[]]]; [destruct k; reflexivity|].
    cbn [fst]. change (sol_header c) with (String "!" ("SOLUTION, TYPE=" ++ c_solution c)).
    assert (Nb : has_char "!" ("SOLUTION, TYPE=" ++ c_solution c) = false).
    { apply (hchars_no "!" _ hchar_not_bang). rewrite all_chars_app, (wordy_hchars _ Hw).
      reflexivity. }
    destruct k; unfold ckey_str; rewrite (contains_bang _ _ Nb); reflexivity. }
  apply in_app_or in Hin as [Hin|Hin].
  { destruct (String.eqb (c_solution c) "HEAT"); [|destruct Hin].
    destruct Hin as [<-|[]]. destruct k; reflexivity. }
  apply in_app_or in Hin as [Hin|Hin].
  { destruct Hin as [<-|[<-|[]]]; destruct k; reflexivity. }
  unfold output_blocks in Hin. destruct (c_only_solid c).
  - destruct Hin as [<-|[<-|[]]]; destruct k; reflexivity.
  - destruct Hin as [<-|[]]; destruct k; reflexivity.
Qed.

Lemma selected_whole k c :
  wf_cfacts c -> selected (ckey_str k) (map pbk (whole c)) = map pbk (csel k c).
Proof.
  intros W. unfold whole. rewrite !map_app, !selected_app.
  rewrite (selected_none (ckey_str k) (map pbk (prefix_blocks c))).
  2:{ intros b Hb. apply in_map_iff in Hb as (b0 & <- & Hb0). cbn [pbk fst].
      apply (prefix_none k c b0); [apply (wc_sol c W)|assumption]. }
  unfold csel. unfold bb_of, sb_of, lb_of, fb_of, xb_of.
  destruct (c_boundary c), (c_spring c), (c_cload c), (c_fixtemp c), (c_cflux c);
    destruct k; reflexivity.
Qed.

(* ------------------------------------------------------------------ *)
(* reading the sections back                                          *)
Lemma no_letter_print_Z z rest : is_letter_row (print_Z z :: rest) = false.
Proof. cbn [is_letter_row]. apply starts_alpha_print_Z. Qed.

Lemma extend_plain ngs rows :
  (forall r, In r rows -> is_letter_row r = false) -> extend ngs rows = Ok rows.
Proof. intros H. unfold extend. now rewrite filter_none. Qed.

Lemma read_rows_ok {A I} (ngs : list (string * list Z)) (f : list string -> result A)
      (row : I -> string) (g : I -> A) (items : list I) :
  items <> [] ->
  (forall it, In it items -> is_letter_row (fields (row it)) = false) ->
  (forall it, In it items -> f (fields (row it)) = Ok (g it)) ->
  match map fields (map row items) with
  | [] => Ok None
  | rows => rows' <- extend ngs rows ;; t <- mapM f rows' ;; Ok (Some t)
  end = Ok (Some (map g items)).
Proof.
  intros Hne Hl Hf. destruct items as [|i items]; [congruence|].
  cbn [map]. change (fields (row i) :: map fields (map row items))
    with (map fields (map row (i :: items))).
  rewrite extend_plain.
  - cbn [bind]. rewrite map_map. rewrite (mapM_map_map f _ g) by assumption. reflexivity.
  - intros r Hr. rewrite map_map in Hr. apply in_map_iff in Hr as (it & <- & Hit). now apply Hl.
Qed.

Section ReadWhole.
Variable c : cnt.
Variable ngs : list (string * list Z).
Hypothesis W : wf_cfacts c.
Let P := map pbk (whole c).

Lemma data_of k : extract_data (ckey_str k) P = concat (map snd (map pbk (csel k c))).
Proof.
  unfold extract_data, FV.C01.Model.extract_data, extract_blocks. subst P.
  now rewrite selected_whole.
Qed.

Lemma read_boundary_whole :
  read_kind "!BOUNDARY" ngs read_boundary_row P
  = Ok (option_map (fun t => map presc_row (glist t)) (c_boundary c)).
Proof.
  unfold read_kind. change "!BOUNDARY" with (ckey_str KB). rewrite data_of.
  unfold csel, bb_of. pose proof (wc_b c W) as Wb.
  destruct (c_boundary c) as [t|]; [|reflexivity].
  cbn [map pbk fst snd concat option_map]. rewrite app_nil_r.
  destruct (wf_table_parts t Wb) as (_ & _ & _ & _ & Hg).
  apply read_rows_ok.
  - now apply glist_nonnil.
  - intros p _. rewrite fields_boundary_row. apply no_letter_print_Z.
  - intros p Hp. apply read_boundary_row_ok. now apply Hg.
Qed.

Lemma read_spring_whole :
  read_kind "!SPRING" ngs read_dof_row P
  = Ok (option_map (fun t => map presc_row (prescriptions t)) (c_spring c)).
Proof.
  unfold read_kind. change "!SPRING" with (ckey_str KS). rewrite data_of.
  unfold csel, sb_of. pose proof (wc_s c W) as Ws.
  destruct (c_spring c) as [t|]; [|reflexivity].
  cbn [map pbk fst snd concat option_map]. rewrite app_nil_r.
  destruct (wf_table_parts t Ws) as (_ & _ & Hn & Hp & _).
  apply read_rows_ok.
  - assumption.
  - intros p _. rewrite fields_dof_row. apply no_letter_print_Z.
  - intros p Hin. apply read_dof_row_ok. now apply Hp.
Qed.

Lemma read_cload_whole :
  read_kind "!CLOAD" ngs read_dof_row P
  = Ok (option_map (fun t => map presc_row (glist t)) (c_cload c)).
Proof.
  unfold read_kind. change "!CLOAD" with (ckey_str KL). rewrite data_of.
  unfold csel, lb_of. pose proof (wc_l c W) as Wl.
  destruct (c_cload c) as [t|]; [|reflexivity].
  cbn [map pbk fst snd concat option_map]. rewrite app_nil_r.
  destruct (wf_table_parts t Wl) as (_ & _ & _ & _ & Hg).
  apply read_rows_ok.
  - now apply glist_nonnil.
  - intros p _. rewrite fields_dof_row. apply no_letter_print_Z.
  - intros p Hp. apply read_dof_row_ok. now apply Hg.
Qed.

Lemma read_values_ok (t : list (Z * dec)) :
  wf_values t = true ->
  match map fields (map value_row t) with
  | [] => Ok None
  | rows => rows' <- extend ngs rows ;; t <- mapM read_value_row rows' ;; Ok (Some t)
  end = Ok (Some t).
Proof.
  intros Wv. destruct (wf_values_parts t Wv) as [Hn Hv].
  rewrite <- (map_id t) at 2. apply read_rows_ok.
  - assumption.
  - intros p _. rewrite fields_value_row. apply no_letter_print_Z.
  - intros p Hp. apply read_value_row_ok. now apply Hv.
Qed.

Lemma read_fixtemp_whole :
  read_kind "!FIXTEMP" ngs read_value_row P = Ok (c_fixtemp c).
Proof.
  unfold read_kind. change "!FIXTEMP" with (ckey_str KF). rewrite data_of.
  unfold csel, fb_of. pose proof (wc_f c W) as Wf.
  destruct (c_fixtemp c) as [t|]; [|reflexivity].
  cbn [map pbk fst snd concat]. rewrite app_nil_r. now apply read_values_ok.
Qed.

Lemma read_cflux_whole :
  read_kind "!CFLUX" ngs read_value_row P = Ok (c_cflux c).
Proof.
  unfold read_kind. change "!CFLUX" with (ckey_str KX). rewrite data_of.
  unfold csel, xb_of. pose proof (wc_x c W) as Wx.
  destruct (c_cflux c) as [t|]; [|reflexivity].
  cbn [map pbk fst snd concat]. rewrite app_nil_r. now apply read_values_ok.
Qed.

Lemma cflux_types : captures "TYPE=" (extract_headers "!CFLUX" P) = [].
Proof.
  unfold extract_headers, FV.C01.Model.extract_headers. subst P.
  change "!CFLUX" with (ckey_str KX). rewrite selected_whole by assumption. unfold csel, xb_of.
  destruct (c_cflux c); reflexivity.
Qed.
End ReadWhole.

(* ------------------------------------------------------------------ *)
(* the !SOLUTION line                                                 *)
Definition nosol (b : block) : Prop :=
  contains "!SOLUTION" (fst b) = false /\
  forall r, In r (snd b) -> contains "!SOLUTION" r = false.

Lemma flatten_nosol bs :
  (forall b, In b bs -> nosol b) -> filter (contains "!SOLUTION") (flatten bs) = [].
Proof.
  intros H. apply filter_none. intros l Hl.
  apply In_flatten in Hl as (b & Hb & Hl). destruct (H b Hb) as [H1 H2].
  destruct Hl as [->|Hl]; [assumption|now apply H2].
Qed.

Lemma join_nosol fs :
  (forall x, In x fs -> clean x = true) -> contains "!SOLUTION" (join "," fs) = false.
Proof.
  intros H. apply contains_nochar. apply has_char_join; [reflexivity|].
  intros x Hx. now apply clean_no_bang, H.
Qed.

Ltac nosol_concrete :=
  split; [reflexivity|];
  let r := fresh "r" in let Hr := fresh "Hr" in
  intros r Hr; simpl in Hr; repeat (destruct Hr as [<-|Hr]; [reflexivity|]); destruct Hr.

Ltac nosol_rows :=
  split; [reflexivity|];
  let r := fresh "r" in let Hr := fresh "Hr" in let p := fresh "p" in
  intros r Hr; apply in_map_iff in Hr as (p & <- & _); apply join_nosol;
  let x := fresh "x" in let Hx := fresh "Hx" in
  intros x Hx; simpl in Hx;
  repeat (destruct Hx as [<-|Hx]; [first [apply print_Z_clean | apply print_dec_clean]|]);
  destruct Hx.

Lemma solution_line c :
  filter (contains "!SOLUTION") (flatten (whole c)) = [sol_header c].
Proof.
  unfold whole, prefix_blocks.
  change (flatten (([("!VERSION", ["5"]); (sol_header c, [])] ++ ?a) ++ ?b))
    with ("!VERSION" :: "5" :: sol_header c :: flatten (a ++ b)).
  set (rest := ((if String.eqb (c_solution c) "HEAT" then [("!HEAT", [])] else []) ++
       [("!WRITE,RESULT, FREQUENCY=1", []); ("!WRITE,VISUAL, FREQUENCY=1", [])] ++
       output_blocks (c_only_solid c))%list).
  change (flatten (([("!VERSION", ["5"]); (sol_header c, [])] ++ rest)
                   ++ bb_of c ++ sb_of c ++ lb_of c ++ fb_of c ++ xb_of c ++ trailer_blocks))
    with ("!VERSION" :: "5" :: sol_header c
          :: flatten (rest ++ bb_of c ++ sb_of c ++ lb_of c ++ fb_of c ++ xb_of c ++ trailer_blocks)).
  cbn [filter]. change (contains "!SOLUTION" "!VERSION") with false.
  change (contains "!SOLUTION" "5") with false.
  change (contains "!SOLUTION" (sol_header c)) with true. cbn iota.
  rewrite flatten_nosol; [reflexivity|].
  intros b Hin. subst rest.
  apply in_app_or in Hin as [Hin|Hin].
  { apply in_app_or in Hin as [Hin|Hin].
    - destruct (String.eqb (c_solution c) "HEAT"); [|destruct Hin].
      destruct Hin as [<-|[]]. nosol_concrete.
    - apply in_app_or in Hin as [Hin|Hin].
      + destruct Hin as [<-|[<-|[]]]; nosol_concrete.
      + unfold output_blocks in Hin. destruct (c_only_solid c).
        * destruct Hin as [<-|[<-|[]]]; nosol_concrete.
        * destruct Hin as [<-|[]]; nosol_concrete. }
  apply in_app_or in Hin as [Hin|Hin].
  { unfold bb_of in Hin. destruct (c_boundary c); [|destruct Hin]. destruct Hin as [<-|[]].
    nosol_rows. }
  apply in_app_or in Hin as [Hin|Hin].
  { unfold sb_of in Hin. destruct (c_spring c); [|destruct Hin]. destruct Hin as [<-|[]].
    nosol_rows. }
  apply in_app_or in Hin as [Hin|Hin].
  { unfold lb_of in Hin. destruct (c_cload c); [|destruct Hin]. destruct Hin as [<-|[]].
    nosol_rows. }
  apply in_app_or in Hin as [Hin|Hin].
  { unfold fb_of in Hin. destruct (c_fixtemp c); [|destruct Hin]. destruct Hin as [<-|[]].
    nosol_rows. }
  apply in_app_or in Hin as [Hin|Hin].
  { unfold xb_of in Hin. destruct (c_cflux c); [|destruct Hin]. destruct Hin as [<-|[]].
    nosol_rows. }
  unfold trailer_blocks in Hin.
  destruct Hin as [<-|[<-|[<-|[<-|[<-|[<-|[]]]]]]]; nosol_concrete.
Qed.

Lemma capture_solution c :
  wordy (c_solution c) = true -> capture "TYPE=" (sol_header c) = Some (c_solution c).
Proof.
  intros H. change (sol_header c) with ("!SOLUTION, " ++ "TYPE=" ++ c_solution c).
  rewrite capture_skip_concrete by reflexivity. now apply capture_hit_end.
Qed.

(* ------------------------------------------------------------------ *)
Definition r_of (c : cnt) : rcnt :=
  mkrcnt (c_solution c)
         (option_map (fun t => map presc_row (glist t)) (c_boundary c))
         (option_map (fun t => map presc_row (prescriptions t)) (c_spring c))
         (option_map (fun t => map presc_row (glist t)) (c_cload c))
         (c_fixtemp c) (c_cflux c).

Theorem cnt_text_roundtrip pats ngs c :
  wf_cnt c = true ->
  exists ls, write_cnt c = Ok ls /\ read_cnt_with pats ngs ls = Ok (r_of c).
Proof.
  intros Wc. pose proof (wf_cnt_facts c Wc) as W.
  exists (flatten (whole c)). split.
  - unfold write_cnt. now rewrite (cnt_blocks_ok c W).
  - unfold read_cnt_with.
    assert (K : filter (keep pats) (flatten (whole c)) = flatten (whole c)).
    { apply filter_all. intros l Hl. apply In_flatten in Hl as (b & Hb & Hl).
      destruct (whole_good c b W Hb) as (_ & Hs & Hr). apply safe_kept.
      destruct Hl as [->|Hl]; [assumption|now apply Hr]. }
    rewrite K.
    unfold read_solution. rewrite solution_line.
    rewrite (capture_solution c (wc_sol c W)). cbn [of_option bind].
    rewrite (parse_whole pats c W).
    rewrite (read_spring_whole c ngs W). cbn [bind].
    rewrite (read_boundary_whole c ngs W). cbn [bind].
    rewrite (read_cload_whole c ngs W). cbn [bind].
    rewrite (read_fixtemp_whole c ngs W). cbn [bind].
    rewrite (cflux_types c W).
    rewrite (read_cflux_whole c ngs W). cbn [bind]. reflexivity.
Qed.

(* consequences for the prescriptions *)
Lemma presc_rows_glist t :
  wf_table t = true -> prescriptions (map presc_row (glist t)) = glist t.
Proof.
  intros W. apply prescriptions_presc_rows. intros p Hp.
  destruct (wf_table_parts t W) as (_ & _ & _ & _ & Hg). specialize (Hg p Hp).
  unfold presc_ok in Hg. now apply andb_true_iff in Hg as [Hg _].
Qed.

Lemma presc_rows_presc t :
  wf_table t = true -> prescriptions (map presc_row (prescriptions t)) = prescriptions t.
Proof.
  intros W. apply prescriptions_presc_rows. intros p Hp.
  destruct (wf_table_parts t W) as (_ & _ & _ & Hg & _). specialize (Hg p Hp).
  unfold presc_ok in Hg. now apply andb_true_iff in Hg as [Hg _].
Qed.

Lemma glist_perm t : wf_table t = true -> Permutation (glist t) (prescriptions t).
Proof.
  intros W. destruct (wf_table_parts t W) as (Hn & Hr & _). now apply (gen_perm t 3).
Qed.

Theorem cnt_roundtrip pats ngs c :
  wf_cnt c = true ->
  exists ls r, write_cnt c = Ok ls /\ read_cnt_with pats ngs ls = Ok r /\
    r_solution r = c_solution c /\
    Permutation (opt_presc (r_boundary r)) (opt_presc (c_boundary c)) /\
    opt_presc (r_spring r) = opt_presc (c_spring c) /\
    Permutation (opt_presc (r_cload r)) (opt_presc (c_cload c)) /\
    r_fixtemp r = c_fixtemp c /\ r_cflux r = c_cflux c.
Proof.
  intros Wc. destruct (cnt_text_roundtrip pats ngs c Wc) as (ls & Hw & Hr).
  pose proof (wf_cnt_facts c Wc) as W.
  exists ls, (r_of c). repeat split; try assumption; unfold r_of; cbn.
  - pose proof (wc_b c W) as Wb. destruct (c_boundary c) as [t|]; cbn in *; [|constructor].
    rewrite presc_rows_glist by assumption. now apply glist_perm.
  - pose proof (wc_s c W) as Ws. destruct (c_spring c) as [t|]; cbn in *; [|reflexivity].
    now apply presc_rows_presc.
  - pose proof (wc_l c W) as Wl. destruct (c_cload c) as [t|]; cbn in *; [|constructor].
    rewrite presc_rows_glist by assumption. now apply glist_perm.
Qed.
