(* C03 — FrontISTR control (.cnt) write -> read keeps the analysis conditions.
   Statements only (proofs in Proofs*.v). *)
From Coq Require Import String Ascii List Bool ZArith Permutation QArith.
From FV.C01 Require Import Str Dec.
From FV.C03 Require Import Model ProofsRows ProofsText ProofsGroup.
From FV.C03 Require Fmt Floats ProofsFloats.
Import ListNotations.
Local Close Scope Q_scope.
Local Open Scope string_scope.

(* For every well-formed set of conditions (solution type a \w+ word; each
   present table: >= 1 row, 3 dof cells per row, >= 1 non-NaN cell, values in
   the writer's decimal format; fixtemp / cflux lists non-empty), every
   line-ignore pattern and every node-group table: the writer succeeds, the
   reader succeeds on the written lines, the solution type is the same, and
   per kind the prescriptions (node id, dof, value) read back are a permutation
   of the prescriptions written (boundary and cload are written column by
   column, hence the permutation; spring, fixtemp and cflux come back in the
   same order). *)
Theorem C03_cnt_roundtrip :
  forall (pats : list ipat) (ngs : list (string * list Z)) (c : cnt), wf_cnt c = true ->
  exists ls r, write_cnt c = Ok ls /\ read_cnt_with pats ngs ls = Ok r /\
    r_solution r = c_solution c /\
    Permutation (opt_presc (r_boundary r)) (opt_presc (c_boundary c)) /\
    opt_presc (r_spring r) = opt_presc (c_spring c) /\
    Permutation (opt_presc (r_cload r)) (opt_presc (c_cload c)) /\
    r_fixtemp r = c_fixtemp c /\ r_cflux r = c_cflux c.
Proof. exact cnt_roundtrip. Qed.

(* the two solution types the writer knows *)
Theorem C03_solution_type_roundtrip :
  forall pats ngs c, wf_cnt c = true -> (c_solution c = "STATIC" \/ c_solution c = "HEAT") ->
  exists ls r, write_cnt c = Ok ls /\ read_cnt_with pats ngs ls = Ok r /\
               r_solution r = c_solution c.
Proof.
  intros pats ngs c W _. destruct (cnt_roundtrip pats ngs c W) as (ls & r & H1 & H2 & H3 & _).
  now exists ls, r.
Qed.

(* a row  <group name>, <fields>  of a section is read as the rows
   <member id>, <fields>  for every member of the group: same rows up to
   order, hence the same prescriptions; an unknown group name in another row
   makes both readings fail *)
Theorem C03_group_expansion :
  forall ngs (f : list string -> result (Z * list (option dec))) pre post g rest members,
  lookup g ngs = Some members -> starts_alpha g = true -> rest <> [] ->
  (forall i, In i members -> (0 <= i)%Z) ->
  (forall r, In r (pre ++ post) -> is_letter_row r = true \/ is_digit_row r = true) ->
  agree (extend ngs (pre ++ (g :: rest) :: post))
        (extend ngs (pre ++ member_rows members rest ++ post))
  /\ agree_presc (read_rows ngs f (pre ++ (g :: rest) :: post))
                 (read_rows ngs f (pre ++ member_rows members rest ++ post)).
Proof.
  intros. split; [now apply group_expansion|now apply group_expansion_presc].
Qed.

(* the reader's tables: one row per written prescription, exactly these
   prescriptions (d[start-1:end] = value with start = end = dof) *)
Theorem C03_read_rows_prescriptions :
  forall l : list presc, (forall p, In p l -> dof_ok (fst (snd p)) = true) ->
    prescriptions (map presc_row l) = l.
Proof. exact prescriptions_presc_rows. Qed.

(* non-vacuity *)
Definition dq (s : string) : dec := match parse_dec_free s with Some d => d | None => dec_zero end.
Definition example_cnt : cnt :=
  mkcnt "STATIC" true
    (Some [(5%Z, [Some (dq "0.00000E+00"); None; Some (dq "1.23457E+00")]);
           (70%Z, [None; None; None]);
           (9%Z, [Some (dq "1.00000E-07"); Some (dq "2.00000E+00"); Some (dq "3.00000E+00")])])
    (Some [(3%Z, [Some (dq "1.000000E+03"); None; None]);
           (12%Z, [None; Some (dq "2.500000E+00"); Some (dq "3.333333E-01")])])
    (Some [(70%Z, [None; Some (dq "-9.876543E+05"); None]); (5%Z, [Some (dq "1.000000E+00"); None; None])])
    (Some [(5%Z, dq "1.050000000000E+01")]) None.

Example C03_example_wf : wf_cnt example_cnt = true.
Proof. vm_compute. reflexivity. Qed.

Example C03_example_boundary :
  match write_cnt example_cnt with
  | Ok ls => firstn 6 (skipn 16 ls)
  | Err _ => []
  end = ["!BOUNDARY"; "5,1,1,0.00000E+00"; "9,1,1,1.00000E-07"; "9,2,2,2.00000E+00";
         "5,3,3,1.23457E+00"; "9,3,3,3.00000E+00"].
Proof. vm_compute. reflexivity. Qed.

Example C03_example_group :
  show_rcnt (read_cnt [("ALL", [1; 2; 3]%Z); ("NG1", [3; 1]%Z)]
               ["!SOLUTION, TYPE=HEAT"; "!FIXTEMP"; " NG1 , 2.500000000000E+00";
                "2, 1.000000000000E+00"; "!END"])
  = ["SOLUTION HEAT"; "fixtemp"; "3,2.500000000000E+00"; "1,2.500000000000E+00";
     "2,1.000000000000E+00"].
Proof. vm_compute. reflexivity. Qed.

Print Assumptions C03_cnt_roundtrip.
Print Assumptions C03_group_expansion.

(* ------------------------------------------------------------------ *)
(* "to the precision the writer emits": the digits of "%.<k>E" (k = 5 for
   !BOUNDARY, 6 for !SPRING / !CLOAD, 12 for !FIXTEMP / !CFLUX) of a positive
   finite binary64 m * 2^e are exactly k+1 significant digits N with decimal
   exponent E, and the decimal N * 10^(E-k) written to the file differs from
   the value by at most half a unit of its last digit ... *)
Theorem C03_fmt_digits_within_half_ulp :
  forall k m e N E, Fmt.fmt_E k m e = Some (N, E) ->
  (10 ^ k <= N < 10 ^ (k + 1))%Z /\
  (inject_Z N * Fmt.ulp (E - k) - Fmt.value m e <= (1 # 2) * Fmt.ulp (E - k))%Q /\
  (Fmt.value m e - inject_Z N * Fmt.ulp (E - k) <= (1 # 2) * Fmt.ulp (E - k))%Q.
Proof. exact Fmt.fmt_E_correct. Qed.

(* ... hence by at most 10^-k / 2 relative to the written decimal: k+1
   significant digits (6, 7, 13) *)
Theorem C03_fmt_relative_precision :
  forall k m e N E, Fmt.fmt_E k m e = Some (N, E) ->
  let p := (inject_Z N * Fmt.ulp (E - k))%Q in
  (p - Fmt.value m e <= (1 # 2) * (p / inject_Z (10 ^ k)))%Q /\
  (Fmt.value m e - p <= (1 # 2) * (p / inject_Z (10 ^ k)))%Q.
Proof. exact Fmt.fmt_E_relative. Qed.

(* non-vacuity: 1/3 = 6004799503160661 * 2^-54, a tie (2.5 -> 2E+00, half to even at
   k = 0), a carry into the next decade (9.999995 at 5 digits), the smallest subnormal *)
Example C03_example_fmt :
  Fmt.fmt_E 5 6004799503160661 (-54) = Some (333333, -1)%Z /\
  Fmt.fmt_E 0 5 (-1) = Some (2, 0)%Z /\
  Fmt.fmt_E 5 5629497285802557 (-49) = Some (100000, 1)%Z /\
  Fmt.fmt_text 12 false 1 (-1074) = "4.940656458412E-324" /\
  Fmt.fmt_text 6 true 0 0 = "-0.000000E+00".
Proof. vm_compute. repeat split. Qed.

(* ------------------------------------------------------------------ *)
(* The round trip on the conditions as the caller holds them: tables of
   binary64 values (Floats.b64 = (-1)^neg * m * 2^e, None = NaN = free).
   For every shape-correct set of conditions (any NaN pattern with >= 1
   prescription per table, any node subset, any finite values), the file the
   writer emits for them is read back with the same solution type and, per
   kind, exactly the prescriptions (node id, dof, value) of the tables with
   every value replaced by the decimal "%.<k>E" prints for it (k = 5 boundary,
   6 spring / cload, 12 fixtemp / cflux), up to order for boundary / cload. *)
Theorem C03_cnt_roundtrip_binary64 :
  forall (pats : list ipat) (ngs : list (string * list Z)) (fc : Floats.fcnt),
  ProofsFloats.shape_ok fc = true ->
  exists ls r, write_cnt (Floats.cnt_of fc) = Ok ls /\ read_cnt_with pats ngs ls = Ok r /\
    r_solution r = Floats.fc_solution fc /\
    Permutation (opt_presc (r_boundary r)) (Floats.opt_fpresc 5 (Floats.fc_boundary fc)) /\
    opt_presc (r_spring r) = Floats.opt_fpresc 6 (Floats.fc_spring fc) /\
    Permutation (opt_presc (r_cload r)) (Floats.opt_fpresc 6 (Floats.fc_cload fc)) /\
    r_fixtemp r = option_map (Floats.dec_values 12) (Floats.fc_fixtemp fc) /\
    r_cflux r = option_map (Floats.dec_values 12) (Floats.fc_cflux fc).
Proof. exact ProofsFloats.cnt_roundtrip_binary64. Qed.

(* the decimal a non-zero value is replaced by is built from the certified
   digits of Fmt.fmt_E, to which C03_fmt_digits_within_half_ulp applies *)
Theorem C03_written_decimal_is_fmt_E :
  forall k x, Floats.fmt_ok k x = true -> Floats.f_m x <> 0%Z ->
  exists N E, Fmt.fmt_E k (Floats.f_m x) (Floats.f_e x) = Some (N, E) /\
              Floats.fqd k x = Fmt.dec_of (Floats.f_neg x) k N E.
Proof. exact ProofsFloats.fqd_digits. Qed.

(* non-vacuity: boundary {5: (0.0, NaN, 1/3), 9: (NaN, -2.5, NaN)}, fixtemp {5: 10.5} *)
Definition example_fcnt : Floats.fcnt :=
  let F := Floats.mkb64 in
  Floats.mkfcnt "HEAT" false
    (Some [(5, [Some (F false 0 0); None; Some (F false 6004799503160661 (-54))]);
           (9, [None; Some (F true 5 (-1)); None])]%Z)
    None None (Some [(5, F false 21 (-1))]%Z) None.

Example C03_example_binary64 :
  ProofsFloats.shape_ok example_fcnt = true /\
  match write_cnt (Floats.cnt_of example_fcnt) with
  | Ok ls => firstn 6 (skipn 8 ls)
  | Err _ => []
  end = ["!BOUNDARY"; "5,1,1,0.00000E+00"; "9,2,2,-2.50000E+00"; "5,3,3,3.33333E-01";
         "!FIXTEMP"; "5,1.050000000000E+01"] /\
  forallb (Floats.fmt_ok 5)
          [Floats.mkb64 false 6004799503160661 (-54); Floats.mkb64 true 5 (-1)]%Z = true.
Proof. vm_compute. repeat split. Qed.

Print Assumptions C03_fmt_digits_within_half_ulp.
Print Assumptions C03_fmt_relative_precision.
Print Assumptions C03_cnt_roundtrip_binary64.
Print Assumptions C03_written_decimal_is_fmt_E.
