(* C03 proofs, part 3: a condition on a node-group name denotes the same
   prescriptions as the condition listed for every member of the group. *)
From Coq Require Import String Ascii List Bool ZArith Lia Permutation.
From Coq Require Decimal DecimalString.
From FV.C01 Require Import Str Dec Model ProofsLines ProofsHeaders ProofsAux ProofsText.
From FV.C03 Require Import Model ProofsRows.
Import ListNotations.
Local Open Scope string_scope.

Definition member_rows (ids : list Z) (rest : list string) : list (list string) :=
  map (fun i => print_Z i :: rest) ids.

(* two results agree up to the order of the rows *)
Definition agree {A} (x y : result (list A)) : Prop :=
  match x, y with
  | Ok a, Ok b => Permutation a b
  | Err _, Err _ => True
  | _, _ => False
  end.

Lemma agree_refl {A} (x : result (list A)) : agree x x.
Proof. destruct x; simpl; auto. Qed.

Lemma agree_trans {A} (x y z : result (list A)) : agree x y -> agree y z -> agree x z.
Proof.
  destruct x, y, z; simpl; try tauto. apply Permutation_trans.
Qed.

Lemma mapM_app {A B} (f : A -> result B) a b :
  mapM f (a ++ b) = (xa <- mapM f a ;; xb <- mapM f b ;; Ok (xa ++ xb)%list).
Proof.
  induction a as [|x a IH]; simpl.
  - destruct (mapM f b); reflexivity.
  - destruct (f x); simpl; [|reflexivity]. rewrite IH.
    destruct (mapM f a); simpl; [|reflexivity]. destruct (mapM f b); reflexivity.
Qed.

Lemma mapM_perm {A B} (f : A -> result B) a b :
  Permutation a b -> agree (mapM f a) (mapM f b).
Proof.
  induction 1.
  - simpl. constructor.
  - simpl. destruct (f x); simpl; [|exact I].
    destruct (mapM f l), (mapM f l'); simpl in *; try tauto. now constructor.
  - simpl. destruct (f x), (f y); simpl; try exact I.
    destruct (mapM f l); simpl; [|exact I]. apply perm_swap.
  - eapply agree_trans; eassumption.
Qed.

(* ------------------------------------------------------------------ *)
Lemma starts_digit_print_Z z : (0 <= z)%Z -> starts_digit (print_Z z) = true.
Proof.
  intros H. unfold print_Z. destruct z as [|p|p]; [reflexivity| |lia].
  cbn [Z.to_int DecimalString.NilZero.string_of_int].
  pose proof (uint0_digits (Pos.to_uint p)) as D. pose proof (uint0_nonempty (Pos.to_uint p)) as N.
  destruct (DecimalString.NilZero.string_of_uint (Pos.to_uint p)) as [|a s]; [congruence|].
  simpl in D. apply andb_true_iff in D as [D _]. exact D.
Qed.

Lemma alpha_not_digit c : is_alpha c = true -> is_digit c = false.
Proof. revert c. ascii_cases. Qed.

Lemma member_rows_letter ids rest : filter is_letter_row (member_rows ids rest) = [].
Proof.
  apply filter_none. intros r Hr. apply in_map_iff in Hr as (i & <- & _).
  cbn [is_letter_row]. apply starts_alpha_print_Z.
Qed.

Lemma member_rows_digit ids rest :
  (forall i, In i ids -> (0 <= i)%Z) ->
  filter is_digit_row (member_rows ids rest) = member_rows ids rest.
Proof.
  intros H. apply filter_all. intros r Hr. apply in_map_iff in Hr as (i & <- & Hi).
  cbn [is_digit_row]. now apply starts_digit_print_Z, H.
Qed.

Lemma only_digits rows :
  (forall r, In r rows -> is_letter_row r = true \/ is_digit_row r = true) ->
  filter is_letter_row rows = [] -> filter is_digit_row rows = rows.
Proof.
  intros H E. apply filter_all. intros r Hr. destruct (H r Hr) as [Hl|Hd]; [|assumption].
  assert (In r (filter is_letter_row rows)) by (apply filter_In; auto).
  rewrite E in H0. destruct H0.
Qed.

Theorem group_expansion ngs pre post g rest members :
  lookup g ngs = Some members -> starts_alpha g = true -> rest <> [] ->
  (forall i, In i members -> (0 <= i)%Z) ->
  (forall r, In r (pre ++ post) -> is_letter_row r = true \/ is_digit_row r = true) ->
  agree (extend ngs (pre ++ (g :: rest) :: post))
        (extend ngs (pre ++ member_rows members rest ++ post)).
Proof.
  intros Hl Ha Hr Hpos Hrows.
  assert (Hgl : is_letter_row (g :: rest) = true) by exact Ha.
  assert (Hgd : is_digit_row (g :: rest) = false).
  { cbn [is_digit_row]. destruct g as [|a g']; [discriminate|]. now apply alpha_not_digit. }
  assert (Hex : expand_row ngs (g :: rest) = Ok (member_rows members rest)).
  { unfold expand_row. destruct rest as [|r0 rest']; [congruence|]. rewrite Hl. reflexivity. }
  unfold extend.
  rewrite !filter_app. cbn [filter]. rewrite Hgl, Hgd, member_rows_letter.
  rewrite (member_rows_digit _ _ Hpos). cbn [app].
  set (Lp := filter is_letter_row pre). set (Lq := filter is_letter_row post).
  set (Dp := filter is_digit_row pre). set (Dq := filter is_digit_row post).
  assert (E1 : (Lp ++ (g :: rest) :: Lq)%list <> []) by (destruct Lp; discriminate).
  destruct (Lp ++ (g :: rest) :: Lq)%list as [|x0 l0] eqn:EL; [congruence|]. rewrite <- EL. clear E1.
  change ((g :: rest) :: Lq) with ([g :: rest] ++ Lq)%list.
  rewrite !mapM_app.
  assert (Hs : mapM (expand_row ngs) [g :: rest] = Ok [member_rows members rest]).
  { cbn [mapM]. now rewrite Hex. }
  rewrite Hs. cbn [bind].
  set (F := mapM (expand_row ngs)).
  destruct (Lp ++ Lq)%list as [|y0 l1] eqn:EL2.
  - (* no other group row *)
    subst F. apply app_eq_nil in EL2 as [Ep Eq]. rewrite Ep, Eq. cbn [mapM bind app concat].
    cbn [agree].
    rewrite app_nil_r.
    assert (Hp' : Dp = pre).
    { apply only_digits; [|exact Ep]. intros r Hin. apply Hrows, in_or_app. now left. }
    assert (Hq' : Dq = post).
    { apply only_digits; [|exact Eq]. intros r Hin. apply Hrows, in_or_app. now right. }
    rewrite Hp', Hq'. apply Permutation_app_swap_app.
  - rewrite <- EL2. subst F. rewrite mapM_app.
    destruct (mapM (expand_row ngs) Lp) as [ea|]; cbn [bind]; [|exact I].
    destruct (mapM (expand_row ngs) Lq) as [eb|]; cbn [bind]; [|exact I].
    cbn [agree]. rewrite !concat_app. cbn [concat]. rewrite app_nil_r.
    rewrite <- !app_assoc. apply Permutation_app_head.
    rewrite (app_assoc (concat eb) Dp). rewrite (app_assoc (concat eb) Dp (_ ++ Dq)).
    apply Permutation_app_swap_app.
Qed.

(* lifted to the tables read from the rows and to their prescriptions *)
Lemma prescriptions_perm a b : Permutation a b -> Permutation (prescriptions a) (prescriptions b).
Proof. intros H. unfold prescriptions. now apply Permutation_flat_map. Qed.

Definition read_rows (ngs : list (string * list Z))
           (f : list string -> result (Z * list (option dec))) (rows : list (list string))
  : result table :=
  rows' <- extend ngs rows ;; mapM f rows'.

Definition agree_presc (x y : result table) : Prop :=
  match x, y with
  | Ok a, Ok b => Permutation (prescriptions a) (prescriptions b)
  | Err _, Err _ => True
  | _, _ => False
  end.

Theorem group_expansion_presc ngs f pre post g rest members :
  lookup g ngs = Some members -> starts_alpha g = true -> rest <> [] ->
  (forall i, In i members -> (0 <= i)%Z) ->
  (forall r, In r (pre ++ post) -> is_letter_row r = true \/ is_digit_row r = true) ->
  agree_presc (read_rows ngs f (pre ++ (g :: rest) :: post))
              (read_rows ngs f (pre ++ member_rows members rest ++ post)).
Proof.
  intros H1 H2 H3 H4 H5. pose proof (group_expansion ngs pre post g rest members H1 H2 H3 H4 H5) as G.
  unfold read_rows.
  destruct (extend ngs (pre ++ (g :: rest) :: post)) as [a|ea];
    destruct (extend ngs (pre ++ member_rows members rest ++ post)) as [b|eb];
    simpl in G; cbn [bind].
  - pose proof (mapM_perm f a b G) as M.
    destruct (mapM f a), (mapM f b); simpl in *; try tauto. now apply prescriptions_perm.
  - destruct G.
  - destruct G.
  - exact I.
Qed.
