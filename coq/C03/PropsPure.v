(* C03 — 'pure_cflux' (section "!CFLUX, TYPE=PURE") and the label decision of
   _read_cnt_cflux: statements (definitions and proofs in Pure.v).  The writer
   is the section-table interpreter on the table translated on this run. *)
From Coq Require Import String List ZArith.
From FV.C01 Require Import Str Dec.
From FV.C01.gen Require Import Tables.
From FV.C03 Require Import Model Sections Pure.
From FV.C03.gen Require Import CntSections.
Import ListNotations.
Local Open Scope string_scope.
Set Default Timeout 120.

(* every file Model.read_cnt_with reads is read identically by the reader with
   the label decision, with no pure_cflux: the theorems of Props.v carry over *)
Theorem C03_read_cntx_conservative :
  forall per_block pats ngs ls r, read_cnt_with pats ngs ls = Ok r ->
  read_cntx_with per_block pats ngs ls = Ok (r, None).
Proof. exact read_cntx_conservative. Qed.

(* The reader as the tree under test has it: the flag translated on this run
   (gen/CntSections.v cflux_per_block) *)
Definition read_cntx := read_cntx_with cflux_per_block ignore_pats.

(* With per-block labelling (the code after the repair) the witness of the
   refutation below and a pure_cflux table alone come back as written: same
   cflux, same pure_cflux.  (Witness-level statement: the general round trip
   with both tables is not proved — Props.v covers conditions without
   pure_cflux, C03_read_cntx_conservative carries it to this reader.) *)
Theorem C03_cflux_with_pure_cflux_per_block_witness :
  forall x, x = both_fluxes \/ x = pure_only ->
  exists ls r p, write_cntx_of cnt_sections x = Ok ls /\ read_cntx_with true ignore_pats [] ls = Ok (r, p) /\
    r_cflux r = c_cflux (x_cnt x) /\ p = x_pure x.
Proof.
  intros x [-> | ->].
  - destruct (write_cntx_of cnt_sections both_fluxes) as [ls|] eqn:W; [|vm_compute in W; discriminate].
    destruct (read_cntx_with true ignore_pats [] ls) as [[r p]|] eqn:R;
      [|vm_compute in W; injection W as <-; vm_compute in R; discriminate].
    exists ls, r, p. vm_compute in W. injection W as <-. vm_compute in R. injection R as <- <-.
    repeat split.
  - destruct (write_cntx_of cnt_sections pure_only) as [ls|] eqn:W; [|vm_compute in W; discriminate].
    destruct (read_cntx_with true ignore_pats [] ls) as [[r p]|] eqn:R;
      [|vm_compute in W; injection W as <-; vm_compute in R; discriminate].
    exists ls, r, p. vm_compute in W. injection W as <-. vm_compute in R. injection R as <- <-.
    repeat split.
Qed.

(* REFUTED (for the reader without per-block labelling, flag = false):
   "write -> read yields the same prescriptions for concentrated
   fluxes" fails for conditions that hold both a 'cflux' and a 'pure_cflux'
   table: both sections match extract_data('!CFLUX'), the only TYPE= captured is
   PURE, so every row comes back as 'pure_cflux' and 'cflux' is gone.
   Witness: cflux {1: 1.5, 2: 2.5}, pure_cflux {3: 7.0}. *)
Theorem C03_cflux_with_pure_cflux_refuted :
  exists (x : cntx) ls r p,
    write_cntx_of cnt_sections x = Ok ls /\ read_cntx_with false ignore_pats [] ls = Ok (r, p) /\
    c_cflux (x_cnt x) <> None /\ r_cflux r = None /\
    p = Some (opt_values (c_cflux (x_cnt x)) ++ opt_values (x_pure x))%list /\ p <> x_pure x.
Proof.
  exists both_fluxes.
  destruct (write_cntx_of cnt_sections both_fluxes) as [ls|] eqn:W; [|vm_compute in W; discriminate].
  destruct (read_cntx_with false ignore_pats [] ls) as [[r p]|] eqn:R;
    [|vm_compute in W; injection W as <-; vm_compute in R; discriminate].
  exists ls, r, p. vm_compute in W. injection W as <-. vm_compute in R. injection R as <- <-.
  repeat split; try discriminate.
Qed.

(* a 'pure_cflux' table alone does come back as written *)
Example C03_example_pure_only :
  match write_cntx_of cnt_sections pure_only with
  | Ok ls => show_rcntx (read_cntx_with false ignore_pats [] ls)
  | Err _ => ["ERROR"]
  end = ["SOLUTION HEAT"; "pure_cflux"; "3,7.000000000000E+00"].
Proof. vm_compute. reflexivity. Qed.

Example C03_example_both_fluxes :
  match write_cntx_of cnt_sections both_fluxes with
  | Ok ls => (firstn 5 (skipn 17 ls), show_rcntx (read_cntx_with false ignore_pats [] ls))
  | Err _ => ([], [])
  end = (["!CFLUX"; "1,1.500000000000E+00"; "2,2.500000000000E+00"; "!CFLUX, TYPE=PURE";
          "3,7.000000000000E+00"],
         ["SOLUTION HEAT"; "pure_cflux"; "1,1.500000000000E+00"; "2,2.500000000000E+00";
          "3,7.000000000000E+00"]).
Proof. vm_compute. reflexivity. Qed.

Print Assumptions C03_read_cntx_conservative.
Print Assumptions C03_cflux_with_pure_cflux_refuted.
Print Assumptions C03_cflux_with_pure_cflux_per_block_witness.
