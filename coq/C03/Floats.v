(* C03 — the conditions as the caller holds them: tables of binary64 values
   (definitions only).  A binary64 cell is (-1)^neg * m * 2^e ([b64]); NaN
   (= free) is [None].  [cnt_of fc] is the [cnt] the text model is run on:
   every value replaced by the decimal "%.<k>E" prints for it (Fmt.v; k = 5 for
   boundary, 6 for spring / cload, 12 for fixtemp / cflux). *)
From Coq Require Import String List Bool ZArith.
From FV.C01 Require Import Str Dec.
From FV.C03 Require Import Model Fmt.
Import ListNotations.
Local Open Scope string_scope.

Record b64 : Type := mkb64 { f_neg : bool; f_m : Z; f_e : Z }.

(* the decimal printed for x with k digits after the point; [fmt_dec] answers
   None only when its own certificate fails (never observed: correspondence) *)
Definition fmt_ok (k : Z) (x : b64) : bool :=
  match fmt_dec k (f_neg x) (f_m x) (f_e x) with Some _ => true | None => false end.
Definition fqd (k : Z) (x : b64) : dec :=
  match fmt_dec k (f_neg x) (f_m x) (f_e x) with Some d => d | None => dec_zero end.

Definition ftable : Type := list (Z * list (option b64)).
Definition fpresc : Type := (Z * (nat * b64))%type.

Definition fcell (row : Z * list (option b64)) (j : nat) : list fpresc :=
  match nth_error (snd row) j with
  | Some (Some v) => [(fst row, (S j, v))]
  | _ => []
  end.

(* the prescriptions (node id, dof, value) of a table of floats, row by row *)
Definition fprescriptions (t : ftable) : list fpresc :=
  flat_map (fun row => flat_map (fcell row) (seq 0 (length (snd row)))) t.

Definition dec_row (k : Z) (r : Z * list (option b64)) : Z * list (option dec) :=
  (fst r, map (option_map (fqd k)) (snd r)).
Definition dec_table (k : Z) (t : ftable) : table := map (dec_row k) t.
Definition dec_values (k : Z) (t : list (Z * b64)) : list (Z * dec) :=
  map (fun r => (fst r, fqd k (snd r))) t.
Definition round_presc (k : Z) (p : fpresc) : presc := (fst p, (fst (snd p), fqd k (snd (snd p)))).

Record fcnt : Type := mkfcnt {
  fc_solution : string;
  fc_only_solid : bool;
  fc_boundary : option ftable;
  fc_spring : option ftable;
  fc_cload : option ftable;
  fc_fixtemp : option (list (Z * b64));
  fc_cflux : option (list (Z * b64))
}.

Definition cnt_of (c : fcnt) : cnt :=
  mkcnt (fc_solution c) (fc_only_solid c)
        (option_map (dec_table 5) (fc_boundary c)) (option_map (dec_table 6) (fc_spring c))
        (option_map (dec_table 6) (fc_cload c))
        (option_map (dec_values 12) (fc_fixtemp c)) (option_map (dec_values 12) (fc_cflux c)).

Definition opt_fpresc (k : Z) (o : option ftable) : list presc :=
  match o with Some t => map (round_presc k) (fprescriptions t) | None => [] end.

