(* C03 — the constraint sections of write_cnt interpreted from a section table
   (the shape translate/c03_cnt.py reads from the source: key in
   fem_data.constraints, header line, which arrays go to write_data, formats).

   [cnt_blocks_of secs c] writes, in the order of the table, one block per row
   whose key is present in the conditions; [digits_of secs key] is the number
   of digits after the point of the row's real format ("E<k>"), and
   [cnt_of_secs secs fc] rounds the binary64 tables with those digits.
   Proved here for the table the hand model was written for
   ([modelled_sections]): the interpreter is Model.cnt_blocks / Floats.cnt_of.
   PropsSections.v instantiates this with the table translated on this run. *)
From Coq Require Import String Ascii List Bool ZArith.
From FV.C01 Require Import Str Dec.
From FV.C03 Require Import Model Fmt Floats.
From FV.C03.gen Require Import CntSections.
Import ListNotations.
Local Open Scope string_scope.
Set Default Timeout 120.

Definition sec : Type := (string * string * section_source * list string)%type.

Definition modelled_sections : list sec :=
  [("boundary", "!BOUNDARY", SrcGenBoth, ["d"; "E5"]);
   ("spring", "!SPRING", SrcSpring, ["d"; "E6"]);
   ("cload", "!CLOAD", SrcGenFirst, ["d"; "E6"]);
   ("fixtemp", "!FIXTEMP", SrcValues, ["E12"]);
   ("cflux", "!CFLUX", SrcValues, ["E12"]);
   ("pure_cflux", "!CFLUX, TYPE=PURE", SrcValues, ["E12"])].

(* fem_data.constraints[key] for the kinds the model carries ('pure_cflux' is not one) *)
Definition table_of (c : cnt) (key : string) : option table :=
  if key =? "boundary" then c_boundary c
  else if key =? "spring" then c_spring c
  else if key =? "cload" then c_cload c else None.
Definition values_of (c : cnt) (key : string) : option (list (Z * dec)) :=
  if key =? "fixtemp" then c_fixtemp c
  else if key =? "cflux" then c_cflux c else None.

(* one row of the table, given fem_data.constraints as two lookups *)
Definition sec_block_with (tab : string -> option table) (val : string -> option (list (Z * dec)))
           (s : sec) : result (list block) :=
  let '(key, header, src, _) := s in
  match src with
  | SrcGenBoth => opt_block (tab key)
      (fun t => l <- gen_constraints t ;; Ok (header, data_rows (map boundary_row l)))
  | SrcGenFirst => opt_block (tab key)
      (fun t => l <- gen_constraints t ;; Ok (header, data_rows (map dof_row l)))
  | SrcSpring => opt_block (tab key)
      (fun t => Ok (header, data_rows (map dof_row (prescriptions t))))
  | SrcValues => opt_block (val key)
      (fun t => Ok (header, data_rows (map value_row t)))
  end.

Fixpoint sec_blocks_with tab val (secs : list sec) : result (list block) :=
  match secs with
  | [] => Ok []
  | s :: rest => b <- sec_block_with tab val s ;; bs <- sec_blocks_with tab val rest ;; Ok (b ++ bs)%list
  end.

Definition sec_block (c : cnt) := sec_block_with (table_of c) (values_of c).
Definition sec_blocks (c : cnt) := sec_blocks_with (table_of c) (values_of c).

Definition frame_blocks (c : cnt) (bs : list block) : list block :=
  ([("!VERSION", ["5"]); (("!SOLUTION, TYPE=" ++ c_solution c)%string, [])]
   ++ (if String.eqb (c_solution c) "HEAT" then [("!HEAT", [])] else [])
   ++ [("!WRITE,RESULT, FREQUENCY=1", []); ("!WRITE,VISUAL, FREQUENCY=1", [])]
   ++ output_blocks (c_only_solid c)
   ++ bs ++ trailer_blocks)%list.

Definition cnt_blocks_of (secs : list sec) (c : cnt) : result (list block) :=
  bs <- sec_blocks c secs ;; Ok (frame_blocks c bs).

Definition write_cnt_of (secs : list sec) (c : cnt) : result (list string) :=
  bs <- cnt_blocks_of secs c ;; Ok (flatten bs).

(* digits after the point of the real format of a section: "E<k>" *)
Definition fmt_digits (f : string) : option Z :=
  match f with
  | String "E" r => parse_Z r
  | _ => None
  end.
Definition digits_of (secs : list sec) (key : string) : option Z :=
  match find (fun s : sec => let '(k, _, _, _) := s in k =? key) secs with
  | Some (_, _, _, fs) => fmt_digits (last fs "")
  | None => None
  end.

Definition opt_map2 {A B} (f : Z -> A -> B) (k : option Z) (o : option A) : option (option B) :=
  match o, k with
  | None, _ => Some None
  | Some a, Some k => Some (Some (f k a))
  | Some _, None => None
  end.

(* Floats.cnt_of with the digits of the section table; None when a present
   kind has no row / no real format in the table *)
Definition cnt_of_secs (secs : list sec) (fc : fcnt) : option cnt :=
  match opt_map2 dec_table (digits_of secs "boundary") (fc_boundary fc),
        opt_map2 dec_table (digits_of secs "spring") (fc_spring fc),
        opt_map2 dec_table (digits_of secs "cload") (fc_cload fc),
        opt_map2 dec_values (digits_of secs "fixtemp") (fc_fixtemp fc),
        opt_map2 dec_values (digits_of secs "cflux") (fc_cflux fc) with
  | Some b, Some s, Some l, Some f, Some x =>
    Some (mkcnt (fc_solution fc) (fc_only_solid fc) b s l f x)
  | _, _, _, _, _ => None
  end.

(* ------------------------------------------------------------------ *)
Lemma cnt_blocks_of_modelled c : cnt_blocks_of modelled_sections c = cnt_blocks c.
Proof.
  unfold cnt_blocks_of, cnt_blocks, frame_blocks, modelled_sections, sec_blocks, sec_blocks_with, sec_block_with.
  change (table_of c "boundary") with (c_boundary c).
  change (table_of c "spring") with (c_spring c).
  change (table_of c "cload") with (c_cload c).
  change (values_of c "fixtemp") with (c_fixtemp c).
  change (values_of c "cflux") with (c_cflux c).
  change (values_of c "pure_cflux") with (@None (list (Z * dec))).
  destruct (c_boundary c) as [tb|]; cbn [opt_block bind];
    [destruct (gen_constraints tb); cbn [bind]; [|reflexivity]|];
    (destruct (c_spring c) as [ts|]; cbn [opt_block bind];
     (destruct (c_cload c) as [tl|]; cbn [opt_block bind];
      [destruct (gen_constraints tl); cbn [bind]; [|reflexivity]|];
      (destruct (c_fixtemp c); cbn [opt_block bind];
       (destruct (c_cflux c); cbn [opt_block bind app]; reflexivity)))).
Qed.

Lemma write_cnt_of_modelled c : write_cnt_of modelled_sections c = write_cnt c.
Proof. unfold write_cnt_of, write_cnt. now rewrite cnt_blocks_of_modelled. Qed.

Lemma cnt_of_secs_modelled fc : cnt_of_secs modelled_sections fc = Some (cnt_of fc).
Proof.
  unfold cnt_of_secs, cnt_of.
  replace (digits_of modelled_sections "boundary") with (Some 5%Z) by (vm_compute; reflexivity).
  replace (digits_of modelled_sections "spring") with (Some 6%Z) by (vm_compute; reflexivity).
  replace (digits_of modelled_sections "cload") with (Some 6%Z) by (vm_compute; reflexivity).
  replace (digits_of modelled_sections "fixtemp") with (Some 12%Z) by (vm_compute; reflexivity).
  replace (digits_of modelled_sections "cflux") with (Some 12%Z) by (vm_compute; reflexivity).
  destruct (fc_boundary fc), (fc_spring fc), (fc_cload fc), (fc_fixtemp fc), (fc_cflux fc); reflexivity.
Qed.
