(* C03 proofs, part 4: the conditions as the caller holds them (Floats.v:
   tables of binary64 values) through the number layer (Fmt.v) into the model
   of the file and back. *)
From Coq Require Import String Ascii List Bool ZArith Lia Permutation Decimal.
From FV.C01 Require Import Str Dec ProofsText.
From FV.C03 Require Import Model ProofsRows ProofsText Fmt Floats.
Import ListNotations.
Local Open Scope string_scope.

(* shape: solution type a word; tables with >= 1 row, 3 dof cells per row and
   >= 1 prescription (any NaN pattern otherwise); value lists non-empty *)
Definition shape_table (t : ftable) : bool :=
  negb (is_nil t) && forallb (fun r => (length (snd r) =? 3)%nat) t
  && negb (is_nil (fprescriptions t)).
Definition shape_values (t : list (Z * b64)) : bool := negb (is_nil t).
Definition shape_ok (c : fcnt) : bool :=
  wordy (fc_solution c)
  && wf_opt shape_table (fc_boundary c) && wf_opt shape_table (fc_spring c)
  && wf_opt shape_table (fc_cload c)
  && wf_opt shape_values (fc_fixtemp c) && wf_opt shape_values (fc_cflux c).

(* ------------------------------------------------------------------ *)
(* every datum of the number layer is a well-formed decimal of the file *)
Lemma nb_digits_digit d u : nb_digits (digit d u) = S (nb_digits u).
Proof.
  unfold digit.
  repeat match goal with |- context [match ?x with _ => _ end] => destruct x end; reflexivity.
Qed.

Lemma nb_digits_digits n : forall z acc, nb_digits (digits n z acc) = (n + nb_digits acc)%nat.
Proof.
  induction n as [|n IH]; intros z acc; cbn [digits]; [reflexivity|].
  rewrite IH, nb_digits_digit. lia.
Qed.

Lemma dec_of_wf neg k N E : wf_dec_free (dec_of neg k N E) = true.
Proof.
  unfold wf_dec_free, wf_dec_p, dec_of; cbn [d_lead d_frac d_exp].
  rewrite nb_digits_digits. cbn [nb_digits Nat.add Nat.eqb andb].
  unfold exp_digits.
  destruct (Z.abs E <? 100)%Z; [|destruct (Z.abs E <? 1000)%Z]; rewrite nb_digits_digits; reflexivity.
Qed.

Lemma fqd_wf k x : wf_dec_free (fqd k x) = true.
Proof.
  unfold fqd, fmt_dec. destruct (f_m x =? 0)%Z; [apply dec_of_wf|].
  destruct (fmt_E k (f_m x) (f_e x)) as [[N E]|]; [apply dec_of_wf|reflexivity].
Qed.

(* ------------------------------------------------------------------ *)
Lemma cell_dec_row k row j : cell (dec_row k row) j = map (round_presc k) (fcell row j).
Proof.
  unfold cell, fcell, dec_row; cbn [fst snd]. rewrite nth_error_map.
  destruct (nth_error (snd row) j) as [[v|]|]; reflexivity.
Qed.

Lemma flat_map_map_out {A B C} (f : A -> list B) (g : B -> C) (h : A -> list C) l :
  (forall a, h a = map g (f a)) -> flat_map h l = map g (flat_map f l).
Proof.
  intros H. induction l as [|a l IH]; cbn; [reflexivity|]. now rewrite map_app, H, IH.
Qed.

Lemma prescriptions_dec_table k t :
  prescriptions (dec_table k t) = map (round_presc k) (fprescriptions t).
Proof.
  unfold prescriptions, fprescriptions, dec_table. rewrite flat_map_concat_map, map_map.
  rewrite <- flat_map_concat_map.
  apply flat_map_map_out. intros row.
  replace (length (snd (dec_row k row))) with (length (snd row))
    by (unfold dec_row; cbn [snd]; now rewrite map_length).
  apply flat_map_map_out. intros j. apply cell_dec_row.
Qed.

Lemma shape_table_wf k t : shape_table t = true -> wf_table (dec_table k t) = true.
Proof.
  unfold shape_table, wf_table. rewrite !andb_true_iff. intros [[Hn Hr] Hp]. repeat split.
  - unfold dec_table. destruct t; [discriminate|reflexivity].
  - unfold dec_table. rewrite forallb_forall in *. intros r Hin.
    apply in_map_iff in Hin as (r0 & <- & Hin). specialize (Hr r0 Hin).
    unfold dec_row; cbn [snd]. rewrite map_length, Hr. cbn [andb].
    apply forallb_forall. intros c Hc. apply in_map_iff in Hc as ([v|] & <- & _); cbn; [apply fqd_wf|reflexivity].
  - rewrite prescriptions_dec_table. destruct (fprescriptions t); [discriminate|reflexivity].
Qed.

Lemma shape_values_wf k t : shape_values t = true -> wf_values (dec_values k t) = true.
Proof.
  unfold shape_values, wf_values, dec_values. intros Hn. rewrite andb_true_iff. split.
  - destruct t; [discriminate|reflexivity].
  - apply forallb_forall. intros r Hin. apply in_map_iff in Hin as (r0 & <- & _). apply fqd_wf.
Qed.

Lemma shape_ok_wf c : shape_ok c = true -> wf_cnt (cnt_of c) = true.
Proof.
  unfold shape_ok, wf_cnt, cnt_of; cbn [c_solution c_boundary c_spring c_cload c_fixtemp c_cflux].
  rewrite !andb_true_iff. intros [[[[[Hs Hb] Hp] Hl] Hf] Hx]. repeat split; [exact Hs|..].
  - destruct (fc_boundary c); cbn in *; [now apply shape_table_wf|reflexivity].
  - destruct (fc_spring c); cbn in *; [now apply shape_table_wf|reflexivity].
  - destruct (fc_cload c); cbn in *; [now apply shape_table_wf|reflexivity].
  - destruct (fc_fixtemp c); cbn in *; [now apply shape_values_wf|reflexivity].
  - destruct (fc_cflux c); cbn in *; [now apply shape_values_wf|reflexivity].
Qed.

Lemma opt_presc_dec_table k o : opt_presc (option_map (dec_table k) o) = opt_fpresc k o.
Proof. destruct o; cbn; [apply prescriptions_dec_table|reflexivity]. Qed.

(* write -> read of conditions held as binary64 tables: the prescriptions read
   back are those of the tables with every value replaced by its "%.<k>E"
   decimal (k = 5 / 6 / 6 / 12 / 12) *)
Theorem cnt_roundtrip_binary64 pats ngs (fc : fcnt) :
  shape_ok fc = true ->
  exists ls r, write_cnt (cnt_of fc) = Ok ls /\ read_cnt_with pats ngs ls = Ok r /\
    r_solution r = fc_solution fc /\
    Permutation (opt_presc (r_boundary r)) (opt_fpresc 5 (fc_boundary fc)) /\
    opt_presc (r_spring r) = opt_fpresc 6 (fc_spring fc) /\
    Permutation (opt_presc (r_cload r)) (opt_fpresc 6 (fc_cload fc)) /\
    r_fixtemp r = option_map (dec_values 12) (fc_fixtemp fc) /\
    r_cflux r = option_map (dec_values 12) (fc_cflux fc).
Proof.
  intros S. destruct (cnt_roundtrip pats ngs (cnt_of fc) (shape_ok_wf fc S))
    as (ls & r & Hw & Hr & Hs & Hb & Hp & Hl & Hf & Hx).
  exists ls, r. unfold cnt_of in Hs, Hb, Hp, Hl, Hf, Hx;
    cbn [c_solution c_boundary c_spring c_cload c_fixtemp c_cflux] in *.
  rewrite opt_presc_dec_table in Hb, Hp, Hl. repeat split; assumption.
Qed.

(* what [fqd] means: for a non-zero finite value the decimal is built from the
   certified digits of Fmt.fmt_E (k+1 significant digits within half a unit of
   the last one: Fmt.fmt_E_correct); zero prints as 0.0...0E+00 with its sign *)
Lemma fqd_digits k x : fmt_ok k x = true -> f_m x <> 0%Z ->
  exists N E, fmt_E k (f_m x) (f_e x) = Some (N, E) /\ fqd k x = dec_of (f_neg x) k N E.
Proof.
  unfold fmt_ok, fqd, fmt_dec. intros H Hm. apply Z.eqb_neq in Hm. rewrite Hm in *.
  destruct (fmt_E k (f_m x) (f_e x)) as [[N E]|]; [|discriminate]. now exists N, E.
Qed.
