(* C03 proofs, part 1: rows of the constraint sections, prescriptions of the
   tables read back, column-major vs row-major enumeration. *)
From Coq Require Import String Ascii List Bool ZArith Lia Permutation.
From FV.C01 Require Import Str Dec Model ProofsLines ProofsHeaders ProofsAux ProofsText.
From FV.C03 Require Import Model.
Import ListNotations.
Local Open Scope string_scope.

(* ------------------------------------------------------------------ *)
(* rows are well-formed lines, and their fields                       *)
Lemma print_nat_clean n : clean (print_nat n) = true.
Proof. apply print_Z_clean. Qed.

Ltac clean_fields :=
  intros x Hx; simpl in Hx;
  repeat (destruct Hx as [<-|Hx]; [first [apply print_Z_clean | apply print_dec_clean]|]);
  destruct Hx.

Lemma boundary_row_good p :
  is_header (boundary_row p) = false /\ safe_line (boundary_row p) = true.
Proof. unfold boundary_row. apply row_good; [apply print_Z_nonempty|clean_fields]. Qed.

Lemma dof_row_good p : is_header (dof_row p) = false /\ safe_line (dof_row p) = true.
Proof. unfold dof_row. apply row_good; [apply print_Z_nonempty|clean_fields]. Qed.

Lemma value_row_good r : is_header (value_row r) = false /\ safe_line (value_row r) = true.
Proof. unfold value_row. apply row_good; [apply print_Z_nonempty|clean_fields]. Qed.

Lemma fields_boundary_row p :
  fields (boundary_row p)
  = [print_Z (fst p); print_nat (fst (snd p)); print_nat (fst (snd p)); print_dec (snd (snd p))].
Proof. unfold boundary_row. apply fields_join; [discriminate|clean_fields]. Qed.

Lemma fields_dof_row p :
  fields (dof_row p) = [print_Z (fst p); print_nat (fst (snd p)); print_dec (snd (snd p))].
Proof. unfold dof_row. apply fields_join; [discriminate|clean_fields]. Qed.

Lemma fields_value_row r : fields (value_row r) = [print_Z (fst r); print_dec (snd r)].
Proof. unfold value_row. apply fields_join; [discriminate|clean_fields]. Qed.

(* ------------------------------------------------------------------ *)
(* parsing a row back                                                 *)
Definition dof_ok (d : nat) : bool := ((1 <=? d) && (d <=? 3))%nat.

Lemma parse_dof_print d : dof_ok d = true -> parse_dof (print_nat d) = Ok d.
Proof.
  unfold dof_ok, parse_dof, print_nat. rewrite andb_true_iff, !Nat.leb_le. intros [H1 H2].
  rewrite parse_Zf_print. cbn [bind].
  assert (E : ((1 <=? Z.of_nat d) && (Z.of_nat d <=? 3))%Z = true).
  { rewrite andb_true_iff, !Z.leb_le. lia. }
  rewrite E. now rewrite Nat2Z.id.
Qed.

Lemma parse_decv_print v : wf_dec_free v = true -> parse_decv (print_dec v) = Ok v.
Proof. intros H. unfold parse_decv. now rewrite parse_print_dec_free. Qed.

Definition presc_ok (p : presc) : bool := dof_ok (fst (snd p)) && wf_dec_free (snd (snd p)).

Definition presc_row (p : presc) : Z * list (option dec) :=
  (fst p, span_cells (fst (snd p)) (fst (snd p)) (snd (snd p))).

Lemma read_boundary_row_ok p :
  presc_ok p = true -> read_boundary_row (fields (boundary_row p)) = Ok (presc_row p).
Proof.
  unfold presc_ok. rewrite andb_true_iff. intros [Hd Hv].
  rewrite fields_boundary_row. unfold read_boundary_row.
  rewrite parse_Zf_print. cbn [bind]. rewrite (parse_dof_print _ Hd). cbn [bind].
  rewrite (parse_decv_print _ Hv). reflexivity.
Qed.

Lemma read_dof_row_ok p :
  presc_ok p = true -> read_dof_row (fields (dof_row p)) = Ok (presc_row p).
Proof.
  unfold presc_ok. rewrite andb_true_iff. intros [Hd Hv].
  rewrite fields_dof_row. unfold read_dof_row.
  rewrite parse_Zf_print. cbn [bind]. rewrite (parse_dof_print _ Hd). cbn [bind].
  rewrite (parse_decv_print _ Hv). reflexivity.
Qed.

Lemma read_value_row_ok r :
  wf_dec_free (snd r) = true -> read_value_row (fields (value_row r)) = Ok r.
Proof.
  intros Hv. rewrite fields_value_row. unfold read_value_row.
  rewrite parse_Zf_print. cbn [bind]. rewrite (parse_decv_print _ Hv). now destruct r.
Qed.

(* the table read back has one row per written prescription and exactly
   these prescriptions *)
Lemma prescriptions_presc_rows l :
  (forall p, In p l -> dof_ok (fst (snd p)) = true) ->
  prescriptions (map presc_row l) = l.
Proof.
  induction l as [|p l IH]; intros H; [reflexivity|].
  unfold prescriptions in *. cbn [map flat_map]. rewrite IH by (intros; apply H; now right).
  assert (Hp : dof_ok (fst (snd p)) = true) by (apply H; now left).
  destruct p as [i [d v]]. cbn [fst snd] in *. unfold dof_ok in Hp.
  apply andb_true_iff in Hp as [H1 H2]. apply Nat.leb_le in H1. apply Nat.leb_le in H2.
  destruct d as [|[|[|[|d]]]]; try lia; reflexivity.
Qed.

(* ------------------------------------------------------------------ *)
(* column-major (writer) vs row-major enumeration                     *)
Lemma flat_map_app_perm {A B} (g h : A -> list B) l :
  Permutation (flat_map (fun a => g a ++ h a)%list l) (flat_map g l ++ flat_map h l).
Proof.
  induction l as [|a l IH]; simpl; [constructor|].
  rewrite IH. rewrite <- !app_assoc. apply Permutation_app_head.
  rewrite !app_assoc. apply Permutation_app_tail. apply Permutation_app_comm.
Qed.

Lemma flat_map_swap {A B C} (f : A -> B -> list C) la lb :
  Permutation (flat_map (fun a => flat_map (f a) lb) la)
              (flat_map (fun b => flat_map (fun a => f a b) la) lb).
Proof.
  induction la as [|a la IH]; simpl.
  - induction lb; simpl; [constructor|assumption].
  - rewrite IH. symmetry. apply flat_map_app_perm.
Qed.

Lemma flat_map_ext_in {A B} (f g : A -> list B) l :
  (forall a, In a l -> f a = g a) -> flat_map f l = flat_map g l.
Proof.
  induction l; simpl; intros H; [reflexivity|].
  rewrite (H a) by now left. rewrite IHl by (intros; apply H; now right). reflexivity.
Qed.

Definition rect (k : nat) (t : table) : Prop := forall r, In r t -> length (snd r) = k.

Lemma gen_perm t k :
  t <> [] -> rect k t ->
  Permutation (flat_map (fun j => flat_map (fun row => cell row j) t) (seq 0 (ncols t)))
              (prescriptions t).
Proof.
  intros Hne Hr. unfold prescriptions.
  assert (Hk : ncols t = k).
  { destruct t as [|r t']; [congruence|]. simpl. apply Hr. now left. }
  rewrite Hk.
  rewrite (flat_map_ext_in (fun row => flat_map (cell row) (seq 0 (length (snd row))))
                           (fun row => flat_map (cell row) (seq 0 k))).
  - symmetry. apply (flat_map_swap (fun row j => cell row j)).
  - intros row Hin. now rewrite (Hr row Hin).
Qed.
