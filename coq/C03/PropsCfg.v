(* C03 — per-run obligation on the translated effect program of
   FEMData.write('fistr'): on every path the first write to <name>.cnt opens
   the file with mode 'w', so the lines of Model.write_cnt are the whole file
   also when an earlier export exists (overwrite=True). *)
From Coq Require Import Bool.
From FV.C01.gen Require Import Tables.

Theorem C03_cnt_file_truncated : cnt_truncated = true.
Proof. vm_compute. reflexivity. Qed.
