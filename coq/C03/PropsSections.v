(* C03 — per-run obligation on the translated section table of
   FistrWriter.write_cnt (translate/c03_cnt.py -> gen/CntSections.v): the
   sections written from fem_data.constraints — key, header line, which
   arrays go to write_data, digits of the formats — are the ones the hand
   model Model.cnt_blocks writes (!BOUNDARY: column-major, dof twice, %.5E;
   !SPRING: row-major, %5E = 6 digits; !CLOAD: column-major, dof once, 6
   digits; !FIXTEMP / !CFLUX / !CFLUX, TYPE=PURE: id, value with 12 digits),
   in this order.  ('pure_cflux' is written by femio but is outside the model:
   the reader model answers Err on TYPE= of !CFLUX.) *)
From Coq Require Import String List.
From FV.C03.gen Require Import CntSections.
Import ListNotations.
Local Open Scope string_scope.

Definition modelled_sections : list (string * string * section_source * list string) :=
  [("boundary", "!BOUNDARY", SrcGenBoth, ["d"; "E5"]);
   ("spring", "!SPRING", SrcSpring, ["d"; "E6"]);
   ("cload", "!CLOAD", SrcGenFirst, ["d"; "E6"]);
   ("fixtemp", "!FIXTEMP", SrcValues, ["E12"]);
   ("cflux", "!CFLUX", SrcValues, ["E12"]);
   ("pure_cflux", "!CFLUX, TYPE=PURE", SrcValues, ["E12"])].

Theorem C03_cnt_sections_as_modelled : cnt_sections = modelled_sections.
Proof. vm_compute. reflexivity. Qed.
