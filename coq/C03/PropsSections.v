(* C03 — per-run obligations on the translated section table of
   FistrWriter.write_cnt (translate/c03_cnt.py -> gen/CntSections.v).

   Sections.v interprets a section table: [write_cnt_of secs c] writes the
   constraint sections in the order, with the headers and from the arrays the
   table says, [cnt_of_secs secs fc] rounds binary64 tables with the digits of
   the table's formats.  Here the table is the one translated from the tree
   under test on this run:
   - it is the table the hand model was written for (!BOUNDARY: column-major,
     dof twice, %.5E; !SPRING: row-major, %5E = 6 digits; !CLOAD: column-major,
     dof once, 6 digits; !FIXTEMP / !CFLUX / !CFLUX, TYPE=PURE: id, value with
     12 digits; in this order);
   - hence the writer interpreted from the translated table is Model.write_cnt,
     and the round-trip theorems hold for it — from decimal tables and from
     binary64 tables rounded with the translated digits.
   ('pure_cflux' is written by femio but is outside the model: no such kind in
   [cnt]; the reader model answers Err on TYPE= of !CFLUX.) *)
From Coq Require Import String List ZArith Permutation.
From FV.C01 Require Import Str Dec.
From FV.C03 Require Import Model ProofsRows ProofsText Floats ProofsFloats Sections.
From FV.C03 Require Props.
From FV.C03.gen Require Import CntSections.
Import ListNotations.
Local Open Scope string_scope.
Set Default Timeout 120.

Theorem C03_cnt_sections_as_modelled : cnt_sections = modelled_sections.
Proof. vm_compute. reflexivity. Qed.

(* the writer interpreted from the translated table is the hand model *)
Theorem C03_translated_sections_writer :
  forall c : cnt, write_cnt_of cnt_sections c = write_cnt c.
Proof. intros c. rewrite C03_cnt_sections_as_modelled. apply write_cnt_of_modelled. Qed.

(* C03_cnt_roundtrip for the writer interpreted from the translated table *)
Theorem C03_cnt_roundtrip_translated_sections :
  forall (pats : list ipat) (ngs : list (string * list Z)) (c : cnt), wf_cnt c = true ->
  exists ls r, write_cnt_of cnt_sections c = Ok ls /\ read_cnt_with pats ngs ls = Ok r /\
    r_solution r = c_solution c /\
    Permutation (opt_presc (r_boundary r)) (opt_presc (c_boundary c)) /\
    opt_presc (r_spring r) = opt_presc (c_spring c) /\
    Permutation (opt_presc (r_cload r)) (opt_presc (c_cload c)) /\
    r_fixtemp r = c_fixtemp c /\ r_cflux r = c_cflux c.
Proof.
  intros pats ngs c W. rewrite C03_translated_sections_writer. now apply cnt_roundtrip.
Qed.

(* binary64 tables, rounded with the digits of the translated formats and
   written by the writer interpreted from the translated table: the digits are
   5 / 6 / 6 / 12 / 12 and the prescriptions read back are the rounded ones *)
Theorem C03_cnt_roundtrip_binary64_translated_sections :
  forall (pats : list ipat) (ngs : list (string * list Z)) (fc : fcnt), shape_ok fc = true ->
  exists c ls r, cnt_of_secs cnt_sections fc = Some c /\ c = cnt_of fc /\
    write_cnt_of cnt_sections c = Ok ls /\ read_cnt_with pats ngs ls = Ok r /\
    r_solution r = fc_solution fc /\
    Permutation (opt_presc (r_boundary r)) (opt_fpresc 5 (fc_boundary fc)) /\
    opt_presc (r_spring r) = opt_fpresc 6 (fc_spring fc) /\
    Permutation (opt_presc (r_cload r)) (opt_fpresc 6 (fc_cload fc)) /\
    r_fixtemp r = option_map (dec_values 12) (fc_fixtemp fc) /\
    r_cflux r = option_map (dec_values 12) (fc_cflux fc).
Proof.
  intros pats ngs fc S.
  destruct (cnt_roundtrip_binary64 pats ngs fc S) as (ls & r & H).
  exists (cnt_of fc), ls, r. rewrite C03_cnt_sections_as_modelled at 1.
  rewrite cnt_of_secs_modelled, C03_translated_sections_writer. repeat split; apply H.
Qed.

(* non-vacuity: the interpreter on the translated table writes the sections of
   the examples of Props.v, and reads their digits from the table *)
Example C03_example_sections :
  match write_cnt_of cnt_sections Props.example_cnt with
  | Ok ls => firstn 2 (skipn 16 ls)
  | Err _ => []
  end = ["!BOUNDARY"; "5,1,1,0.00000E+00"] /\
  map (digits_of cnt_sections) ["boundary"; "spring"; "cload"; "fixtemp"; "cflux"]
  = [Some 5; Some 6; Some 6; Some 12; Some 12]%Z /\
  cnt_of_secs cnt_sections Props.example_fcnt = Some (cnt_of Props.example_fcnt) /\
  shape_ok Props.example_fcnt = true.
Proof. vm_compute. repeat split. Qed.

Print Assumptions C03_translated_sections_writer.
Print Assumptions C03_cnt_roundtrip_translated_sections.
Print Assumptions C03_cnt_roundtrip_binary64_translated_sections.
