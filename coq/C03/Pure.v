(* C03 — the sixth kind of nodal condition the writer knows: 'pure_cflux'
   (section "!CFLUX, TYPE=PURE"), and the label decision of
   FrontISTRData._read_cnt_cflux:

     cfluxes = extract_data('!CFLUX')            # rows of EVERY block whose header contains !CFLUX
     types   = extract_headers('!CFLUX').extract_captures(r'TYPE=(\w+)')
     no row -> nothing; no TYPE= -> 'cflux'; one TYPE=, PURE -> 'pure_cflux'; another -> ValueError;
     two or more TYPE= -> ValueError (a pandas Series compared with the one-element list ['PURE'])

   Writer: the section table interpreter of Sections.v with 'pure_cflux' among
   the value kinds.  Definitions, the conservativity lemma (files without
   TYPE= on !CFLUX are read as by Model.read_cnt_with) and the refutation of the
   round trip for conditions that hold both 'cflux' and 'pure_cflux'. *)
From Coq Require Import String Ascii List Bool ZArith.
From FV.C01 Require Import Str Dec.
From FV.C03 Require Import Model Sections.
Import ListNotations.
Local Open Scope string_scope.
Set Default Timeout 120.

(* conditions with the sixth kind *)
Record cntx : Type := mkcntx { x_cnt : cnt; x_pure : option (list (Z * dec)) }.

Definition values_of_x (x : cntx) (key : string) : option (list (Z * dec)) :=
  if key =? "pure_cflux" then x_pure x else values_of (x_cnt x) key.

Definition write_cntx_of (secs : list sec) (x : cntx) : result (list string) :=
  bs <- sec_blocks_with (table_of (x_cnt x)) (values_of_x x) secs ;;
  Ok (flatten (frame_blocks (x_cnt x) bs)).

(* reader: Model.read_cnt_with with the label decision of _read_cnt_cflux *)
(* rows -> table of one label (read_kind on given rows) *)
Definition read_rows_kind (ngs : list (string * list Z)) (rows : list (list string))
  : result (option (list (Z * dec))) :=
  match rows with
  | [] => Ok None
  | _ => rows' <- extend ngs rows ;; t <- mapM read_value_row rows' ;; Ok (Some t)
  end.

Definition typed_block (b : pblock) : bool :=
  match capture "TYPE=" (fst b) with Some _ => true | None => false end.
Definition selected := FV.C01.Model.selected.

(* [per_block] = the translated flag: with one TYPE=PURE block, the blocks without TYPE= are
   labelled 'cflux' (true: each block by its own header) or everything is 'pure_cflux' (false) *)
Definition read_cntx_with (per_block : bool) (pats : list ipat) (ngs : list (string * list Z))
           (ls : list string) : result (rcnt * option (list (Z * dec))) :=
  sol <- read_solution (filter (keep pats) ls) ;;
  let bs := parse_blocks pats ls in
  sp <- read_kind "!SPRING" ngs read_dof_row bs ;;
  bd <- read_kind "!BOUNDARY" ngs read_boundary_row bs ;;
  cl <- read_kind "!CLOAD" ngs read_dof_row bs ;;
  ft <- read_kind "!FIXTEMP" ngs read_value_row bs ;;
  match extract_data "!CFLUX" bs with
  | [] => Ok (mkrcnt sol bd sp cl ft None, None)
  | _ =>
    match captures "TYPE=" (extract_headers "!CFLUX" bs) with
    | [] => cf <- read_kind "!CFLUX" ngs read_value_row bs ;; Ok (mkrcnt sol bd sp cl ft cf, None)
    | [t] => if String.eqb t "PURE"
             then if per_block
                  then cf <- read_rows_kind ngs (concat (map snd (filter (fun b => negb (typed_block b))
                                                                         (selected "!CFLUX" bs)))) ;;
                       pf <- read_rows_kind ngs (concat (map snd (filter typed_block (selected "!CFLUX" bs)))) ;;
                       Ok (mkrcnt sol bd sp cl ft cf, pf)
                  else cf <- read_kind "!CFLUX" ngs read_value_row bs ;; Ok (mkrcnt sol bd sp cl ft None, cf)
             else Err "ValueError: Unsupported CFLUX configuration"
    | _ :: _ :: _ => Err "ValueError: Lengths must match to compare (types == ['PURE'] on a Series)"
    end
  end.

Definition show_rcntx (r : result (rcnt * option (list (Z * dec)))) : list string :=
  match r with
  | Err _ => ["ERROR"]
  | Ok (c, p) => (show_rcnt (Ok c) ++ show_values "pure_cflux" p)%list
  end.

(* ------------------------------------------------------------------ *)
(* files the base model reads are read the same way, with no pure_cflux *)
Lemma read_cntx_conservative per_block pats ngs ls r :
  read_cnt_with pats ngs ls = Ok r -> read_cntx_with per_block pats ngs ls = Ok (r, None).
Proof.
  unfold read_cnt_with, read_cntx_with.
  destruct (read_solution (filter (keep pats) ls)) as [sol|]; cbn [bind]; [|discriminate].
  destruct (read_kind "!SPRING" ngs read_dof_row (parse_blocks pats ls)) as [sp|]; cbn [bind]; [|discriminate].
  destruct (read_kind "!BOUNDARY" ngs read_boundary_row (parse_blocks pats ls)) as [bd|]; cbn [bind]; [|discriminate].
  destruct (read_kind "!CLOAD" ngs read_dof_row (parse_blocks pats ls)) as [cl|]; cbn [bind]; [|discriminate].
  destruct (read_kind "!FIXTEMP" ngs read_value_row (parse_blocks pats ls)) as [ft|]; cbn [bind]; [|discriminate].
  destruct (captures "TYPE=" (extract_headers "!CFLUX" (parse_blocks pats ls))); [|discriminate].
  unfold read_kind at 1.
  destruct (extract_data "!CFLUX" (parse_blocks pats ls)) eqn:E.
  - cbn [bind]. intros H; injection H as <-. reflexivity.
  - unfold read_kind. rewrite E.
    destruct (extend ngs (l :: l0)) as [rows'|]; cbn [bind]; [|discriminate].
    destruct (mapM read_value_row rows') as [t|]; cbn [bind]; [|discriminate].
    intros H; injection H as <-. reflexivity.
Qed.

(* the writer without the sixth kind is the section-table writer of Sections.v *)
Lemma values_of_x_none c key : values_of_x (mkcntx c None) key = values_of c key.
Proof.
  unfold values_of_x; cbn [x_pure x_cnt]. destruct (key =? "pure_cflux") eqn:E; [|reflexivity].
  apply String.eqb_eq in E. subst key. reflexivity.
Qed.

(* ------------------------------------------------------------------ *)
(* 'cflux' {1: 1.5, 2: 2.5} together with 'pure_cflux' {3: 7.0} *)
Definition dq (s : string) : dec := match parse_dec_free s with Some d => d | None => dec_zero end.
Definition both_fluxes : cntx :=
  mkcntx (mkcnt "HEAT" true None None None None
                (Some [(1%Z, dq "1.500000000000E+00"); (2%Z, dq "2.500000000000E+00")]))
         (Some [(3%Z, dq "7.000000000000E+00")]).

Definition pure_only : cntx :=
  mkcntx (mkcnt "HEAT" true None None None None None) (Some [(3%Z, dq "7.000000000000E+00")]).
