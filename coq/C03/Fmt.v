(* C03 — the number layer of the .cnt writer: C printf "%.<k>E" of a binary64.

   write_data formats every value with '%.5E' (!BOUNDARY), '%5E' (= '%.6E',
   !SPRING / !CLOAD) or '%.12E' (!FIXTEMP / !CFLUX).  A finite binary64 is
   (-1)^neg * m * 2^e with m, e integers; [fmt_E k m e] computes the k+1
   significant decimal digits N and the decimal exponent E that printf emits
   (exact value rounded half-to-even at the last digit), [fmt_dec] the [dec]
   datum the model of the text is built from.

   [fmt_E] certifies its answer: it returns [Some (N, E)] only after checking,
   in exact integer arithmetic, that N has exactly k+1 digits and that
   N * 10^(E-k) is within half a unit of the last digit of m * 2^e.  The
   theorems turn that check into statements over Q; that the function never
   answers [None] and that its digits are the bytes femio writes is checked by
   the correspondence on every value of every run. *)
From Coq Require Import String List Bool ZArith Lia QArith Qpower Qabs Decimal.
From FV.C01 Require Import Str Dec.
Import ListNotations.
Local Open Scope Z_scope.

(* round half to even of a / b  (0 <= a, 0 < b) *)
Definition rhe (a b : Z) : Z :=
  let q := a / b in
  let r := a mod b in
  if 2 * r <? b then q
  else if b <? 2 * r then q + 1
  else if Z.even q then q else q + 1.

(* m * 2^e / 10^s as a fraction of integers *)
Definition scaled (m e s : Z) : Z * Z :=
  (m * 2 ^ (Z.max e 0) * 10 ^ (Z.max (- s) 0), 2 ^ (Z.max (- e) 0) * 10 ^ (Z.max s 0)).

(* 10^E <= m * 2^e < 10^(E+1) *)
Definition in_decade (m e E : Z) : bool :=
  let '(a, b) := scaled m e E in (b <=? a) && (a <? 10 * b).

Definition dec_exp (m e : Z) : option Z :=
  let E0 := ((Z.log2 m + e) * 30103) / 100000 in
  find (in_decade m e) [E0; E0 + 1; E0 - 1].

(* the check: N has k+1 digits and | N * 10^(E-k) - m * 2^e | <= 10^(E-k) / 2 *)
Definition certified (k m e N E : Z) : bool :=
  let '(a, b) := scaled m e (E - k) in
  (10 ^ k <=? N) && (N <? 10 ^ (k + 1)) && (2 * (N * b - a) <=? b) && (2 * (a - N * b) <=? b).

Definition fmt_E (k m e : Z) : option (Z * Z) :=
  match dec_exp m e with
  | None => None
  | Some E0 =>
    let '(a, b) := scaled m e (E0 - k) in
    let N0 := rhe a b in
    let '(N, E) := if N0 =? 10 ^ (k + 1) then (10 ^ k, E0 + 1) else (N0, E0) in
    if (0 <? m) && (0 <=? k) && certified k m e N E then Some (N, E) else None
  end.

(* ------------------------------------------------------------------ *)
(* digits -> the [dec] datum of C01 (lead digit, k fractional digits, exponent of >= 2 digits) *)
Definition digit (d : Z) (u : uint) : uint :=
  match d with
  | 0 => D0 u | 1 => D1 u | 2 => D2 u | 3 => D3 u | 4 => D4 u
  | 5 => D5 u | 6 => D6 u | 7 => D7 u | 8 => D8 u | _ => D9 u
  end.

(* the [n] low decimal digits of [z], most significant first, in front of [acc] *)
Fixpoint digits (n : nat) (z : Z) (acc : uint) : uint :=
  match n with
  | O => acc
  | S n' => digits n' (z / 10) (digit (z mod 10) acc)
  end.

Definition exp_digits (E : Z) : uint :=
  let a := Z.abs E in
  if a <? 100 then digits 2 a Nil else if a <? 1000 then digits 3 a Nil else digits 4 a Nil.

Definition dec_of (neg : bool) (k N E : Z) : dec :=
  mkdec neg (digits 1 (N / 10 ^ k) Nil) (digits (Z.to_nat k) (N mod 10 ^ k) Nil)
        (E <? 0) (exp_digits E).

(* "%.<k>E" % x for x = (-1)^neg * m * 2^e; m = 0 is +-0.0 *)
Definition fmt_dec (k : Z) (neg : bool) (m e : Z) : option dec :=
  if m =? 0 then Some (dec_of neg k 0 0)
  else match fmt_E k m e with
       | Some (N, E) => Some (dec_of neg k N E)
       | None => None
       end.

Definition fmt_text (k : Z) (neg : bool) (m e : Z) : string :=
  match fmt_dec k neg m e with Some d => print_dec d | None => "ERROR" end.

(* ------------------------------------------------------------------ *)
Lemma rhe_bound a b : 0 <= a -> 0 < b ->
  2 * (rhe a b * b - a) <= b /\ 2 * (a - rhe a b * b) <= b.
Proof.
  intros Ha Hb. unfold rhe.
  pose proof (Z.div_mod a b ltac:(lia)) as D.
  pose proof (Z.mod_pos_bound a b Hb) as R.
  set (q := a / b) in *. set (r := a mod b) in *.
  assert (E1 : q * b - a = - r) by lia.
  assert (E2 : (q + 1) * b - a = b - r) by lia.
  destruct (2 * r <? b) eqn:C1; [apply Z.ltb_lt in C1; lia|apply Z.ltb_ge in C1].
  destruct (b <? 2 * r) eqn:C2; [apply Z.ltb_lt in C2; lia|apply Z.ltb_ge in C2].
  destruct (Z.even q); lia.
Qed.

Lemma scaled_pos m e s : 0 < m -> 0 < fst (scaled m e s) /\ 0 < snd (scaled m e s).
Proof.
  intros Hm. unfold scaled; cbn [fst snd].
  assert (0 < 2 ^ Z.max e 0) by (apply Z.pow_pos_nonneg; lia).
  assert (0 < 10 ^ Z.max (- s) 0) by (apply Z.pow_pos_nonneg; lia).
  assert (0 < 2 ^ Z.max (- e) 0) by (apply Z.pow_pos_nonneg; lia).
  assert (0 < 10 ^ Z.max s 0) by (apply Z.pow_pos_nonneg; lia).
  split; repeat apply Z.mul_pos_pos; assumption.
Qed.

(* the fraction [scaled m e s] is m * 2^e / 10^s *)
Local Open Scope Q_scope.

Lemma Qpow_split (c : Z) (z : Z) : (0 < c)%Z ->
  inject_Z (c ^ Z.max z 0) / inject_Z (c ^ Z.max (- z) 0) == inject_Z c ^ z.
Proof.
  intros Hc.
  assert (NZ : ~ inject_Z c == 0).
  { intros H. unfold Qeq in H; cbn in H. lia. }
  destruct (Z_le_gt_dec 0 z) as [P|P].
  - rewrite Z.max_l by lia. rewrite (Z.max_r (- z) 0) by lia.
    rewrite Z.pow_0_r. rewrite Zpower_Qpower by lia.
    set (p := inject_Z c ^ z). change (inject_Z 1) with 1. field.
  - rewrite Z.max_r by lia. rewrite (Z.max_l (- z) 0) by lia.
    rewrite Z.pow_0_r. rewrite Zpower_Qpower by lia.
    assert (NP : ~ inject_Z c ^ (- z) == 0) by (apply Qpower_not_0; exact NZ).
    assert (E : inject_Z c ^ z == / inject_Z c ^ (- z)).
    { rewrite <- Qpower_opp. replace (- - z)%Z with z by lia. reflexivity. }
    rewrite E.
    set (p := inject_Z c ^ (- z)) in *. change (inject_Z 1) with 1. field. exact NP.
Qed.

Lemma inj_pow_nz (c z : Z) : (0 < c)%Z -> (0 <= z)%Z -> ~ inject_Z (c ^ z) == 0.
Proof.
  intros Hc Hz H. unfold Qeq in H; cbn in H.
  pose proof (Z.pow_pos_nonneg c z Hc Hz). lia.
Qed.

(* the binary64 and one unit of the decimal position s, over Q *)
Definition value (m e : Z) : Q := inject_Z m * inject_Z 2 ^ e.
Definition ulp (s : Z) : Q := inject_Z 10 ^ s.

Lemma ulp_pos s : 0 < ulp s.
Proof. unfold ulp. apply Qpower_0_lt. reflexivity. Qed.

Lemma scaled_value m e s :
  inject_Z (fst (scaled m e s)) / inject_Z (snd (scaled m e s)) == value m e / ulp s.
Proof.
  unfold scaled, value, ulp; cbn [fst snd].
  rewrite <- (Qpow_split 2 e) by lia.
  rewrite <- (Qpow_split 10 s) by lia.
  rewrite !inject_Z_mult.
  pose proof (inj_pow_nz 2 (Z.max e 0) ltac:(lia) ltac:(lia)) as N1.
  pose proof (inj_pow_nz 2 (Z.max (- e) 0) ltac:(lia) ltac:(lia)) as N2.
  pose proof (inj_pow_nz 10 (Z.max s 0) ltac:(lia) ltac:(lia)) as N3.
  pose proof (inj_pow_nz 10 (Z.max (- s) 0) ltac:(lia) ltac:(lia)) as N4.
  set (a1 := inject_Z (2 ^ Z.max e 0)) in *. set (a2 := inject_Z (2 ^ Z.max (- e) 0)) in *.
  set (a3 := inject_Z (10 ^ Z.max s 0)) in *. set (a4 := inject_Z (10 ^ Z.max (- s) 0)) in *.
  field. repeat split; assumption.
Qed.

(* integer inequality on a fraction a/b == v/u  ->  inequality over Q *)
Lemma frac_bound (a b n : Z) (v u : Q) : (0 < b)%Z -> 0 < u ->
  inject_Z a / inject_Z b == v / u ->
  (2 * (n * b - a) <= b)%Z -> (2 * (a - n * b) <= b)%Z ->
  inject_Z n * u - v <= (1 # 2) * u /\ v - inject_Z n * u <= (1 # 2) * u.
Proof.
  intros Hb Hu E H1 H2.
  assert (Bq : 0 < inject_Z b) by (change 0 with (inject_Z 0); rewrite <- Zlt_Qlt; exact Hb).
  assert (NB : ~ inject_Z b == 0) by (intros X; rewrite X in Bq; discriminate).
  assert (NU : ~ u == 0) by (intros X; rewrite X in Hu; discriminate).
  assert (V : v == inject_Z a / inject_Z b * u) by (rewrite E; field; exact NU).
  assert (Q1 : 2 * (inject_Z n * inject_Z b - inject_Z a) <= inject_Z b).
  { rewrite Zle_Qle in H1. unfold Z.sub in H1.
    rewrite inject_Z_mult, inject_Z_plus, inject_Z_mult, inject_Z_opp in H1. exact H1. }
  assert (Q2 : 2 * (inject_Z a - inject_Z n * inject_Z b) <= inject_Z b).
  { rewrite Zle_Qle in H2. unfold Z.sub in H2.
    rewrite inject_Z_mult, inject_Z_plus, inject_Z_opp, inject_Z_mult in H2. exact H2. }
  set (A := inject_Z a) in *. set (B := inject_Z b) in *. set (N := inject_Z n) in *.
  assert (S1 : N * u - v == (N * B - A) * (u / B)) by (rewrite V; field; exact NB).
  assert (S2 : v - N * u == (A - N * B) * (u / B)) by (rewrite V; field; exact NB).
  assert (S3 : (1 # 2) * u == ((1 # 2) * B) * (u / B)) by (field; exact NB).
  assert (P : 0 <= u / B).
  { apply Qlt_le_weak. apply Qlt_shift_div_l; [exact Bq|]. rewrite Qmult_0_l. exact Hu. }
  rewrite S1, S2, S3. split; apply Qmult_le_compat_r; try exact P.
  - apply (Qmult_le_l _ _ 2); [reflexivity|]. setoid_replace (2 * ((1 # 2) * B)) with B by field. exact Q1.
  - apply (Qmult_le_l _ _ 2); [reflexivity|]. setoid_replace (2 * ((1 # 2) * B)) with B by field. exact Q2.
Qed.

Lemma certified_sound k m e N E : (0 < m)%Z -> certified k m e N E = true ->
  (10 ^ k <= N < 10 ^ (k + 1))%Z /\
  inject_Z N * ulp (E - k) - value m e <= (1 # 2) * ulp (E - k) /\
  value m e - inject_Z N * ulp (E - k) <= (1 # 2) * ulp (E - k).
Proof.
  intros Hm C. unfold certified in C.
  pose proof (scaled_pos m e (E - k) Hm) as [_ Pb].
  pose proof (scaled_value m e (E - k)) as SV.
  destruct (scaled m e (E - k)) as [a b]; cbn [fst snd] in *.
  apply andb_prop in C as [C C4]. apply andb_prop in C as [C C3]. apply andb_prop in C as [C1 C2].
  apply Z.leb_le in C1, C3, C4. apply Z.ltb_lt in C2.
  split; [lia|].
  apply (frac_bound a b N (value m e) (ulp (E - k)) Pb (ulp_pos _) SV C3 C4).
Qed.

(* The digits printf emits for a positive finite binary64 m * 2^e with "%.<k>E":
   exactly k+1 significant digits, and the decimal N * 10^(E-k) they denote is
   within half a unit of the last digit of the value. *)
Theorem fmt_E_correct k m e N E : fmt_E k m e = Some (N, E) ->
  (10 ^ k <= N < 10 ^ (k + 1))%Z /\
  inject_Z N * ulp (E - k) - value m e <= (1 # 2) * ulp (E - k) /\
  value m e - inject_Z N * ulp (E - k) <= (1 # 2) * ulp (E - k).
Proof.
  unfold fmt_E. destruct (dec_exp m e) as [E0|]; [|discriminate].
  destruct (scaled m e (E0 - k)) as [a b].
  destruct (if (rhe a b =? 10 ^ (k + 1))%Z then (10 ^ k, E0 + 1)%Z else (rhe a b, E0)) as [N' E'].
  destruct (0 <? m)%Z eqn:Hm; [|discriminate]. destruct (0 <=? k)%Z; [|discriminate].
  cbn [andb]. destruct (certified k m e N' E') eqn:C; [|discriminate].
  intros H; injection H as -> ->. apply certified_sound; [now apply Z.ltb_lt|exact C].
Qed.

(* relative form: | printed - x | <= x * 10^-k / 2, i.e. k+1 significant digits *)
Theorem fmt_E_relative k m e N E : fmt_E k m e = Some (N, E) ->
  let p := inject_Z N * ulp (E - k) in
  p - value m e <= (1 # 2) * (p / inject_Z (10 ^ k)) /\ value m e - p <= (1 # 2) * (p / inject_Z (10 ^ k)).
Proof.
  intros H p. destruct (fmt_E_correct _ _ _ _ _ H) as ((L & _) & B1 & B2).
  assert (K : (0 <= k)%Z).
  { unfold fmt_E in H. destruct (dec_exp m e); [|discriminate]. destruct (scaled m e (z - k)).
    destruct (if (rhe z0 z1 =? 10 ^ (k + 1))%Z then _ else _).
    destruct (0 <? m)%Z; [|discriminate]. destruct (0 <=? k)%Z eqn:K; [|discriminate]. now apply Z.leb_le. }
  pose proof (Z.pow_pos_nonneg 10 k ltac:(lia) K) as PK.
  assert (TQ : 0 < inject_Z (10 ^ k)) by (change 0 with (inject_Z 0); rewrite <- Zlt_Qlt; exact PK).
  assert (U : ulp (E - k) <= p / inject_Z (10 ^ k)).
  { apply Qle_shift_div_l; [exact TQ|]. unfold p. rewrite (Qmult_comm (ulp (E - k))).
    apply Qmult_le_compat_r; [|apply Qlt_le_weak, ulp_pos]. rewrite <- Zle_Qle. exact L. }
  assert (HU : (1 # 2) * ulp (E - k) <= (1 # 2) * (p / inject_Z (10 ^ k))).
  { rewrite !(Qmult_comm (1 # 2)). apply Qmult_le_compat_r; [exact U|discriminate]. }
  split; eapply Qle_trans; eauto.
Qed.
