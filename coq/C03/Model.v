(* C03 — model of femio's FrontISTR control-file (.cnt) writer and reader
   (definitions only).

   Writer: femio/formats/fistr/write_fistr.py  FistrWriter.write_cnt,
           _generate_constraints, write_data
   Reader: femio/formats/fistr/fistr.py _read_cnt_solution_type, _read_cnt,
           _read_cnt_boundaries / _springs / _cload / _fixtemps / _cflux,
           _extend_assignments; line filter and block splitting are those of
           C01 (FV.C01.Model.parse_blocks).

   A constraint table has one row per node id and one cell per degree of
   freedom; [None] = NaN = free.  Values are the decimals the writer prints
   (%.5E for !BOUNDARY, %5E = 6 digits for !SPRING/!CLOAD, %.12E for
   !FIXTEMP/!CFLUX); rounding a binary64 to that decimal is outside the model
   (the harness does it exactly with Python's decimal).

   The reader model is partial: [Err] = femio raises, or outside the modelled
   fragment (dof outside 1..3, TYPE= on !CFLUX, ...). *)
From Coq Require Import String Ascii List Bool ZArith Lia.
From FV.C01 Require Import Str Dec.
From FV.C01 Require Model.
From FV.C01.gen Require Import Tables.
Import ListNotations.
Local Open Scope string_scope.

Definition parse_blocks := FV.C01.Model.parse_blocks.
Definition extract_data := FV.C01.Model.extract_data.
Definition extract_headers := FV.C01.Model.extract_headers.
Definition pblock := FV.C01.Model.pblock.
Definition block := FV.C01.Model.block.
Definition flatten := FV.C01.Model.flatten.
Definition keep := FV.C01.Model.keep.

(* ------------------------------------------------------------------ *)
Definition table : Type := list (Z * list (option dec)).     (* id, cells *)
Definition presc : Type := (Z * (nat * dec))%type.           (* id, dof (1-based), value *)

Definition cell (row : Z * list (option dec)) (j : nat) : list presc :=
  match nth_error (snd row) j with
  | Some (Some v) => [(fst row, (S j, v))]
  | _ => []
  end.

(* the prescriptions of a table, row by row *)
Definition prescriptions (t : table) : list presc :=
  flat_map (fun row => flat_map (cell row) (seq 0 (length (snd row)))) t.

Record cnt : Type := mkcnt {
  c_solution : string;               (* settings['solution_type'] *)
  c_only_solid : bool;               (* every element type is a solid type *)
  c_boundary : option table;
  c_spring : option table;
  c_cload : option table;
  c_fixtemp : option (list (Z * dec));
  c_cflux : option (list (Z * dec))
}.

(* ------------------------------------------------------------------ *)
(* writer                                                             *)
Definition ncols (t : table) : nat :=
  match t with [] => 0 | r :: _ => length (snd r) end.

(* _generate_constraints: column by column; numpy raises when no column has
   a prescription *)
Definition gen_constraints (t : table) : result (list presc) :=
  match flat_map (fun j => flat_map (fun row => cell row j) t) (seq 0 (ncols t)) with
  | [] => if gen_empty_ok then Ok []
          else Err "ValueError: need at least one array to concatenate"
  | l => Ok l
  end.

Definition print_nat (n : nat) : string := print_Z (Z.of_nat n).

Definition boundary_row (p : presc) : string :=
  join "," [print_Z (fst p); print_nat (fst (snd p)); print_nat (fst (snd p));
            print_dec (snd (snd p))].
Definition dof_row (p : presc) : string :=
  join "," [print_Z (fst p); print_nat (fst (snd p)); print_dec (snd (snd p))].
Definition value_row (r : Z * dec) : string :=
  join "," [print_Z (fst r); print_dec (snd r)].

(* write_data: header, '\n'.join(rows), '\n' — no row gives one empty line *)
Definition data_rows (rows : list string) : list string :=
  match rows with [] => [""] | _ => rows end.

Definition opt_block {A} (o : option A) (f : A -> result block) : result (list block) :=
  match o with
  | None => Ok []
  | Some a => b <- f a ;; Ok [b]
  end.

Definition output_blocks (only_solid : bool) : list block :=
  if only_solid then
    [("!OUTPUT_RES", ["ESTRAIN,ON"; "ESTRESS,ON"; "EMISES,ON"; "ISTRAIN,ON"; "ITEMP,ON"]);
     ("!OUTPUT_VIS", ["ESTRAIN,ON"; "ESTRESS,ON"; "EMISES,ON"; "TEMPERATURE,ON"])]
  else [("!OUTPUT_RES", ["DISP,ON"])].

Definition trailer_blocks : list block :=
  [("!SOLVER,METHOD=MUMPS,PRECOND=1,ITERLOG=YES,TIMELOG=YES",
    ["100000000, 1"; "1.0e-08, 1.0, 0.0"]);
   ("!VISUAL, method=PSR", []); ("!surface_num = 1", []); ("!surface 1", []);
   ("!output_type = COMPLETE_REORDER_AVS", []); ("!END", [])].

Definition cnt_blocks (c : cnt) : result (list block) :=
  bb <- opt_block (c_boundary c)
          (fun t => l <- gen_constraints t ;; Ok ("!BOUNDARY", data_rows (map boundary_row l))) ;;
  sb <- opt_block (c_spring c)
          (fun t => Ok ("!SPRING", data_rows (map dof_row (prescriptions t)))) ;;
  lb <- opt_block (c_cload c)
          (fun t => l <- gen_constraints t ;; Ok ("!CLOAD", data_rows (map dof_row l))) ;;
  fb <- opt_block (c_fixtemp c) (fun t => Ok ("!FIXTEMP", data_rows (map value_row t))) ;;
  xb <- opt_block (c_cflux c) (fun t => Ok ("!CFLUX", data_rows (map value_row t))) ;;
  Ok ([("!VERSION", ["5"]); (("!SOLUTION, TYPE=" ++ c_solution c)%string, [])]
      ++ (if String.eqb (c_solution c) "HEAT" then [("!HEAT", [])] else [])
      ++ [("!WRITE,RESULT, FREQUENCY=1", []); ("!WRITE,VISUAL, FREQUENCY=1", [])]
      ++ output_blocks (c_only_solid c)
      ++ bb ++ sb ++ lb ++ fb ++ xb ++ trailer_blocks)%list.

Definition write_cnt (c : cnt) : result (list string) :=
  bs <- cnt_blocks c ;; Ok (flatten bs).

(* ------------------------------------------------------------------ *)
(* reader                                                             *)
Definition starts_alpha := FV.C01.Model.starts_alpha.
Definition starts_digit (f : string) : bool :=
  match f with String a _ => is_digit a | "" => false end.
Definition is_letter_row (fs : list string) : bool :=
  match fs with f :: _ => starts_alpha f | [] => false end.
Definition is_digit_row (fs : list string) : bool :=
  match fs with f :: _ => starts_digit f | [] => false end.

(* _extend_assignments: a row whose first field is a node-group name stands
   for one row per member of the group (same remaining fields); when there is
   such a row, the expanded rows come first and only rows starting with a
   digit are kept after them *)
Definition expand_row (ngs : list (string * list Z)) (fs : list string)
  : result (list (list string)) :=
  match fs with
  | g :: (_ :: _) as rest =>
    ids <- of_option "KeyError: unknown node group" (lookup g ngs) ;;
    Ok (map (fun i => print_Z i :: tl fs) ids)
  | _ => Err "group row without value"
  end.

Definition extend (ngs : list (string * list Z)) (rows : list (list string))
  : result (list (list string)) :=
  match filter is_letter_row rows with
  | [] => Ok rows
  | lrows => ex <- mapM (expand_row ngs) lrows ;;
             Ok (concat ex ++ filter is_digit_row rows)%list
  end.

Definition parse_decv (f : string) : result dec := of_option "real" (parse_dec_free f).

Definition parse_dof (f : string) : result nat :=
  z <- parse_Zf f ;;
  if ((1 <=? z) && (z <=? 3))%Z then Ok (Z.to_nat z)
  else Err "dof outside 1..3: outside the model".

(* d[start-1:end] = value on a row of three NaNs *)
Definition span_cells (s e : nat) (v : dec) : list (option dec) :=
  map (fun j => if ((s <=? j) && (j <=? e))%nat then Some v else None) [1; 2; 3]%nat.

Definition read_boundary_row (fs : list string) : result (Z * list (option dec)) :=
  match fs with
  | [fi; fs_; fe; fv] =>
    i <- parse_Zf fi ;; s <- parse_dof fs_ ;; e <- parse_dof fe ;; v <- parse_decv fv ;;
    Ok (i, span_cells s e v)
  | _ => Err "ValueError: boundary row needs 4 columns"
  end.

Definition read_dof_row (fs : list string) : result (Z * list (option dec)) :=
  match fs with
  | [fi; fd; fv] =>
    i <- parse_Zf fi ;; d <- parse_dof fd ;; v <- parse_decv fv ;;
    Ok (i, span_cells d d v)
  | _ => Err "ValueError: row needs 3 columns"
  end.

Definition read_value_row (fs : list string) : result (Z * dec) :=
  match fs with
  | [fi; fv] => i <- parse_Zf fi ;; v <- parse_decv fv ;; Ok (i, v)
  | _ => Err "ValueError: row needs 2 columns"
  end.

Definition read_kind {A} (key : string) (ngs : list (string * list Z))
           (f : list string -> result A) (bs : list pblock) : result (option (list A)) :=
  match extract_data key bs with
  | [] => Ok None
  | rows => rows' <- extend ngs rows ;; t <- mapM f rows' ;; Ok (Some t)
  end.

Record rcnt : Type := mkrcnt {
  r_solution : string;
  r_boundary : option table;
  r_spring : option table;
  r_cload : option table;
  r_fixtemp : option (list (Z * dec));
  r_cflux : option (list (Z * dec))
}.

(* _read_cnt_solution_type: exactly one line containing "!SOLUTION", else STATIC *)
Definition read_solution (ls : list string) : result string :=
  match filter (contains "!SOLUTION") ls with
  | [l] => of_option "IndexError: no TYPE=" (capture "TYPE=" l)
  | _ => Ok "STATIC"
  end.

Definition read_cnt_with (pats : list ipat) (ngs : list (string * list Z)) (ls : list string)
  : result rcnt :=
  sol <- read_solution (filter (keep pats) ls) ;;
  let bs := parse_blocks pats ls in
  sp <- read_kind "!SPRING" ngs read_dof_row bs ;;
  bd <- read_kind "!BOUNDARY" ngs read_boundary_row bs ;;
  cl <- read_kind "!CLOAD" ngs read_dof_row bs ;;
  ft <- read_kind "!FIXTEMP" ngs read_value_row bs ;;
  match captures "TYPE=" (extract_headers "!CFLUX" bs) with
  | _ :: _ => Err "TYPE= on !CFLUX: outside the model"
  | [] =>
    cf <- read_kind "!CFLUX" ngs read_value_row bs ;;
    Ok (mkrcnt sol bd sp cl ft cf)
  end.

Definition read_cnt := read_cnt_with ignore_pats.

Definition opt_presc (o : option table) : list presc :=
  match o with Some t => prescriptions t | None => [] end.
Definition opt_values (o : option (list (Z * dec))) : list (Z * dec) :=
  match o with Some t => t | None => [] end.

(* ------------------------------------------------------------------ *)
(* canonical text of a read result, for the comparison with femio     *)
Definition show_presc (p : presc) : string := dof_row p.

Definition show_table (name : string) (o : option table) : list string :=
  match o with
  | None => []
  | Some t => (name :: map (fun row =>
                 join "," (print_Z (fst row)
                           :: map (fun c => match c with Some v => print_dec v | None => "nan" end)
                                  (snd row))) t)
  end.

Definition show_values (name : string) (o : option (list (Z * dec))) : list string :=
  match o with None => [] | Some t => name :: map value_row t end.

Definition show_rcnt (r : result rcnt) : list string :=
  match r with
  | Err _ => ["ERROR"]
  | Ok c => (("SOLUTION " ++ r_solution c)%string
             :: show_table "boundary" (r_boundary c) ++ show_table "spring" (r_spring c)
             ++ show_table "cload" (r_cload c) ++ show_values "fixtemp" (r_fixtemp c)
             ++ show_values "cflux" (r_cflux c))%list
  end.

Definition show_lines := FV.C01.Model.show_lines.
Definition lines_eqb := FV.C01.Model.lines_eqb.
