(* C12 — executable comparison of the model with the implementation's
   (facet mesh, signed incidence, normals).  Definitions only. *)
From Coq Require Import List ZArith Bool Arith.
Import ListNotations.
From FV.C10 Require Import Model Corr.
From FV.C12 Require Import Model.
Open Scope Z_scope.

Definition eqb_triple (a b : nat * nat * Z) : bool :=
  Nat.eqb (fst (fst a)) (fst (fst b)) && Nat.eqb (snd (fst a)) (snd (fst b)) && Z.eqb (snd a) (snd b).

Definition check_facets (m : mesh) (tri quad : list (Z * face)) : bool :=
  eqb_numbered (fst (facet_elements m)) tri && eqb_numbered (snd (facet_elements m)) quad.

Definition check_incidence (pos : Z -> C3) (m : mesh) (tr : list (nat * nat * Z)) : bool :=
  eqb_list eqb_triple (incidence pos m) tr.

Definition check_shape (m : mesh) (r c : nat) : bool :=
  Nat.eqb (length (cells m)) r && Nat.eqb (length (facets m)) c.

Definition check_rows (m : mesh) (ids : list Z) : bool :=
  eqb_listZ (map (fun e : elem => snd (fst e)) (cells m)) ids.

(* implementation normal n (three binary fractions) against the exact area
   vector A2 (a positive multiple of the true normal): |n| = 1 and n parallel
   to A2 in the same direction, each within 2^-40 relative *)
Definition normal_ok (A2 : C3) (n : list (Z * Z)) : bool :=
  match n with
  | [(a1, d1); (a2, d2); (a3, d3)] =>
      let D := Z.max d1 (Z.max d2 d3) in
      let n1 := a1 * (D / d1) in let n2 := a2 * (D / d2) in let n3 := a3 * (D / d3) in
      let '(x, y, z) := A2 in
      let nn := n1 * n1 + n2 * n2 + n3 * n3 in
      let aa := x * x + y * y + z * z in
      let na := n1 * x + n2 * y + n3 * z in
      (0 <? na) && (Z.abs (nn - D * D) * 2 ^ 40 <=? D * D)
      && ((nn * aa - na * na) * 2 ^ 40 <=? nn * aa)
  | _ => false
  end.

Definition check_normals (pos : Z -> C3) (m : mesh) (ns : list (list (Z * Z))) : bool :=
  Nat.eqb (length ns) (length (facets m))
  && forallb (fun fn => normal_ok (facet_area2 pos (fst fn)) (snd fn)) (combine (facets m) ns).

(* ---- the property on the model's own output (sanity) ---- *)
Definition v3add (a b : C3) : C3 :=
  (fst (fst a) + fst (fst b), snd (fst a) + snd (fst b), snd a + snd b).
Definition v3scale (k : Z) (a : C3) : C3 := (k * fst (fst a), k * snd (fst a), k * snd a).
Definition v3dot (a b : C3) : Z := fst (fst a) * fst (fst b) + snd (fst a) * snd (fst b) + snd a * snd b.

Definition incident (m : mesh) (e : elem) : list face := filter (rel e) (facets m).

Definition model_div_area (pos : Z -> C3) (m : mesh) : bool :=
  forallb (fun e =>
    eqb_C3 (fold_right v3add (0, 0, 0)
              (map (fun f => v3scale (sgn pos e f) (facet_area2 pos f)) (incident m e))) (0, 0, 0))
    (cells m).

(* (1/3) sum sign * (A . centre) = volume, scaled by 72:
   sum sign * (area2 . vsum_f) * (12 / n_f) = 3 * vol24 *)
Definition model_div_volume (pos : Z -> C3) (m : mesh) : bool :=
  forallb (fun e =>
    Z.eqb (fold_right Z.add 0
             (map (fun f => sgn pos e f * v3dot (facet_area2 pos f) (vsum ZOps (map pos f))
                            * (12 / Z.of_nat (length f))) (incident m e)))
          (3 * elem_vol24 ZOps pos e))
    (cells m).

Definition model_structure (m : mesh) : bool :=
  (* every cell: incident facets = number of its faces; every facet: one or two cells *)
  forallb (fun e => Nat.eqb (length (incident m e)) (length (elem_faces e))) (cells m)
  && forallb (fun f => let n := length (filter (fun e => rel e f) (cells m)) in
                       Nat.eqb n 1 || Nat.eqb n 2) (facets m).

Definition model_opposite (pos : Z -> C3) (m : mesh) : bool :=
  forallb (fun f => match filter (fun e => rel e f) (cells m) with
                    | [a; b] => Z.eqb (sgn pos a f + sgn pos b f) 0
                    | [a] => Z.eqb (sgn pos a f) 1
                    | _ => false
                    end) (facets m).

Definition model_cells_outward (pos : Z -> C3) (m : mesh) : bool :=
  forallb (cell_outwardb pos) (elems m).

(* implementation facet area a = n/d against the exact |varea2|/2 : 4 a^2 = |A2|^2
   within 2^-24 relative (areas of facets far from the origin carry |p|/h * 2^-53) *)
Definition area_ok (A2 : C3) (nd : Z * Z) : bool :=
  let '(n, d) := nd in
  let '(x, y, z) := A2 in
  let aa := x * x + y * y + z * z in
  (0 <=? n) && (Z.abs (4 * n * n - aa * d * d) * 2 ^ 24 <=? aa * d * d).

Definition check_areas (pos : Z -> C3) (m : mesh) (xs : list (Z * Z)) : bool :=
  Nat.eqb (length xs) (length (facets m))
  && forallb (fun fa => area_ok (facet_area2 pos (fst fa)) (snd fa)) (combine (facets m) xs).

(* implementation cell volumes (rows = cells m) against femio's default kernel in the model *)
Definition check_cell_volumes (pos : Z -> C3) (m : mesh) (vs : list (Z * Z)) : bool :=
  Nat.eqb (length vs) (length (cells m))
  && forallb (fun ev => vol_close (elem_vol24 ZOps pos (fst ev)) (snd ev)) (combine (cells m) vs).
