(* C12 — representatives of key groups: the group of x in `groups same l` is
   `filter (same x) l`; first representatives are pairwise different; the
   representatives of a cell's own faces are exactly the representatives whose
   key the cell lists. *)
From Coq Require Import List ZArith Bool Arith Lia Permutation.
Import ListNotations.
From FV.C10 Require Import Model Groups.

Lemma filter_perm : forall {A} (p : A -> bool) l l',
  Permutation l l' -> Permutation (filter p l) (filter p l').
Proof.
  intros A p l l' H. induction H; simpl.
  - constructor.
  - destruct (p x); [apply perm_skip |]; assumption.
  - destruct (p x), (p y); try apply perm_swap; try apply perm_skip; apply Permutation_refl.
  - eapply Permutation_trans; eassumption.
Qed.

Section RepsTheory.
  Context {A : Type}.
  Variable same : A -> A -> bool.
  Hypothesis same_refl : forall x, same x x = true.
  Hypothesis same_sym : forall x y, same x y = same y x.
  Hypothesis same_trans : forall x y z, same x y = true -> same y z = true -> same x z = true.
  Variable d : A.

  Definition greps (l : list A) : list A := map (hd d) (groups same l).
  Definition grep (l : list A) (x : A) : A := hd d (filter (same x) l).

  Lemma same_ext : forall x y, same x y = true -> forall z, same x z = same y z.
  Proof. exact (same_true_ext same same_sym same_trans). Qed.

  Lemma filter_same_neg : forall x y r, same x y = false ->
    filter (same y) (filter (fun z => negb (same x z)) r) = filter (same y) r.
  Proof.
    intros x y r Hxy. apply filter_filter_absorb. intros z _ Hyz.
    destruct (same x z) eqn:E; [| reflexivity].
    exfalso. rewrite same_sym in Hyz.
    rewrite (same_trans x z y E Hyz) in Hxy. discriminate.
  Qed.

  Lemma group_aux_spec : forall n l, length l <= n ->
    forall G, In G (groups_aux same n l) -> exists x, In x l /\ G = filter (same x) l.
  Proof.
    induction n as [| n IH]; intros l Hl G HG.
    - destruct l; simpl in HG; contradiction.
    - destruct l as [| x r]; simpl in HG; [contradiction |].
      destruct HG as [HG | HG].
      + exists x. split; [left; reflexivity |]. simpl. rewrite same_refl. symmetry. exact HG.
      + assert (Hlen : length (filter (fun y => negb (same x y)) r) <= n).
        { simpl in Hl. pose proof (filter_length_le (fun y => negb (same x y)) r). lia. }
        destruct (IH _ Hlen G HG) as [y [Hy HGy]].
        apply filter_In in Hy. destruct Hy as [Hyr Hxy].
        apply negb_true_iff in Hxy.
        exists y. split; [right; exact Hyr |].
        simpl. rewrite same_sym in Hxy. rewrite Hxy. rewrite same_sym in Hxy.
        rewrite HGy. apply filter_same_neg. exact Hxy.
  Qed.

  Lemma group_spec : forall l G, In G (groups same l) -> exists x, In x l /\ G = filter (same x) l.
  Proof. intros l G H. apply (group_aux_spec (length l) l (le_n _) G H). Qed.

  Lemma group_aux_of_In : forall n l, length l <= n ->
    forall x, In x l -> In (filter (same x) l) (groups_aux same n l).
  Proof.
    induction n as [| n IH]; intros l Hl x Hx.
    - destruct l; simpl in *; [contradiction | lia].
    - destruct l as [| y r]; [contradiction |].
      simpl groups_aux.
      destruct (same y x) eqn:E.
      + left. simpl. rewrite (same_sym x y), E.
        f_equal. apply filter_ext_In. intros z _. apply same_ext. exact E.
      + right.
        assert (Hlen : length (filter (fun z => negb (same y z)) r) <= n).
        { simpl in Hl. pose proof (filter_length_le (fun z => negb (same y z)) r). lia. }
        assert (Hx' : In x (filter (fun z => negb (same y z)) r)).
        { apply filter_In. split.
          - destruct Hx as [Hx | Hx]; [| exact Hx]. subst y. rewrite same_refl in E. discriminate.
          - rewrite E. reflexivity. }
        pose proof (IH _ Hlen x Hx') as H.
        rewrite (filter_same_neg y x r E) in H.
        simpl. rewrite (same_sym x y), E. exact H.
  Qed.

  Lemma group_of_In : forall l x, In x l -> In (filter (same x) l) (groups same l).
  Proof. intros l x H. apply (group_aux_of_In (length l) l (le_n _) x H). Qed.

  Lemma groups_occ : forall l G y, In G (groups same l) -> In y G -> occ same y l = length G.
  Proof.
    intros l G y HG Hy. destruct (group_spec l G HG) as [x [Hx HGx]]. subst G.
    apply filter_In in Hy. destruct Hy as [_ Hxy].
    unfold occ. f_equal. apply filter_ext_In. intros z _. symmetry. apply same_ext. exact Hxy.
  Qed.

  Lemma grep_In : forall l x, In x l -> In (grep l x) (filter (same x) l).
  Proof.
    intros l x Hx. unfold grep.
    assert (H : In x (filter (same x) l)) by (apply filter_In; split; [exact Hx | apply same_refl]).
    destruct (filter (same x) l) as [| a r]; [contradiction | left; reflexivity].
  Qed.

  Lemma grep_spec : forall l x, In x l ->
    In (grep l x) l /\ same x (grep l x) = true /\ In (grep l x) (greps l).
  Proof.
    intros l x Hx. pose proof (grep_In l x Hx) as H.
    apply filter_In in H. destruct H as [H1 H2]. split; [exact H1 | split; [exact H2 |]].
    unfold greps, grep. apply in_map. apply group_of_In. exact Hx.
  Qed.

  Lemma grep_same : forall l x y, same x y = true -> grep l x = grep l y.
  Proof.
    intros l x y H. unfold grep. f_equal. apply filter_ext_In. intros z _. apply same_ext. exact H.
  Qed.

  Lemma greps_In : forall l f, In f (greps l) -> In f l /\ grep l f = f.
  Proof.
    intros l f H. unfold greps in H. apply in_map_iff in H. destruct H as [G [HfG HG]].
    destruct (group_spec l G HG) as [x [Hx HGx]]. subst G.
    change (hd d (filter (same x) l)) with (grep l x) in HfG. subst f.
    destruct (grep_spec l x Hx) as [H1 [H2 _]]. split; [exact H1 |].
    symmetry. apply grep_same. exact H2.
  Qed.

  Lemma greps_unique : forall l f x, In f (greps l) -> same f x = true -> f = grep l x.
  Proof.
    intros l f x Hf Hs. destruct (greps_In l f Hf) as [_ H]. rewrite <- H. apply grep_same. exact Hs.
  Qed.

  (* heads of the groups are pairwise different *)
  Lemma greps_aux_NoDup : forall n l, length l <= n -> NoDup (map (hd d) (groups_aux same n l)).
  Proof.
    induction n as [| n IH]; intros l Hl.
    - simpl. constructor.
    - destruct l as [| x r]; simpl; [constructor |].
      assert (Hlen : length (filter (fun y => negb (same x y)) r) <= n).
      { simpl in Hl. pose proof (filter_length_le (fun y => negb (same x y)) r). lia. }
      constructor; [| apply IH; exact Hlen].
      intro Hin. apply in_map_iff in Hin. destruct Hin as [G [HxG HG]].
      destruct (group_aux_spec n _ Hlen G HG) as [y [Hy HGy]].
      assert (Hg : In (hd d G) G).
      { subst G. assert (H : In y (filter (same y) (filter (fun y0 => negb (same x y0)) r)))
          by (apply filter_In; split; [exact Hy | apply same_refl]).
        destruct (filter (same y) (filter (fun y0 => negb (same x y0)) r)); [contradiction | left; reflexivity]. }
      rewrite HxG in Hg. rewrite HGy in Hg.
      apply filter_In in Hg. destruct Hg as [Hg _]. apply filter_In in Hg. destruct Hg as [_ Hg].
      rewrite same_refl in Hg. discriminate.
  Qed.

  Lemma greps_NoDup : forall l, NoDup (greps l).
  Proof. intro l. apply (greps_aux_NoDup (length l) l (le_n _)). Qed.

  Lemma reps_own_NoDup : forall l H, incl H l -> distinct_keys same H = true -> NoDup (map (grep l) H).
  Proof.
    intros l H. induction H as [| h r IH]; intros Hincl Hd; simpl; [constructor |].
    simpl in Hd. apply andb_true_iff in Hd. destruct Hd as [Hd1 Hd2].
    constructor.
    - intro Hin. apply in_map_iff in Hin. destruct Hin as [h' [Heq Hh']].
      assert (Hs : same h h' = true).
      { destruct (grep_spec l h (Hincl h (or_introl eq_refl))) as [_ [S1 _]].
        destruct (grep_spec l h' (Hincl h' (or_intror Hh'))) as [_ [S2 _]].
        rewrite Heq in S2. rewrite same_sym in S1. rewrite same_sym.
        apply (same_trans h' (grep l h) h S2 S1). }
      apply negb_true_iff in Hd1.
      assert (E : existsb (same h) r = true) by (apply existsb_exists; exists h'; split; assumption).
      congruence.
    - apply IH; [| exact Hd2]. intros z Hz. apply Hincl. right. exact Hz.
  Qed.

  Lemma reps_own_perm : forall l H, incl H l -> distinct_keys same H = true ->
    Permutation (map (grep l) H) (filter (fun f => existsb (same f) H) (greps l)).
  Proof.
    intros l H Hincl Hd. apply NoDup_Permutation.
    - apply reps_own_NoDup; assumption.
    - apply NoDup_filter. apply greps_NoDup.
    - intro f. split; intro Hf.
      + apply in_map_iff in Hf. destruct Hf as [h [Heq Hh]]. subst f.
        destruct (grep_spec l h (Hincl h Hh)) as [_ [S G]].
        apply filter_In. split; [exact G |].
        apply existsb_exists. exists h. split; [exact Hh |]. rewrite same_sym. exact S.
      + apply filter_In in Hf. destruct Hf as [Hg He].
        apply existsb_exists in He. destruct He as [h [Hh Hs]].
        apply in_map_iff. exists h. split; [| exact Hh].
        symmetry. apply greps_unique; assumption.
  Qed.
End RepsTheory.
