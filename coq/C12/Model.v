(* C12 — model of femio's facet mesh and signed cell-facet incidence
   (definitions only).  Reuses the C10 model: face tables (translated),
   all_faces, grouping by sorted node tuple, outward2, varea2.

   Hand model (H) of
     fem_data.py        : to_facets(remove_duplicates=True)
     graph_processor.py : extract_facets(remove_duplicates=True)
     functions.py       : remove_duplicates (first representative of each
                          sorted tuple, in np.unique order)
     fem_elemental_attribute.py : to_surface (numbering 1.., triangles first)
     graph_processor.py : calculate_relative_incidence_metrix_element
                          (minimum_n_sharing=None: a cell is incident to a
                          facet when it contains all of the facet's nodes)
     geometry_processor.py : calculate_normal_incidence_matrix (sign of
                          (facet centre - cell centre) . facet normal; >= 0 -> +1) *)
From Coq Require Import List ZArith Bool Arith.
Import ListNotations.
From FV.C10 Require Import Model.

(* first listed representative of every node set *)
Definition reps (m : mesh) : list face :=
  map (fun g => hd [] g) (groups same_face (all_faces m)).

(* facet mesh: representatives in np.unique order, triangles then quadrilaterals *)
Definition facets (m : mesh) : list face :=
  let r := isort key_leb (reps m) in faces_of_len 3 r ++ faces_of_len 4 r.

Definition facet_elements (m : mesh) : list (Z * face) * list (Z * face) :=
  let r := isort key_leb (reps m) in
  (number_from 1%Z (faces_of_len 3 r),
   number_from (1 + Z.of_nat (length (faces_of_len 3 r)))%Z (faces_of_len 4 r)).

(* rows of the incidence matrix: elements.ids order (storage order for one
   block, ascending element id for a mixed collection) *)
Definition elem_id_leb (a b : elem) : bool := Z.leb (snd (fst a)) (snd (fst b)).
Definition cells (m : mesh) : list elem :=
  match m_blocks m with
  | [_] => elems m
  | _ => isort elem_id_leb (elems m)
  end.

Definition conn_of (e : elem) : list Z := snd e.

(* number of the facet's nodes that are nodes of the cell *)
Definition shared (c : list Z) (f : face) : nat :=
  length (filter (fun i => existsb (Z.eqb i) c) f).

(* dot.data >= n_vertex[col] *)
Definition rel (e : elem) (f : face) : bool := Nat.leb (length f) (shared (conn_of e) f).

Section Sign.
  Variable pos : Z -> Z * Z * Z.
  (* sign of (facet centre - cell centre) . normal; both centres are vertex
     means, the normal is a positive multiple of varea2: same sign as outward2 *)
  Definition odot (e : elem) (f : face) : Z := outward2 ZOps (map pos (conn_of e)) (map pos f).
  Definition sgn (e : elem) (f : face) : Z := if Z.ltb (odot e f) 0 then (-1)%Z else 1%Z.

  Fixpoint index_pairs {X} (k : nat) (l : list X) : list (nat * X) :=
    match l with [] => [] | x :: r => (k, x) :: index_pairs (S k) r end.

  (* sorted COO triples (row, column, value) of the signed incidence matrix *)
  Definition incidence (m : mesh) : list (nat * nat * Z) :=
    flat_map (fun ic =>
      flat_map (fun jf => if rel (snd ic) (snd jf)
                          then [(fst ic, fst jf, sgn (snd ic) (snd jf))] else [])
               (index_pairs 0 (facets m)))
      (index_pairs 0 (cells m)).

  (* twice the vector area of a facet in its stored orientation
     (_calculate_tri_crosses / _calculate_quad_normals_centroid before normalisation) *)
  Definition facet_area2 (f : face) : Z * Z * Z := varea2 ZOps (map pos f).
End Sign.

(* ---- well-formedness specific to C12 (boolean) ---- *)
(* two cells meet in a common face, edge or vertex: a cell that contains all
   nodes of a facet has that facet as one of its faces *)
Definition cells_meet_in_faces (m : mesh) : bool :=
  forallb (fun e => forallb (fun f => implb (rel e f) (existsb (same_face f) (elem_faces e)))
                            (reps m)) (elems m).

(* every face of the cell, in the cell's own (table) orientation, has the
   cell's vertex mean strictly on its inner side — the "convex cell" predicate *)
Definition cell_outwardb (pos : Z -> Z * Z * Z) (e : elem) : bool :=
  forallb (fun h => Z.ltb 0 (outward2 ZOps (map pos (conn_of e)) (map pos h))) (elem_faces e).

(* ---- rows and columns of a COO triple list (row, column, value) ---- *)
Definition row_of {V} (i : nat) (tr : list (nat * nat * V)) : list (nat * nat * V) :=
  filter (fun t => Nat.eqb (fst (fst t)) i) tr.
Definition col_of {V} (j : nat) (tr : list (nat * nat * V)) : list (nat * nat * V) :=
  filter (fun t => Nat.eqb (snd (fst t)) j) tr.
