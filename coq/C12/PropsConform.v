(* C12 — tetrahedral meshes: cells_meet_in_faces follows from primitive, per-cell conditions
   (every cell is a tetrahedron with four pairwise different nodes), so for tet meshes the
   matrix-level theorems need only wf_mesh, oriented_conforming and the convex-cell predicate.
   Statements only. *)
From Coq Require Import List ZArith Bool Arith Permutation.
Import ListNotations.
From FV.C10 Require Import Model.
From FV.C12 Require Import Model ProofsMatrix ProofsConform Props.
Set Default Timeout 120.

(* any three pairwise different nodes of a tetrahedron are one of its faces: a tetrahedron that
   contains all nodes of a facet has that facet as a face *)
Theorem C12_tet_mesh_cells_meet_in_faces : forall m,
  wf_mesh m = true -> all_tets m = true -> conn_nodup m = true ->
  cells_meet_in_faces m = true.
Proof. exact tet_mesh_cells_meet_in_faces. Qed.

(* columns of the signed incidence matrix of a tet mesh: [1] or {1, -1} *)
Theorem C12_tet_matrix_column : forall pos m,
  wf_mesh m = true -> all_tets m = true -> conn_nodup m = true -> oriented_conforming m = true ->
  forallb (cell_outwardb pos) (elems m) = true ->
  forall j f, nth_error (facets m) j = Some f ->
    let col := map snd (col_of j (incidence pos m)) in
    col = [1%Z] \/ Permutation col [1%Z; (-1)%Z].
Proof.
  intros pos m Hwf Ht Hn. apply (C12_matrix_column pos m Hwf (tet_mesh_cells_meet_in_faces m Hwf Ht Hn)).
Qed.

(* rows: four entries, on the cell's own faces; signed area vectors sum to zero; volume identity *)
Theorem C12_tet_matrix_row : forall pos m,
  wf_mesh m = true -> all_tets m = true -> conn_nodup m = true -> oriented_conforming m = true ->
  forallb (cell_outwardb pos) (elems m) = true ->
  forall i e, nth_error (cells m) i = Some e ->
    let row := row_of i (incidence pos m) in
    length row = length (elem_faces e)
    /\ vsum ZOps (map (fun t => vscale ZOps (snd t)
                                  (facet_area2 pos (nth (snd (fst t)) (facets m) []))) row)
       = (0, 0, 0)%Z
    /\ sumT ZOps (map (fun t => let f := nth (snd (fst t)) (facets m) [] in
                                (snd t * dot ZOps (facet_area2 pos f) (vsum ZOps (map pos f))
                                 * (12 / Z.of_nat (length f)))%Z) row)
       = (3 * elem_vol24 ZOps pos e)%Z.
Proof.
  intros pos m Hwf Ht Hn Hoc Hout i e Hi row.
  pose proof (tet_mesh_cells_meet_in_faces m Hwf Ht Hn) as Hm.
  destruct (C12_matrix_row pos m Hwf Hm Hoc Hout i e Hi) as [A [_ B]].
  split; [exact A |]. split; [exact B |].
  apply (C12_matrix_row_volume pos m Hwf Hm Hoc Hout i e Hi).
Qed.

(* non-vacuity: the two glued tetrahedra of Props.ex_mesh *)
Example C12_tet_hypotheses_satisfiable :
  wf_mesh ex_mesh = true /\ all_tets ex_mesh = true /\ conn_nodup ex_mesh = true
  /\ oriented_conforming ex_mesh = true /\ forallb (cell_outwardb ex_posZ) (elems ex_mesh) = true.
Proof. repeat split; vm_compute; reflexivity. Qed.

Print Assumptions C12_tet_mesh_cells_meet_in_faces.
Print Assumptions C12_tet_matrix_column.
Print Assumptions C12_tet_matrix_row.
