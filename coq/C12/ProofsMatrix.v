(* C12 — the signed incidence MATRIX (the sorted COO triples `incidence pos m`
   that the correspondence check compares exactly with the implementation's
   scipy matrix), over Z, with boolean hypotheses only.

   Part 1: the integer geometry (ZOps) is the real geometry (ROps) under IZR.
   Part 2: rows and columns of `incidence` as lists.
   Part 3: the property at matrix level (rows: exactly the own faces, signed
           area vectors sum to zero, volume identity; columns: [1] or {1,-1}). *)
From Coq Require Import List ZArith Bool Arith Reals Lra Lia Permutation.
Import ListNotations.
From FV.C10 Require Import Model Groups ProofsTables ProofsGeom ProofsSurface ProofsWf.
From FV.C12 Require Import Model Reps ProofsGeom Proofs.

(* ------------------------------------------------------------------ *)
(* Part 1: Z -> R morphism                                             *)
Definition posR (pos : Z -> Z * Z * Z) (i : Z) : RV3 := toR3 (pos i).

Lemma toR3_vadd : forall p q, toR3 (vadd ZOps p q) = vadd ROps (toR3 p) (toR3 q).
Proof. intros [[a b] c] [[d e] f]. cbv [toR3 vadd vx vy vz fst snd ZOps ROps add]. now rewrite !plus_IZR. Qed.

Lemma toR3_vsub : forall p q, toR3 (vsub ZOps p q) = vsub ROps (toR3 p) (toR3 q).
Proof. intros [[a b] c] [[d e] f]. cbv [toR3 vsub vx vy vz fst snd ZOps ROps sub]. now rewrite !minus_IZR. Qed.

Lemma toR3_vscale : forall k p, toR3 (vscale ZOps k p) = vscale ROps (IZR k) (toR3 p).
Proof. intros k [[a b] c]. cbv [toR3 vscale vx vy vz fst snd ZOps ROps mul]. now rewrite !mult_IZR. Qed.

Lemma toR3_cross : forall p q, toR3 (cross ZOps p q) = cross ROps (toR3 p) (toR3 q).
Proof.
  intros [[a b] c] [[d e] f]. cbv [toR3 cross vx vy vz fst snd ZOps ROps sub mul].
  now rewrite !minus_IZR, !mult_IZR.
Qed.

Lemma IZR_dot : forall p q, IZR (dot ZOps p q) = dot ROps (toR3 p) (toR3 q).
Proof.
  intros [[a b] c] [[d e] f]. cbv [toR3 dot vx vy vz fst snd ZOps ROps add mul].
  now rewrite !plus_IZR, !mult_IZR.
Qed.

Lemma toR3_vsum : forall l, toR3 (vsum ZOps l) = vsum ROps (map toR3 l).
Proof.
  induction l as [| p l IH]; [reflexivity |].
  change (vsum ZOps (p :: l)) with (vadd ZOps p (vsum ZOps l)).
  change (vsum ROps (map toR3 (p :: l))) with (vadd ROps (toR3 p) (vsum ROps (map toR3 l))).
  now rewrite toR3_vadd, IH.
Qed.

Lemma IZR_of_nat : forall n, IZR (of_nat ZOps n) = of_nat ROps n.
Proof.
  induction n as [| n IH]; [reflexivity |].
  change (of_nat ZOps (S n)) with (1 + of_nat ZOps n)%Z.
  change (of_nat ROps (S n)) with (1 + of_nat ROps n)%R.
  now rewrite plus_IZR, IH.
Qed.

Lemma toR3_varea2 : forall l, toR3 (varea2 ZOps l) = varea2 ROps (map toR3 l).
Proof.
  intros l.
  destruct l as [| a [| b [| c [| d [| x r]]]]]; try reflexivity.
  - cbn [varea2 map]. now rewrite !toR3_vadd, !toR3_cross.
  - cbn [varea2 map]. now rewrite !toR3_vadd, !toR3_cross.
Qed.

Lemma IZR_outward2 : forall cell fp,
  IZR (outward2 ZOps cell fp) = outward2 ROps (map toR3 cell) (map toR3 fp).
Proof.
  intros. unfold outward2.
  now rewrite IZR_dot, toR3_vsub, !toR3_vscale, !toR3_vsum, toR3_varea2, !IZR_of_nat, !map_length.
Qed.

Lemma IZR_odot : forall pos e f, IZR (odot pos e f) = odotR (posR pos) e f.
Proof.
  intros. unfold odot, odotR, cellpts, face_pts, conn_of, posR.
  now rewrite IZR_outward2, !map_map.
Qed.

Lemma IZR_sgn : forall pos e f, IZR (sgn pos e f) = sgnR (odotR (posR pos) e f).
Proof.
  intros. unfold sgn, sgnR. rewrite <- IZR_odot.
  destruct (Z.ltb_spec (odot pos e f) 0) as [H | H];
    destruct (Rlt_dec (IZR (odot pos e f)) 0) as [H' | H']; try reflexivity.
  - exfalso. apply H'. now apply IZR_lt.
  - exfalso. apply lt_IZR in H'. lia.
Qed.

Lemma facet_area2_R : forall pos f,
  toR3 (facet_area2 pos f) = varea2 ROps (face_pts (posR pos) f).
Proof. intros. unfold facet_area2, face_pts, posR. now rewrite toR3_varea2, map_map. Qed.

(* the boolean convex-cell predicate evaluated by the correspondence check
   implies the Prop used by the theorems over R *)
Lemma cell_outwardb_outward : forall pos e,
  cell_outwardb pos e = true -> cell_outward (posR pos) e.
Proof.
  intros pos e H h Hh. unfold cell_outwardb in H. rewrite forallb_forall in H.
  specialize (H h Hh). apply Z.ltb_lt in H.
  rewrite <- IZR_odot. unfold odot. now apply IZR_lt.
Qed.

Lemma toR3_inj : forall p q, toR3 p = toR3 q -> p = q.
Proof.
  intros [[a b] c] [[d e] f] H. cbv [toR3 fst snd] in H. inversion H.
  f_equal; [f_equal |]; now apply eq_IZR.
Qed.

(* ------------------------------------------------------------------ *)
(* Part 2: rows and columns of `incidence`                             *)
Lemma index_pairs_ge : forall {X} (l : list X) k j x, In (j, x) (index_pairs k l) -> k <= j.
Proof.
  induction l as [| a r IH]; intros k j x H; [destruct H |].
  destruct H as [H | H]; [inversion H; lia |]. apply IH in H. lia.
Qed.

Lemma index_pairs_nth : forall {X} (l : list X) k j x,
  In (j, x) (index_pairs k l) -> nth_error l (j - k) = Some x.
Proof.
  induction l as [| a r IH]; intros k j x H; [destruct H |].
  destruct H as [H | H].
  - inversion H. subst. now rewrite Nat.sub_diag.
  - pose proof (index_pairs_ge _ _ _ _ H) as Hge. apply IH in H.
    replace (j - k) with (S (j - S k)) by lia. exact H.
Qed.

Lemma filter_all : forall {A} (p : A -> bool) l, (forall x, In x l -> p x = true) -> filter p l = l.
Proof.
  induction l as [| a r IH]; intros H; [reflexivity |]. simpl.
  rewrite (H a (or_introl eq_refl)). f_equal. apply IH. intros x Hx. apply H. now right.
Qed.

Lemma filter_none : forall {A} (p : A -> bool) l, (forall x, In x l -> p x = false) -> filter p l = [].
Proof.
  induction l as [| a r IH]; intros H; [reflexivity |]. simpl.
  rewrite (H a (or_introl eq_refl)). apply IH. intros x Hx. apply H. now right.
Qed.

Lemma filter_flat_map : forall {A B} (p : B -> bool) (g : A -> list B) l,
  filter p (flat_map g l) = flat_map (fun x => filter p (g x)) l.
Proof.
  induction l as [| a r IH]; [reflexivity |]. simpl. now rewrite filter_app, IH.
Qed.

(* selecting the entries with key k+i from a flat_map over an indexed list
   whose outputs carry the index as key *)
Lemma filter_flat_map_idx : forall {X Y} (g : nat * X -> list Y) (key : Y -> nat),
  (forall ic y, In y (g ic) -> key y = fst ic) ->
  forall l k i x, nth_error l i = Some x ->
    filter (fun y => Nat.eqb (key y) (k + i)) (flat_map g (index_pairs k l)) = g (k + i, x).
Proof.
  intros X Y g key Hkey. induction l as [| a r IH]; intros k i x H.
  - destruct i; discriminate.
  - cbn [index_pairs flat_map]. rewrite filter_app. destruct i as [| i].
    + inversion H. subst a. rewrite Nat.add_0_r.
      rewrite filter_all, filter_none, app_nil_r; [reflexivity | |].
      * intros y Hy. apply in_flat_map in Hy. destruct Hy as [[j z] [Hin Hy]].
        apply index_pairs_ge in Hin. rewrite (Hkey _ _ Hy). simpl. apply Nat.eqb_neq. lia.
      * intros y Hy. rewrite (Hkey _ _ Hy). simpl. apply Nat.eqb_refl.
    + simpl in H. rewrite filter_none.
      * simpl. replace (k + S i) with (S k + i) by lia. apply IH. exact H.
      * intros y Hy. rewrite (Hkey _ _ Hy). simpl. apply Nat.eqb_neq. lia.
Qed.

Lemma flat_map_if : forall {A B} (p : A -> bool) (h : A -> B) l,
  flat_map (fun x => if p x then [h x] else []) l = map h (filter p l).
Proof.
  induction l as [| a r IH]; [reflexivity |]. simpl. destruct (p a); simpl; now rewrite IH.
Qed.

Lemma index_pairs_filter_snd : forall {X} (p : X -> bool) (l : list X) k,
  map snd (filter (fun jf => p (snd jf)) (index_pairs k l)) = filter p l.
Proof.
  induction l as [| a r IH]; intros k; [reflexivity |]. simpl.
  destruct (p a); simpl; now rewrite IH.
Qed.

(* row i of the matrix: one entry per facet incident to cell i, in facet order *)
Lemma row_incidence : forall pos m i e, nth_error (cells m) i = Some e ->
  row_of i (incidence pos m)
  = map (fun jf => (i, fst jf, sgn pos e (snd jf)))
        (filter (fun jf => rel e (snd jf)) (index_pairs 0 (facets m))).
Proof.
  intros pos m i e H. unfold row_of, incidence.
  rewrite (filter_flat_map_idx
             (fun ic : nat * elem => flat_map (fun jf : nat * face =>
                if rel (snd ic) (snd jf) then [(fst ic, fst jf, sgn pos (snd ic) (snd jf))] else [])
                (index_pairs 0 (facets m)))
             (fun t : nat * nat * Z => fst (fst t))) with (k := 0) (i := i) (x := e).
  - cbn [fst snd Nat.add]. apply (flat_map_if (fun jf : nat * face => rel e (snd jf))).
  - intros ic y Hy. apply in_flat_map in Hy. destruct Hy as [jf [_ Hy]].
    destruct (rel (snd ic) (snd jf)); [| destruct Hy]. destruct Hy as [<- | []]. reflexivity.
  - exact H.
Qed.

(* column j of the matrix: one entry per cell incident to facet j, in row order *)
Lemma col_incidence : forall pos m j f, nth_error (facets m) j = Some f ->
  col_of j (incidence pos m)
  = map (fun ic => (fst ic, j, sgn pos (snd ic) f))
        (filter (fun ic => rel (snd ic) f) (index_pairs 0 (cells m))).
Proof.
  intros pos m j f H. unfold col_of, incidence. rewrite filter_flat_map.
  rewrite <- (flat_map_if (fun ic : nat * elem => rel (snd ic) f)).
  apply flat_map_ext. intros ic.
  rewrite (filter_flat_map_idx
             (fun jf : nat * face =>
                if rel (snd ic) (snd jf) then [(fst ic, fst jf, sgn pos (snd ic) (snd jf))] else [])
             (fun t : nat * nat * Z => snd (fst t))) with (k := 0) (i := j) (x := f).
  - reflexivity.
  - intros jf y Hy. destruct (rel (snd ic) (snd jf)); [| destruct Hy]. destruct Hy as [<- | []]. reflexivity.
  - exact H.
Qed.

Lemma row_values : forall pos m i e, nth_error (cells m) i = Some e ->
  map snd (row_of i (incidence pos m)) = map (sgn pos e) (filter (rel e) (facets m)).
Proof.
  intros. rewrite (row_incidence pos m i e H), map_map. cbn [snd].
  rewrite <- (index_pairs_filter_snd (rel e) (facets m) 0), map_map. reflexivity.
Qed.

Lemma col_values : forall pos m j f, nth_error (facets m) j = Some f ->
  map snd (col_of j (incidence pos m))
  = map (fun e => sgn pos e f) (filter (fun e => rel e f) (cells m)).
Proof.
  intros. rewrite (col_incidence pos m j f H), map_map. cbn [snd].
  rewrite <- (index_pairs_filter_snd (fun e => rel e f) (cells m) 0), map_map. reflexivity.
Qed.

(* ------------------------------------------------------------------ *)
(* Part 3: the property at matrix level                                *)
Lemma cells_perm : forall m, Permutation (cells m) (elems m).
Proof.
  intro m. unfold cells.
  destruct (m_blocks m) as [| b [| b' r]]; first [apply Permutation_refl | apply isort_perm].
Qed.

Lemma all_outward_In : forall pos m, forallb (cell_outwardb pos) (elems m) = true ->
  forall e, In e (elems m) -> cell_outwardb pos e = true.
Proof. intros pos m H e He. rewrite forallb_forall in H. now apply H. Qed.

(* sign = orientation, over Z *)
Lemma sgn_orientation_Z : forall pos e, cell_outwardb pos e = true ->
  forall h, In h (elem_faces e) ->
    sgn pos e h = 1%Z /\ (forall g, is_reversal h g = true -> sgn pos e g = (-1)%Z).
Proof.
  intros pos e Ho h Hh.
  destruct (sign_is_orientation (posR pos) e (cell_outwardb_outward pos e Ho) h Hh) as [A B].
  split.
  - rewrite <- IZR_sgn in A. unfold sgn in *. destruct (odot pos e h <? 0)%Z; [exfalso; lra | reflexivity].
  - intros g Hg. specialize (B g Hg). rewrite <- IZR_sgn in B. unfold sgn in *.
    destruct (odot pos e g <? 0)%Z; [reflexivity | exfalso; lra].
Qed.

(* sum over the facets incident to the cell of sign * (2 x area vector) = 0, over Z *)
Lemma div_area_Z : forall pos m,
  wf_mesh m = true -> cells_meet_in_faces m = true -> oriented_conforming m = true ->
  forall e, In e (elems m) -> cell_outwardb pos e = true ->
    vsum ZOps (map (fun f => vscale ZOps (sgn pos e f) (facet_area2 pos f)) (filter (rel e) (facets m)))
    = (0, 0, 0)%Z.
Proof.
  intros pos m Hwf Hm Hoc e He Ho. apply toR3_inj. rewrite toR3_vsum, map_map.
  rewrite (map_ext _ (signed_area (posR pos) e)).
  - rewrite (div_area (posR pos) m Hwf Hm Hoc e He (cell_outwardb_outward pos e Ho)). reflexivity.
  - intros f. unfold signed_area. now rewrite toR3_vscale, IZR_sgn, facet_area2_R.
Qed.

Lemma Forall2_one : forall {A B} (R : A -> B -> Prop) l x,
  Forall2 R l [x] -> exists a, l = [a] /\ R a x.
Proof.
  intros A B R l x H. inversion H as [| a b l' r' Hab Hr]; subst.
  inversion Hr; subst. exists a. split; [reflexivity | exact Hab].
Qed.

Lemma Forall2_two : forall {A B} (R : A -> B -> Prop) l x y,
  Forall2 R l [x; y] -> exists a b, l = [a; b] /\ R a x /\ R b y.
Proof.
  intros A B R l x y H. inversion H as [| a b l' r' Hab Hr]; subst.
  destruct (Forall2_one R l' y Hr) as [c [-> Hc]]. exists a, c. auto.
Qed.

(* the cells that list the node set of f, in order, against the listings themselves *)
Lemma owners_faces : forall f es,
  (forall e, In e es -> distinct_keys same_face (elem_faces e) = true) ->
  Forall2 (fun e h => In h (elem_faces e) /\ same_face f h = true)
    (filter (fun e => existsb (same_face f) (elem_faces e)) es)
    (filter (same_face f) (flat_map elem_faces es)).
Proof.
  intros f. induction es as [| e es IH]; intros H; [constructor |].
  cbn [flat_map filter]. rewrite filter_app.
  pose proof (distinct_keys_occ same_face same_face_sym same_face_trans (elem_faces e) f
                (H e (or_introl eq_refl))) as Hocc.
  unfold occ in Hocc.
  assert (IH' := IH (fun e' He' => H e' (or_intror He'))).
  destruct (existsb (same_face f) (elem_faces e)) eqn:E.
  - destruct (filter (same_face f) (elem_faces e)) as [| h [| h' r]] eqn:EL; try discriminate.
    assert (Hh : In h (filter (same_face f) (elem_faces e))) by (rewrite EL; now left).
    apply filter_In in Hh. cbn [app]. constructor; [exact Hh | exact IH'].
  - destruct (filter (same_face f) (elem_faces e)) as [| h r] eqn:EL; try discriminate.
    cbn [app]. exact IH'.
Qed.

(* column of a facet, cells taken in the order of `elems m`: [1] (boundary facet)
   or [1; -1] (interior facet: the cell listed first owns the stored orientation) *)
Lemma column_elems_order : forall pos m,
  wf_mesh m = true -> cells_meet_in_faces m = true -> oriented_conforming m = true ->
  forallb (cell_outwardb pos) (elems m) = true ->
  forall f, In f (reps m) ->
    let vals := map (fun e => sgn pos e f) (filter (fun e => rel e f) (elems m)) in
    vals = [1%Z] \/ vals = [1%Z; (-1)%Z].
Proof.
  intros pos m Hwf Hm Hoc Hout f Hf vals. subst vals.
  rewrite (filter_ext_In _ (fun e => existsb (same_face f) (elem_faces e)))
    by (intros e He; apply (inc_own_faces m Hm e f He Hf)).
  pose proof (owners_faces f (elems m) (wf_elems m Hwf)) as F2.
  fold (all_faces m) in F2.
  rewrite reps_greps in Hf.
  destruct (greps_In same_face same_face_refl same_face_sym same_face_trans [] _ f Hf) as [Hin Hgrep].
  pose proof (group_of_In same_face same_face_refl same_face_sym same_face_trans _ f Hin) as HG.
  unfold grep in Hgrep.
  destruct (group_sizes m Hoc _ HG) as [[x Hx] | [x [y [Hxy Hrev]]]].
  - rewrite Hx in *. cbn [hd] in Hgrep. subst x.
    destruct (Forall2_one _ _ _ F2) as [a [Ea [Ha _]]]. rewrite Ea. left. cbn [map].
    assert (Hae : In a (elems m)).
    { assert (In a [a]) by now left. rewrite <- Ea in H. apply filter_In in H. tauto. }
    f_equal. apply (sgn_orientation_Z pos a (all_outward_In pos m Hout a Hae) f Ha).
  - rewrite Hxy in *. cbn [hd] in Hgrep. subst x.
    destruct (Forall2_two _ _ _ _ F2) as [a [b [Eab [[Ha _] [Hb _]]]]]. rewrite Eab. right. cbn [map].
    assert (Hae : In a (elems m)).
    { assert (In a [a; b]) by now left. rewrite <- Eab in H. apply filter_In in H. tauto. }
    assert (Hbe : In b (elems m)).
    { assert (In b [a; b]) by (right; now left). rewrite <- Eab in H. apply filter_In in H. tauto. }
    f_equal; [| f_equal].
    + apply (sgn_orientation_Z pos a (all_outward_In pos m Hout a Hae) f Ha).
    + apply (sgn_orientation_Z pos b (all_outward_In pos m Hout b Hbe) y Hb). exact Hrev.
Qed.

(* COLUMNS of the signed incidence matrix: a boundary facet has the single entry
   +1, an interior facet the two entries +1 and -1 *)
Theorem matrix_column : forall pos m,
  wf_mesh m = true -> cells_meet_in_faces m = true -> oriented_conforming m = true ->
  forallb (cell_outwardb pos) (elems m) = true ->
  forall j f, nth_error (facets m) j = Some f ->
    let col := map snd (col_of j (incidence pos m)) in
    col = [1%Z] \/ Permutation col [1%Z; (-1)%Z].
Proof.
  intros pos m Hwf Hm Hoc Hout j f Hj col. subst col.
  rewrite (col_values pos m j f Hj).
  assert (Hf : In f (reps m)).
  { eapply Permutation_in; [apply facets_perm |]. eapply nth_error_In. exact Hj. }
  assert (P : Permutation (map (fun e => sgn pos e f) (filter (fun e => rel e f) (cells m)))
                          (map (fun e => sgn pos e f) (filter (fun e => rel e f) (elems m))))
    by (apply Permutation_map, filter_perm, cells_perm).
  destruct (column_elems_order pos m Hwf Hm Hoc Hout f Hf) as [E | E]; rewrite E in P.
  - left. apply Permutation_sym, Permutation_length_1_inv in P. exact P.
  - right. exact P.
Qed.

(* ROWS of the signed incidence matrix: row i has one entry per face of cell i,
   each in the column of the facet on that face; the signed (doubled) area
   vectors of the row sum to zero *)
Theorem matrix_row : forall pos m,
  wf_mesh m = true -> cells_meet_in_faces m = true -> oriented_conforming m = true ->
  forallb (cell_outwardb pos) (elems m) = true ->
  forall i e, nth_error (cells m) i = Some e ->
    let row := row_of i (incidence pos m) in
    length row = length (elem_faces e)
    /\ (forall t, In t row -> exists f,
          nth_error (facets m) (snd (fst t)) = Some f
          /\ existsb (same_face f) (elem_faces e) = true
          /\ snd t = sgn pos e f)
    /\ vsum ZOps (map (fun t => vscale ZOps (snd t)
                                  (facet_area2 pos (nth (snd (fst t)) (facets m) []))) row)
       = (0, 0, 0)%Z.
Proof.
  intros pos m Hwf Hm Hoc Hout i e Hi row. subst row.
  assert (He : In e (elems m)).
  { eapply Permutation_in; [apply cells_perm |]. eapply nth_error_In. exact Hi. }
  rewrite (row_incidence pos m i e Hi).
  assert (Hnth : forall jf, In jf (filter (fun jf : nat * face => rel e (snd jf)) (index_pairs 0 (facets m))) ->
                   nth_error (facets m) (fst jf) = Some (snd jf) /\ rel e (snd jf) = true).
  { intros [j f] H. apply filter_In in H. destruct H as [H1 H2].
    apply index_pairs_nth in H1. rewrite Nat.sub_0_r in H1. split; assumption. }
  split; [| split].
  - rewrite map_length.
    rewrite <- (map_length snd), (index_pairs_filter_snd (rel e) (facets m) 0).
    rewrite (Permutation_length (incident_perm m Hwf Hm e He)). apply map_length.
  - intros t Ht. apply in_map_iff in Ht. destruct Ht as [[j f] [<- Hjf]].
    destruct (Hnth _ Hjf) as [H1 H2]. cbn [fst snd] in *. exists f. split; [exact H1 |]. split; [| reflexivity].
    rewrite <- (inc_own_faces m Hm e f He); [exact H2 |].
    eapply Permutation_in; [apply facets_perm |]. eapply nth_error_In. exact H1.
  - rewrite map_map. cbn [fst snd].
    rewrite (map_ext_in _ (fun jf : nat * face => vscale ZOps (sgn pos e (snd jf)) (facet_area2 pos (snd jf)))).
    + rewrite <- (map_map snd (fun f => vscale ZOps (sgn pos e f) (facet_area2 pos f))).
      rewrite (index_pairs_filter_snd (rel e) (facets m) 0).
      apply (div_area_Z pos m Hwf Hm Hoc e He (all_outward_In pos m Hout e He)).
    + intros jf Hjf. destruct (Hnth _ Hjf) as [H1 _].
      rewrite (nth_error_nth _ _ _ H1). reflexivity.
Qed.

(* ------------------------------------------------------------------ *)
(* Part 4: the volume identity over Z                                  *)
Lemma IZR_det3 : forall a b c, IZR (det3 ZOps a b c) = det3 ROps (toR3 a) (toR3 b) (toR3 c).
Proof. intros. unfold det3. now rewrite IZR_dot, toR3_cross. Qed.

Lemma IZR_quad24 : forall a b c d,
  IZR (quad24 ZOps a b c d) = quad24 ROps (toR3 a) (toR3 b) (toR3 c) (toR3 d).
Proof.
  intros. unfold quad24. cbv zeta. change (add ZOps) with Z.add. change (add ROps) with Rplus.
  now rewrite !plus_IZR, !IZR_det3, !toR3_vadd.
Qed.

Lemma IZR_tet_like : forall a b c d,
  IZR (tet_like ZOps a b c d) = tet_like ROps (toR3 a) (toR3 b) (toR3 c) (toR3 d).
Proof. intros. unfold tet_like. now rewrite IZR_det3, !toR3_vsub. Qed.

Lemma IZR_four : IZR (four ZOps) = four ROps.
Proof. unfold four. apply IZR_of_nat. Qed.

Lemma IZR_elem_vol24_pts : forall t p,
  IZR (elem_vol24_pts ZOps t p) = elem_vol24_pts ROps t (map toR3 p).
Proof.
  intros t p.
  destruct t; do 9 (try (destruct p as [| ? p]; try reflexivity));
    cbn [elem_vol24_pts map];
    change (add ZOps) with Z.add; change (add ROps) with Rplus;
    change (mul ZOps) with Z.mul; change (mul ROps) with Rmult;
    repeat first [rewrite plus_IZR | rewrite mult_IZR | rewrite IZR_quad24 | rewrite IZR_det3
                  | rewrite IZR_tet_like | rewrite IZR_four]; reflexivity.
Qed.

Lemma IZR_elem_vol24 : forall pos e, IZR (elem_vol24 ZOps pos e) = elem_vol24 ROps (posR pos) e.
Proof.
  intros pos [[t i] c]. unfold elem_vol24.
  destruct (Nat.eqb (length c) (arity t)); [| reflexivity].
  rewrite IZR_elem_vol24_pts, map_map. reflexivity.
Qed.

Lemma IZR_sumT : forall l, IZR (sumT ZOps l) = sumT ROps (map IZR l).
Proof.
  induction l as [| x r IH]; [reflexivity |].
  change (sumT ZOps (x :: r)) with (x + sumT ZOps r)%Z.
  change (sumT ROps (map IZR (x :: r))) with (IZR x + sumT ROps (map IZR r))%R.
  now rewrite plus_IZR, IH.
Qed.

Lemma sumT_scale : forall {A} (g : A -> R) k l,
  sumT ROps (map (fun x => k * g x)%R l) = (k * sumT ROps (map g l))%R.
Proof.
  intros A g k. induction l as [| x r IH].
  - cbn. ring.
  - cbn [map]. change (sumT ROps (?a :: ?b)) with (a + sumT ROps b)%R.
    change (sumT ROps ((k * g x)%R :: map (fun x => (k * g x)%R) r))
      with (k * g x + sumT ROps (map (fun x => (k * g x)%R) r))%R.
    change (sumT ROps (g x :: map g r)) with (g x + sumT ROps (map g r))%R.
    rewrite IH. ring.
Qed.

(* 72 x the divergence-theorem term of one facet: sign * (2A . (n c)) * (12 / n) *)
Definition vol_term (pos : Z -> Z * Z * Z) (e : elem) (f : face) : Z :=
  (sgn pos e f * dot ZOps (facet_area2 pos f) (vsum ZOps (map pos f)) * (12 / Z.of_nat (length f)))%Z.

Lemma facets_len : forall m f, In f (facets m) -> length f = 3 \/ length f = 4.
Proof.
  intros m f Hf. apply (all_faces_len m).
  assert (Hr : In f (reps m)) by (eapply Permutation_in; [apply facets_perm | exact Hf]).
  rewrite reps_greps in Hr.
  apply (greps_In same_face same_face_refl same_face_sym same_face_trans [] _ f Hr).
Qed.

Lemma div_volume_Z : forall pos m,
  wf_mesh m = true -> cells_meet_in_faces m = true -> oriented_conforming m = true ->
  forall e, In e (elems m) -> cell_outwardb pos e = true ->
    sumT ZOps (map (vol_term pos e) (filter (rel e) (facets m))) = (3 * elem_vol24 ZOps pos e)%Z.
Proof.
  intros pos m Hwf Hm Hoc e He Ho. apply eq_IZR.
  rewrite mult_IZR, IZR_elem_vol24, IZR_sumT, map_map.
  rewrite (map_ext_in _ (fun f => 72 * div_term (posR pos) e f)%R).
  - rewrite sumT_scale.
    rewrite (div_volume (posR pos) m Hwf Hm Hoc e He (cell_outwardb_outward pos e Ho)). field.
  - intros f Hf. apply filter_In in Hf. destruct Hf as [Hf _].
    pose proof (facets_len m f Hf) as Hlen.
    unfold vol_term, div_term.
    rewrite !mult_IZR, IZR_sgn, IZR_dot, facet_area2_R, toR3_vsum, map_map, dot_scale.
    change (map (fun x => toR3 (pos x)) f) with (face_pts (posR pos) f).
    destruct Hlen as [-> | ->].
    + change (12 / Z.of_nat 3)%Z with 4%Z. cbv [of_nat ROps add one zero]. field.
    + change (12 / Z.of_nat 4)%Z with 3%Z. cbv [of_nat ROps add one zero]. field.
Qed.

(* ROWS, volume: one third of the signed sum of area x (normal . facet centre) over the
   entries of row i is the volume of cell i (x 72, no division) *)
Theorem matrix_row_volume : forall pos m,
  wf_mesh m = true -> cells_meet_in_faces m = true -> oriented_conforming m = true ->
  forallb (cell_outwardb pos) (elems m) = true ->
  forall i e, nth_error (cells m) i = Some e ->
    sumT ZOps (map (fun t => let f := nth (snd (fst t)) (facets m) [] in
                             (snd t * dot ZOps (facet_area2 pos f) (vsum ZOps (map pos f))
                              * (12 / Z.of_nat (length f)))%Z)
                   (row_of i (incidence pos m)))
    = (3 * elem_vol24 ZOps pos e)%Z.
Proof.
  intros pos m Hwf Hm Hoc Hout i e Hi.
  assert (He : In e (elems m)).
  { eapply Permutation_in; [apply cells_perm |]. eapply nth_error_In. exact Hi. }
  rewrite (row_incidence pos m i e Hi), map_map. cbn [fst snd].
  rewrite (map_ext_in _ (fun jf : nat * face => vol_term pos e (snd jf))).
  - rewrite <- (map_map snd (vol_term pos e)).
    rewrite (index_pairs_filter_snd (rel e) (facets m) 0).
    apply (div_volume_Z pos m Hwf Hm Hoc e He (all_outward_In pos m Hout e He)).
  - intros [j f] Hjf. apply filter_In in Hjf. destruct Hjf as [H1 _].
    apply index_pairs_nth in H1. rewrite Nat.sub_0_r in H1. cbn [fst snd].
    rewrite (nth_error_nth _ _ _ H1). reflexivity.
Qed.

(* ------------------------------------------------------------------ *)
(* Part 5: positions of the matrix                                     *)
Lemma index_pairs_fst : forall {X} (l : list X) k, map fst (index_pairs k l) = seq k (length l).
Proof. induction l as [| a r IH]; intros k; [reflexivity |]. simpl. now rewrite IH. Qed.

Lemma NoDup_map_filter : forall {A B} (f : A -> B) (p : A -> bool) l,
  NoDup (map f l) -> NoDup (map f (filter p l)).
Proof.
  induction l as [| a r IH]; intros H; [constructor |].
  simpl in H. inversion H as [| x xs Hnot Hnd]; subst. simpl.
  destruct (p a); [| now apply IH]. simpl. constructor; [| now apply IH].
  intro Hin. apply Hnot. apply in_map_iff in Hin. destruct Hin as [y [E Hy]].
  apply filter_In in Hy. apply in_map_iff. exists y. tauto.
Qed.

(* no position of the matrix is listed twice: within a row the columns are pairwise
   different, within a column the rows are (no hypothesis on the mesh) *)
Lemma row_cols_NoDup : forall pos m i e, nth_error (cells m) i = Some e ->
  NoDup (map (fun t => snd (fst t)) (row_of i (incidence pos m))).
Proof.
  intros pos m i e H. rewrite (row_incidence pos m i e H), map_map. cbn [fst snd].
  apply (NoDup_map_filter fst). rewrite index_pairs_fst. apply seq_NoDup.
Qed.

Lemma col_rows_NoDup : forall pos m j f, nth_error (facets m) j = Some f ->
  NoDup (map (fun t => fst (fst t)) (col_of j (incidence pos m))).
Proof.
  intros pos m j f H. rewrite (col_incidence pos m j f H), map_map. cbn [fst snd].
  apply (NoDup_map_filter fst). rewrite index_pairs_fst. apply seq_NoDup.
Qed.

(* every triple of the matrix lies in some row i < #cells and some column j < #facets *)
Lemma incidence_in_range : forall pos m t, In t (incidence pos m) ->
  fst (fst t) < length (cells m) /\ snd (fst t) < length (facets m).
Proof.
  intros pos m t H. unfold incidence in H.
  apply in_flat_map in H. destruct H as [[i e] [Hi H]].
  apply in_flat_map in H. destruct H as [[j f] [Hj H]].
  cbn [fst snd] in H. destruct (rel e f); [| destruct H]. destruct H as [<- | []]. cbn [fst snd].
  apply index_pairs_nth in Hi. apply index_pairs_nth in Hj. rewrite Nat.sub_0_r in *.
  split; apply nth_error_Some; congruence.
Qed.
