(* C12 — structure of the incidence, sign = orientation, discrete divergence
   theorem per cell. *)
From Coq Require Import List ZArith Bool Arith Reals Lra Lia Permutation.
Import ListNotations.
From FV.C10.gen Require Import FaceTables.
From FV.C10 Require Import Model Groups ProofsTables ProofsGeom ProofsSurface.
From FV.C12 Require Import Model Reps ProofsGeom.

(* ---------------------------------------------------------------- *)
(* rel e f  <->  every node of f is a node of e                        *)
Lemma filter_all_length : forall {A} (p : A -> bool) l,
  length l <= length (filter p l) -> forallb p l = true.
Proof.
  intros A p l. induction l as [| x r IH]; intro H; simpl in *; [reflexivity |].
  destruct (p x) eqn:E; simpl in *.
  - apply IH. lia.
  - pose proof (filter_length_le p r). lia.
Qed.

Lemma forallb_filter_length : forall {A} (p : A -> bool) l,
  forallb p l = true -> length (filter p l) = length l.
Proof.
  intros A p l. induction l as [| x r IH]; intro H; simpl in *; [reflexivity |].
  apply andb_true_iff in H. destruct H as [H1 H2]. rewrite H1. simpl. rewrite IH; auto.
Qed.

Lemma existsb_Zeqb_In : forall i c, existsb (Z.eqb i) c = true <-> In i c.
Proof.
  intros i c. rewrite existsb_exists. split.
  - intros [x [Hx E]]. apply Z.eqb_eq in E. subst. exact Hx.
  - intro H. exists i. split; [exact H | apply Z.eqb_refl].
Qed.

Lemma rel_spec : forall e f, rel e f = true <-> (forall i, In i f -> In i (conn_of e)).
Proof.
  intros e f. unfold rel, shared. split.
  - intros H i Hi. apply Nat.leb_le in H. apply filter_all_length in H.
    rewrite forallb_forall in H. apply existsb_Zeqb_In. apply H. exact Hi.
  - intro H. apply Nat.leb_le. rewrite forallb_filter_length; [lia |].
    apply forallb_forall. intros i Hi. apply existsb_Zeqb_In. apply H. exact Hi.
Qed.

Lemma same_face_perm : forall f h, same_face f h = true -> Permutation f h.
Proof.
  intros f h H. unfold same_face in H. apply eqb_listZ_spec in H. unfold key, sortZ in H.
  eapply Permutation_trans; [apply Permutation_sym, (isort_perm Z.leb f) |].
  rewrite H. apply isort_perm.
Qed.

Lemma used_cols_le : forall t, used_cols t <= arity t.
Proof. destruct t; vm_compute; lia. Qed.

Lemma table_idx_lt : forall t idx k, In idx (table t) -> In k idx -> k < used_cols t.
Proof.
  intros t idx k Hidx Hk. pose proof (table_closed_each t) as H.
  unfold table_closedb in H. apply andb_true_iff in H. destruct H as [H _].
  apply andb_true_iff in H. destruct H as [_ H].
  rewrite forallb_forall in H. specialize (H idx Hidx).
  rewrite forallb_forall in H. specialize (H k Hk). apply Nat.ltb_lt in H. exact H.
Qed.

Lemma table_face_len : forall t idx, In idx (table t) -> length idx = 3 \/ length idx = 4.
Proof.
  intros t idx Hidx. pose proof (table_closed_each t) as H.
  unfold table_closedb in H. apply andb_true_iff in H. destruct H as [_ H].
  rewrite forallb_forall in H. specialize (H idx Hidx).
  apply orb_true_iff in H. destruct H as [H | H]; apply Nat.eqb_eq in H; auto.
Qed.

Lemma In_firstn : forall {A} n (l : list A) x, In x (firstn n l) -> In x l.
Proof.
  intros A n l x H. rewrite <- (firstn_skipn n l). apply in_or_app. left. exact H.
Qed.

(* nodes of an element's own face are nodes of the element *)
Lemma own_face_nodes : forall e h, In h (elem_faces e) -> forall i, In i h -> In i (conn_of e).
Proof.
  intros [[t eid] c] h Hh i Hi. unfold elem_faces, faces_of in Hh. simpl conn_of.
  destruct (Nat.eqb (length c) (arity t)) eqn:E; [| contradiction].
  apply Nat.eqb_eq in E.
  apply in_map_iff in Hh. destruct Hh as [idx [Hpick Hidx]]. subst h.
  unfold pick in Hi. apply in_map_iff in Hi. destruct Hi as [k [Hk Hkin]]. subst i.
  apply (In_firstn (used_cols t)). apply nth_In.
  rewrite firstn_length. pose proof (table_idx_lt t idx k Hidx Hkin). pose proof (used_cols_le t). lia.
Qed.

Lemma own_face_len : forall e h, In h (elem_faces e) -> length h = 3 \/ length h = 4.
Proof.
  intros [[t eid] c] h Hh. unfold elem_faces, faces_of in Hh.
  destruct (Nat.eqb (length c) (arity t)); [| contradiction].
  apply in_map_iff in Hh. destruct Hh as [idx [Hpick Hidx]]. subst h.
  unfold pick. rewrite map_length. apply (table_face_len t). exact Hidx.
Qed.

(* a cell is incident to every facet on the node set of one of its faces *)
Lemma own_face_rel : forall e f, existsb (same_face f) (elem_faces e) = true -> rel e f = true.
Proof.
  intros e f H. apply existsb_exists in H. destruct H as [h [Hh Hs]].
  apply rel_spec. intros i Hi. apply (own_face_nodes e h Hh).
  eapply Permutation_in; [apply same_face_perm; exact Hs | exact Hi].
Qed.

Lemma meet_rel_own : forall m, cells_meet_in_faces m = true ->
  forall e f, In e (elems m) -> In f (reps m) -> rel e f = true ->
  existsb (same_face f) (elem_faces e) = true.
Proof.
  intros m H e f He Hf Hr. unfold cells_meet_in_faces in H.
  rewrite forallb_forall in H. specialize (H e He).
  rewrite forallb_forall in H. specialize (H f Hf). rewrite Hr in H. exact H.
Qed.

(* each cell is incident to exactly its own faces *)
Theorem inc_own_faces :
  forall m, cells_meet_in_faces m = true ->
  forall e f, In e (elems m) -> In f (reps m) ->
    rel e f = existsb (same_face f) (elem_faces e).
Proof.
  intros m Hm e f He Hf.
  destruct (rel e f) eqn:E1; destruct (existsb (same_face f) (elem_faces e)) eqn:E2; auto.
  - rewrite (meet_rel_own m Hm e f He Hf E1) in E2. discriminate.
  - rewrite (own_face_rel e f E2) in E1. discriminate.
Qed.

(* ---------------------------------------------------------------- *)
(* number of cells of a facet                                          *)
Lemma reps_greps : forall m, reps m = greps same_face [] (all_faces m).
Proof. reflexivity. Qed.

Lemma group_sizes : forall m, oriented_conforming m = true ->
  forall G, In G (groups same_face (all_faces m)) ->
    (exists f, G = [f]) \/ (exists f g, G = [f; g] /\ is_reversal g f = true).
Proof.
  intros m H G HG. unfold oriented_conforming, groups_ok in H.
  rewrite forallb_forall in H. specialize (H G HG).
  destruct G as [| f [| g [| x r]]]; simpl in H; try discriminate.
  - left. exists f. reflexivity.
  - right. exists f, g. split; [reflexivity | exact H].
Qed.

Theorem facet_cells :
  forall m, wf_mesh m = true -> cells_meet_in_faces m = true -> oriented_conforming m = true ->
  forall f, In f (reps m) ->
    let n := length (filter (fun e => rel e f) (elems m)) in
    n = occ same_face f (all_faces m) /\ (n = 1 \/ n = 2).
Proof.
  intros m Hwf Hm Hoc f Hf n.
  assert (E : n = occ same_face f (all_faces m)).
  { subst n. unfold all_faces.
    rewrite (occ_owners same_face same_face_sym same_face_trans elem_faces (elems m) f (wf_elems m Hwf)).
    f_equal. apply filter_ext_In. intros e He. apply (inc_own_faces m Hm e f He Hf). }
  split; [exact E |]. rewrite E.
  rewrite reps_greps in Hf.
  destruct (greps_In same_face same_face_refl same_face_sym same_face_trans [] _ f Hf) as [Hin _].
  pose proof (group_of_In same_face same_face_refl same_face_sym same_face_trans _ f Hin) as HG.
  assert (HfG : In f (filter (same_face f) (all_faces m)))
    by (apply filter_In; split; [exact Hin | apply same_face_refl]).
  rewrite (groups_occ same_face same_face_refl same_face_sym same_face_trans _ _ f HG HfG).
  destruct (group_sizes m Hoc _ HG) as [[x Hx] | [x [y [Hxy _]]]].
  - rewrite Hx. left. reflexivity.
  - rewrite Hxy. right. reflexivity.
Qed.

(* ---------------------------------------------------------------- *)
(* sign = orientation                                                  *)
Local Open Scope R_scope.

Definition sgnR (x : R) : R := if Rlt_dec x 0 then -1 else 1.

(* the representative of an own face is that face or its reversal *)
Lemma rep_or_reversal : forall m, oriented_conforming m = true ->
  forall h, In h (all_faces m) ->
    let f := grep same_face [] (all_faces m) h in h = f \/ is_reversal h f = true.
Proof.
  intros m Hoc h Hh f.
  pose proof (group_of_In same_face same_face_refl same_face_sym same_face_trans _ h Hh) as HG.
  assert (HhG : In h (filter (same_face h) (all_faces m)))
    by (apply filter_In; split; [exact Hh | apply same_face_refl]).
  subst f. unfold grep.
  destruct (group_sizes m Hoc _ HG) as [[x Hx] | [x [y [Hxy Hrev]]]].
  - rewrite Hx in *. simpl. destruct HhG as [E | []]. left. symmetry. exact E.
  - rewrite Hxy in *. simpl. destruct HhG as [E | [E | []]].
    + left. symmetry. exact E.
    + right. subst y. exact Hrev.
Qed.

Theorem sign_is_orientation :
  forall pos e, cell_outward pos e ->
  forall h, In h (elem_faces e) ->
    sgnR (odotR pos e h) = 1
    /\ (forall g, is_reversal h g = true -> sgnR (odotR pos e g) = -1).
Proof.
  intros pos e Hout h Hh. pose proof (Hout h Hh) as Hpos. split.
  - unfold sgnR. destruct (Rlt_dec (odotR pos e h) 0); [lra | reflexivity].
  - intros g Hrev. unfold odotR in *.
    rewrite (outward2_reversal pos (cellpts pos e) h g Hrev) in Hpos.
    unfold sgnR. destruct (Rlt_dec (outward2 ROps (cellpts pos e) (face_pts pos g)) 0); [reflexivity | lra].
Qed.

(* interior facet: the two cells see it with opposite signs *)
Theorem interior_opposite :
  forall pos m, oriented_conforming m = true ->
  forall f g, In [f; g] (groups same_face (all_faces m)) ->
  forall e1 e2, In f (elem_faces e1) -> In g (elem_faces e2) ->
    cell_outward pos e1 -> cell_outward pos e2 ->
    sgnR (odotR pos e1 f) = 1 /\ sgnR (odotR pos e2 f) = -1.
Proof.
  intros pos m Hoc f g HG e1 e2 H1 H2 O1 O2.
  destruct (group_sizes m Hoc _ HG) as [[x Hx] | [x [y [Hxy Hrev]]]]; [discriminate |].
  inversion Hxy. subst x y.
  split.
  - apply (sign_is_orientation pos e1 O1 f H1).
  - apply (sign_is_orientation pos e2 O2 g H2). exact Hrev.
Qed.

(* ---------------------------------------------------------------- *)
(* the discrete divergence theorem, per cell                           *)
Definition vaddR := vadd ROps.
Lemma V_comm : forall a b : RV3, vaddR a b = vaddR b a.
Proof. intros [[? ?] ?] [[? ?] ?]. cbv. apply triple_eq; ring. Qed.
Lemma V_assoc : forall a b c : RV3, vaddR a (vaddR b c) = vaddR (vaddR a b) c.
Proof. intros [[? ?] ?] [[? ?] ?] [[? ?] ?]. cbv. apply triple_eq; ring. Qed.

Lemma vsum_msum : forall l : list RV3, vsum ROps l = msum RV3 (0, 0, 0) vaddR l.
Proof. reflexivity. Qed.

Lemma all_faces_len : forall m h, In h (all_faces m) -> length h = 3%nat \/ length h = 4%nat.
Proof.
  intros m h H. unfold all_faces in H. apply in_flat_map in H. destruct H as [e [_ Hh]].
  apply (own_face_len e h Hh).
Qed.

Lemma facets_perm : forall m, Permutation (facets m) (reps m).
Proof.
  intro m. unfold facets. set (r := isort key_leb (reps m)).
  assert (Hr : Permutation r (reps m)) by apply isort_perm.
  eapply Permutation_trans; [| exact Hr].
  unfold faces_of_len.
  match goal with |- Permutation (?a ++ ?b) _ =>
    assert (E : b = filter (fun f : face => negb (Nat.eqb (length f) 3)) r) end.
  { apply filter_ext_In. intros f Hf.
    assert (Hin : In f (all_faces m)).
    { apply (Permutation_in _ Hr) in Hf. rewrite reps_greps in Hf.
      apply (greps_In same_face same_face_refl same_face_sym same_face_trans [] _ f Hf). }
    destruct (all_faces_len m f Hin) as [E | E]; rewrite E; reflexivity. }
  rewrite E. apply (filter_split_perm (fun f : face => Nat.eqb (length f) 3) r).
Qed.

Lemma elem_faces_incl : forall m e, In e (elems m) -> incl (elem_faces e) (all_faces m).
Proof. intros m e He h Hh. unfold all_faces. apply in_flat_map. exists e. split; assumption. Qed.

(* facets incident to a cell = representatives of its own faces, up to order *)
Lemma incident_perm :
  forall m, wf_mesh m = true -> cells_meet_in_faces m = true ->
  forall e, In e (elems m) ->
    Permutation (filter (rel e) (facets m))
                (map (grep same_face [] (all_faces m)) (elem_faces e)).
Proof.
  intros m Hwf Hm e He.
  eapply Permutation_trans; [apply filter_perm, facets_perm |].
  replace (filter (rel e) (reps m))
    with (filter (fun f => existsb (same_face f) (elem_faces e)) (reps m))
    by (apply filter_ext_In; intros f Hf; symmetry; apply (inc_own_faces m Hm e f He Hf)).
  apply Permutation_sym. rewrite reps_greps.
  apply (reps_own_perm same_face same_face_refl same_face_sym same_face_trans []).
  - apply elem_faces_incl. exact He.
  - apply (wf_elems m Hwf e He).
Qed.

(* signed area vector of a facet as seen from a cell = area vector of the
   cell's own face on that node set *)
Lemma signed_area_own :
  forall pos m, oriented_conforming m = true ->
  forall e, In e (elems m) -> cell_outward pos e ->
  forall h, In h (elem_faces e) ->
    let f := grep same_face [] (all_faces m) h in
    vscale ROps (sgnR (odotR pos e f)) (varea2 ROps (face_pts pos f)) = varea2 ROps (face_pts pos h)
    /\ sgnR (odotR pos e f) * dot ROps (varea2 ROps (face_pts pos f)) (vsum ROps (face_pts pos f))
       = dot ROps (varea2 ROps (face_pts pos h)) (vsum ROps (face_pts pos h))
    /\ length f = length h.
Proof.
  intros pos m Hoc e He Hout h Hh f.
  destruct (rep_or_reversal m Hoc h (elem_faces_incl m e He h Hh)) as [E | Hrev]; fold f in E || fold f in Hrev.
  - rewrite <- E. destruct (sign_is_orientation pos e Hout h Hh) as [S _]. rewrite S.
    clear E. clearbody f. split; [| split].
    + destruct (varea2 ROps (face_pts pos h)) as [[a b] c].
      cbv [vscale vx vy vz fst snd ROps mul]. apply triple_eq; ring.
    + ring.
    + reflexivity.
  - destruct (sign_is_orientation pos e Hout h Hh) as [_ S]. rewrite (S f Hrev).
    rewrite (varea2_reversal pos h f Hrev), (vsum_reversal pos h f Hrev).
    pose proof (reversal_length h f Hrev) as HL.
    clearbody f. split; [| split].
    + destruct (varea2 ROps (face_pts pos f)) as [[a b] c].
      cbv [vscale vx vy vz fst snd ROps mul]. apply triple_eq; ring.
    + destruct (varea2 ROps (face_pts pos f)) as [[a b] c].
      destruct (vsum ROps (face_pts pos f)) as [[u v] w].
      cbv [vscale dot vx vy vz fst snd ROps mul add]. ring.
    + symmetry. exact HL.
Qed.

Definition signed_area (pos : Z -> RV3) (e : elem) (f : face) : RV3 :=
  vscale ROps (sgnR (odotR pos e f)) (varea2 ROps (face_pts pos f)).

(* sum over the facets incident to the cell of sign * area vector = 0 *)
Theorem div_area :
  forall pos m, wf_mesh m = true -> cells_meet_in_faces m = true -> oriented_conforming m = true ->
  forall e, In e (elems m) -> cell_outward pos e ->
    vsum ROps (map (signed_area pos e) (filter (rel e) (facets m))) = (0, 0, 0).
Proof.
  intros pos m Hwf Hm Hoc e He Hout.
  rewrite vsum_msum.
  rewrite (msum_perm RV3 (0, 0, 0) vaddR V_comm V_assoc _ _
             (Permutation_map (signed_area pos e) (incident_perm m Hwf Hm e He))).
  rewrite map_map.
  rewrite (map_ext_in _ (fun h => varea2 ROps (face_pts pos h))).
  - rewrite <- vsum_msum. destruct e as [[t i] c]. apply (table_area_zero pos t c).
  - intros h Hh. apply (signed_area_own pos m Hoc e He Hout h Hh).
Qed.

(* one third of sign * (area vector . facet centre), A = varea2/2, centre = vsum/n *)
Definition div_term (pos : Z -> RV3) (e : elem) (f : face) : R :=
  / 3 * (sgnR (odotR pos e f)
         * dot ROps (vscale ROps (/ 2) (varea2 ROps (face_pts pos f)))
                    (vscale ROps (/ of_nat ROps (length f)) (vsum ROps (face_pts pos f)))).

Lemma of_nat_34 : forall n, n = 3%nat \/ n = 4%nat -> of_nat ROps n <> 0.
Proof. intros n [-> | ->]; cbv [of_nat ROps add one zero]; lra. Qed.

Lemma dot_scale : forall a b (u v : RV3),
  dot ROps (vscale ROps a u) (vscale ROps b v) = a * b * dot ROps u v.
Proof. intros a b [[u1 u2] u3] [[v1 v2] v3]. cbv. ring. Qed.

Lemma R_comm' : forall a b : R, a + b = b + a. Proof. intros; ring. Qed.
Lemma R_assoc' : forall a b c : R, a + (b + c) = (a + b) + c. Proof. intros; ring. Qed.

Lemma sum_scaled : forall (g : face -> R) l k,
  msum R 0 Rplus (map (fun h => g h / k) l) = msum R 0 Rplus (map g l) / k.
Proof.
  intros g l k. induction l as [| x r IH].
  - simpl. unfold Rdiv. ring.
  - cbn [map].
    change (msum R 0 Rplus (g x / k :: map (fun h => g h / k) r))
      with (g x / k + msum R 0 Rplus (map (fun h => g h / k) r)).
    change (msum R 0 Rplus (g x :: map g r)) with (g x + msum R 0 Rplus (map g r)).
    rewrite IH. unfold Rdiv. ring.
Qed.

(* one third of the signed sum of area x (normal . facet centre) = the cell
   volume (femio's default volume kernel; see hex_planar_volume for planar hexes) *)
Theorem div_volume :
  forall pos m, wf_mesh m = true -> cells_meet_in_faces m = true -> oriented_conforming m = true ->
  forall e, In e (elems m) -> cell_outward pos e ->
    sumT ROps (map (div_term pos e) (filter (rel e) (facets m))) = elem_vol24 ROps pos e / 24.
Proof.
  intros pos m Hwf Hm Hoc e He Hout.
  change (sumT ROps) with (msum R 0 Rplus).
  rewrite (msum_perm R 0 Rplus R_comm' R_assoc' _ _
             (Permutation_map (div_term pos e) (incident_perm m Hwf Hm e He))).
  rewrite map_map.
  rewrite (map_ext_in _ (fun h => face24 ROps (face_pts pos h) / 24)).
  - rewrite sum_scaled. f_equal.
    change (msum R 0 Rplus (map (fun h => face24 ROps (face_pts pos h)) (elem_faces e)))
      with (enclosed24 ROps pos (elem_faces e)).
    apply elem_volume_eq.
  - intros h Hh.
    destruct (signed_area_own pos m Hoc e He Hout h Hh) as [_ [S L]].
    unfold div_term. rewrite dot_scale, L.
    pose proof (own_face_len e h Hh) as Hlen.
    assert (Hp : length (face_pts pos h) = 3%nat \/ length (face_pts pos h) = 4%nat)
      by (unfold face_pts; rewrite map_length; exact Hlen).
    pose proof (face24_div (face_pts pos h) Hp) as Hd.
    unfold face_pts in Hd at 1. rewrite map_length in Hd.
    pose proof (of_nat_34 (length h) Hlen) as Hnz.
    replace (/ 3 * (sgnR (odotR pos e (grep same_face [] (all_faces m) h))
                    * (/ 2 * / of_nat ROps (length h)
                       * dot ROps (varea2 ROps (face_pts pos (grep same_face [] (all_faces m) h)))
                                  (vsum ROps (face_pts pos (grep same_face [] (all_faces m) h))))))
      with (/ 3 * / 2 * / of_nat ROps (length h)
            * (sgnR (odotR pos e (grep same_face [] (all_faces m) h))
               * dot ROps (varea2 ROps (face_pts pos (grep same_face [] (all_faces m) h)))
                          (vsum ROps (face_pts pos (grep same_face [] (all_faces m) h)))))
      by ring.
    rewrite S.
    apply (Rmult_eq_reg_l (of_nat ROps (length h) * 24)); [| apply Rmult_integral_contrapositive_currified; [exact Hnz | lra]].
    unfold Rdiv.
    replace (of_nat ROps (length h) * 24 * (face24 ROps (face_pts pos h) * / 24))
      with (of_nat ROps (length h) * face24 ROps (face_pts pos h)) by (field).
    rewrite Hd. field. exact Hnz.
Qed.

(* planar-faced hexahedra: the volume in div_volume (centroid kernel) is the
   linear 5-tetrahedra volume as well *)
Theorem hex_planar_volume : forall p0 p1 p2 p3 p4 p5 p6 p7 : RV3,
  planarity p0 p1 p5 p4 = 0 -> planarity p0 p3 p2 p1 = 0 -> planarity p1 p2 p6 p5 = 0 ->
  planarity p2 p3 p7 p6 = 0 -> planarity p3 p0 p4 p7 = 0 -> planarity p4 p5 p6 p7 = 0 ->
  elem_vol24_pts ROps Hex [p0; p1; p2; p3; p4; p5; p6; p7] / 24
  = hex_linear6 p0 p1 p2 p3 p4 p5 p6 p7 / 6.
Proof.
  intros p0 p1 p2 p3 p4 p5 p6 p7 H1 H2 H3 H4 H5 H6.
  pose proof (hex_modes_differ_by_planarity p0 p1 p2 p3 p4 p5 p6 p7) as H.
  rewrite H1, H2, H3, H4, H5, H6 in H. lra.
Qed.

(* positions of a picked face = picked positions (indices in range) *)
Lemma face_pts_pick : forall (pos : Z -> RV3) c idx,
  (forall k, In k idx -> (k < length c)%nat) ->
  face_pts pos (pick c idx) = pick_pts (map pos c) idx.
Proof.
  intros pos c idx H. unfold face_pts, pick, pick_pts. rewrite map_map.
  apply map_ext_in. intros k Hk.
  rewrite (nth_indep (map pos c) (0, 0, 0) (pos 0%Z)) by (rewrite map_length; apply H; exact Hk).
  symmetry. apply map_nth.
Qed.

(* every tetrahedron of positive volume satisfies the convex-cell predicate *)
Lemma tet_cell_outward : forall (pos : Z -> RV3) i c0 c1 c2 c3,
  0 < tet_like ROps (pos c0) (pos c1) (pos c2) (pos c3) ->
  cell_outward pos (Tet, i, [c0; c1; c2; c3]).
Proof.
  intros pos i c0 c1 c2 c3 Hvol h Hh.
  unfold elem_faces, faces_of in Hh. cbn [length arity Nat.eqb used_cols firstn] in Hh.
  apply in_map_iff in Hh. destruct Hh as [idx [<- Hin]].
  unfold odotR, cellpts. cbn [snd].
  rewrite face_pts_pick.
  - cbn [map]. rewrite (tet_outward (pos c0) (pos c1) (pos c2) (pos c3) idx Hin). lra.
  - intros k Hk. apply (table_idx_lt Tet idx k Hin Hk).
Qed.

(* ... and so does every affine image with positive determinant of a reference
   cell (parallelepipeds in particular): C10's table_outward *)
Lemma affine_cell_outward : forall t (a : affine), 0 < detM a ->
  forall f, In f (table t) ->
    0 < outward2 ROps (map (aff a) (ref_cell t)) (pick_pts (map (aff a) (ref_cell t)) f).
Proof.
  intros t a Hdet f Hf. destruct (table_outward t f Hf a) as [E Hpos]. rewrite E.
  apply Rmult_lt_0_compat; assumption.
Qed.
