(* C12 — vocabulary for the translated decisions of calculate_normal_incidence_matrix
   (definitions only).  coq/C12/gen/IncidenceRule.v, regenerated from
   femio/geometry_processor.py by translate/c12_incidence.py, instantiates it:
     dedup_flag    the value of remove_duplicates in the to_facets(...) call
     min_sharing   the value of minimum_n_sharing in the relative-incidence call
     clamp_steps   the in-place assignments  X.data[X.data OP c] = v  in source order *)
From Coq Require Import List ZArith Bool.
Import ListNotations.
Open Scope Z_scope.

Inductive cmp := Clt | Cle | Cgt | Cge | Ceq | Cne.

Definition cmp_holds (o : cmp) (d c : Z) : bool :=
  match o with
  | Clt => Z.ltb d c | Cle => Z.leb d c | Cgt => Z.ltb c d | Cge => Z.leb c d
  | Ceq => Z.eqb d c | Cne => negb (Z.eqb d c)
  end.

(* one masked in-place assignment applied to one stored value *)
Definition clamp_step (d : Z) (s : cmp * Z * Z) : Z :=
  let '(o, c, v) := s in if cmp_holds o d c then v else d.

(* the assignments are executed one after the other on the same array *)
Definition apply_clamps (steps : list (cmp * Z * Z)) (d : Z) : Z := fold_left clamp_step steps d.
