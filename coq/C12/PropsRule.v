(* C12 — the decisions taken in calculate_normal_incidence_matrix, as translated from the
   source on every run (FV.C12.gen.IncidenceRule), are the ones the model makes.

   The hand model (C12/Model.v) hard-codes three decisions of the anchored method:
     - the facet mesh is de-duplicated            (reps / facets: one representative per node set)
     - a cell is incident to a facet when it contains ALL of its vertices (rel; minimum_n_sharing=None)
     - the stored sign is -1 for a negative dot product and +1 otherwise, 0 included (sgn)
   These theorems are re-checked against the regenerated file, i.e. against what the code says now,
   for EVERY integer value of the dot product — the value 0 is not reachable by the correspondence
   check on convex cells. *)
From Coq Require Import List ZArith Bool Lia.
Import ListNotations.
From FV.C10 Require Import Model.
From FV.C12 Require Import Model Rule.
From FV.C12.gen Require Import IncidenceRule.
Set Default Timeout 120.
Open Scope Z_scope.

Lemma sgn_rule_spec : forall d, sgn_rule d = if d <? 0 then -1 else 1.
Proof.
  intro d. unfold sgn_rule, apply_clamps, clamp_steps. cbn [fold_left clamp_step cmp_holds].
  destruct (Z.ltb_spec d 0) as [H | H].
  - reflexivity.
  - destruct (Z.leb_spec 0 d) as [H' | H']; [reflexivity | lia].
Qed.

(* the translated clamp, applied to the model's dot product, is the model's sign *)
Theorem C12_translated_sign_rule : forall pos e f, sgn pos e f = sgn_rule (odot pos e f).
Proof. intros. unfold sgn. now rewrite sgn_rule_spec. Qed.

(* the translated clamp yields only +1 / -1, and +1 exactly on non-negative dot products *)
Theorem C12_translated_sign_values : forall d,
  (sgn_rule d = 1 <-> 0 <= d) /\ (sgn_rule d = -1 <-> d < 0).
Proof.
  intro d. rewrite sgn_rule_spec. destruct (Z.ltb_spec d 0); split; split; intros; try lia; try reflexivity.
Qed.

(* the call flags are the ones the model assumes: duplicates removed; incidence = all vertices shared *)
Theorem C12_translated_call_flags : dedup_flag = true /\ min_sharing = None.
Proof. split; reflexivity. Qed.

(* non-vacuity *)
Example C12_sign_rule_examples :
  sgn_rule (-5) = -1 /\ sgn_rule 0 = 1 /\ sgn_rule 7 = 1 /\ length clamp_steps = 2%nat.
Proof. vm_compute. repeat split. Qed.

Print Assumptions C12_translated_sign_rule.
Print Assumptions C12_translated_sign_values.
Print Assumptions C12_translated_call_flags.
