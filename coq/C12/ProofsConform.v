(* C12 — for tetrahedral meshes the hypothesis cells_meet_in_faces is not a hypothesis:
   any three pairwise different nodes of a tetrahedron are one of its faces. *)
From Coq Require Import List ZArith Bool Arith Lia Permutation.
Import ListNotations.
From FV.C10 Require Import Model Groups ProofsSurface ProofsWf.
From FV.C12 Require Import Model Reps Proofs.
Set Default Timeout 120.

Definition all_tets (m : mesh) : bool :=
  forallb (fun e : elem => match fst (fst e) with Tet => true | _ => false end) (elems m).
Definition conn_nodup (m : mesh) : bool := forallb (fun e : elem => nodupZ (snd e)) (elems m).

Lemma same_face_of_perm : forall f h, Permutation f h -> same_face f h = true.
Proof.
  intros f h P. unfold same_face, key. rewrite (sortZ_perm_eq f h P). apply eqb_listZ_spec. reflexivity.
Qed.

Ltac perm3 :=
  first [ apply Permutation_refl
        | apply perm_swap
        | (apply perm_skip; apply perm_swap)
        | (eapply perm_trans; [apply perm_swap | apply perm_skip; apply perm_swap])
        | (eapply perm_trans; [apply perm_skip; apply perm_swap | apply perm_swap])
        | (eapply perm_trans; [apply perm_swap | eapply perm_trans; [apply perm_skip; apply perm_swap | apply perm_swap]]) ].

(* the faces of a tetrahedron with four listed nodes *)
Lemma tet_faces_shape : forall i c, length c = 4 ->
  exists c0 c1 c2 c3, c = [c0; c1; c2; c3]
    /\ Forall (fun h => exists x y z, h = [x; y; z] /\ In x c /\ In y c /\ In z c
                                      /\ (NoDup c -> x <> y /\ x <> z /\ y <> z))
              (elem_faces (Tet, i, c)).
Proof.
  intros i c H. destruct c as [| c0 [| c1 [| c2 [| c3 [| x r]]]]]; try discriminate.
  exists c0, c1, c2, c3. split; [reflexivity |].
  assert (Hd : NoDup [c0; c1; c2; c3] ->
               c0 <> c1 /\ c0 <> c2 /\ c0 <> c3 /\ c1 <> c2 /\ c1 <> c3 /\ c2 <> c3).
  { intro N. inversion N as [| ? ? N0 N']; subst. inversion N' as [| ? ? N1 N'']; subst.
    inversion N'' as [| ? ? N2 _]; subst. cbn [In] in *. repeat split; intro; subst; tauto. }
  vm_compute elem_faces.
  repeat (apply Forall_cons || apply Forall_nil);
    (do 3 eexists; split; [reflexivity |]; cbn [In];
     split; [tauto |]; split; [tauto |]; split; [tauto |];
     intro N; destruct (Hd N) as [? [? [? [? [? ?]]]]]; split; [congruence |]; split; congruence).
Qed.

Theorem tet_mesh_cells_meet_in_faces : forall m,
  wf_mesh m = true -> all_tets m = true -> conn_nodup m = true ->
  cells_meet_in_faces m = true.
Proof.
  intros m Hwf Ht Hn. unfold cells_meet_in_faces.
  apply forallb_forall. intros e He. apply forallb_forall. intros f Hf.
  destruct (rel e f) eqn:Hr; [cbn [implb] | reflexivity].
  (* shape of an element *)
  assert (Hshape : forall e', In e' (elems m) -> exists i c, e' = (Tet, i, c) /\ length c = 4 /\ NoDup c).
  { intros [[t i] c] He'. unfold all_tets in Ht. rewrite forallb_forall in Ht. specialize (Ht _ He').
    cbn [fst] in Ht. destruct t; try discriminate. exists i, c. split; [reflexivity |].
    unfold conn_nodup in Hn. rewrite forallb_forall in Hn. specialize (Hn _ He'). cbn [snd] in Hn.
    split; [| apply nodupZ_NoDup; exact Hn].
    unfold wf_mesh in Hwf. apply andb_true_iff in Hwf. destruct Hwf as [_ Hwf].
    rewrite forallb_forall in Hwf. specialize (Hwf _ He'). cbn [elem_wf] in Hwf.
    apply andb_true_iff in Hwf. destruct Hwf as [Hwf _]. apply andb_true_iff in Hwf. destruct Hwf as [Hwf _].
    apply Nat.eqb_eq in Hwf. exact Hwf. }
  (* f is a face of some tetrahedron: three pairwise different nodes *)
  rewrite reps_greps in Hf.
  destruct (greps_In same_face same_face_refl same_face_sym same_face_trans [] _ f Hf) as [Hin _].
  unfold all_faces in Hin. apply in_flat_map in Hin. destruct Hin as [e' [He' Hfe']].
  destruct (Hshape e' He') as [i' [c' [-> [Hl' Hnd']]]].
  destruct (tet_faces_shape i' c' Hl') as [d0 [d1 [d2 [d3 [_ HF]]]]].
  rewrite Forall_forall in HF. destruct (HF f Hfe') as [a [b [d [-> [_ [_ [_ Hdist]]]]]]].
  destruct (Hdist Hnd') as [Hab [Had Hbd]].
  (* all three are nodes of e *)
  destruct (Hshape e He) as [i [c [-> [Hl Hnd]]]].
  pose proof (proj1 (rel_spec _ _) Hr) as Hsub. cbn [conn_of snd] in Hsub.
  destruct c as [| c0 [| c1 [| c2 [| c3 [| x r]]]]]; try discriminate.
  assert (Ha := Hsub a (or_introl eq_refl)).
  assert (Hb := Hsub b (or_intror (or_introl eq_refl))).
  assert (Hd := Hsub d (or_intror (or_intror (or_introl eq_refl)))).
  apply existsb_exists. vm_compute elem_faces. cbn [In] in Ha, Hb, Hd.
  destruct Ha as [<- | [<- | [<- | [<- | []]]]]; destruct Hb as [<- | [<- | [<- | [<- | []]]]];
    try congruence;
    destruct Hd as [<- | [<- | [<- | [<- | []]]]]; try congruence;
    first [ solve [eexists; split; [left; reflexivity | apply same_face_of_perm; perm3]]
          | solve [eexists; split; [right; left; reflexivity | apply same_face_of_perm; perm3]]
          | solve [eexists; split; [right; right; left; reflexivity | apply same_face_of_perm; perm3]]
          | solve [eexists; split; [right; right; right; left; reflexivity | apply same_face_of_perm; perm3]] ].
Qed.
