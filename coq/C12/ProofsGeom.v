(* C12 — polynomial identities (over R, every coordinate value). *)
From Coq Require Import List ZArith Bool Arith Reals Lra Lia.
Import ListNotations.
From FV.C10.gen Require Import FaceTables.
From FV.C10 Require Import Model Groups ProofsGeom.
From FV.C12 Require Import Model.
Local Open Scope R_scope.

Lemma triple_eq : forall (a b c a' b' c' : R), a = a' -> b = b' -> c = c' -> (a, b, c) = (a', b', c').
Proof. intros; subst; reflexivity. Qed.

Ltac unfold_geom12 :=
  cbv [map nth outward2 varea2 vsum vadd vsub vscale vzero cross dot det3 vx vy vz of_nat length
       fold_right fst snd ROps add sub mul zero one opp
       face24 quad24 four tet_like elem_vol24_pts enclosed24 sumT face_pts firstn].

(* the vector areas of the faces of one element, in table orientation, sum to
   zero (closed polyhedral surface), for all node positions and all types *)
Definition area_sum (pos : Z -> RV3) (fs : list face) : RV3 :=
  vsum ROps (map (fun h => varea2 ROps (face_pts pos h)) fs).

Lemma table_area_zero :
  forall (pos : Z -> RV3) t c, area_sum pos (faces_of t c) = (0, 0, 0).
Proof.
  intros pos t c. unfold area_sum, faces_of.
  destruct (Nat.eqb (length c) (arity t)) eqn:E; [| reflexivity].
  apply Nat.eqb_eq in E.
  destruct t; simpl in E;
    repeat (destruct c as [| ?n c]; simpl in E; try discriminate);
    cbv [table concat tbl_tet tbl_tet2 tbl_pyr tbl_prism tbl_hex app pick used_cols arity cols_tet2];
    unfold_geom12; apply triple_eq; ring.
Qed.

(* one third of (area vector . centre) of a face is its divergence contribution:
   n * face24 = 4 * (varea2 . vsum)   i.e.  face24/24 = (1/3) (varea2/2) . (vsum/n) *)
Lemma face24_div : forall pts : list RV3, length pts = 3%nat \/ length pts = 4%nat ->
  of_nat ROps (length pts) * face24 ROps pts = 4 * dot ROps (varea2 ROps pts) (vsum ROps pts).
Proof.
  intros pts [H | H];
    repeat (destruct pts as [| ?p pts]; simpl in H; try discriminate);
    repeat match goal with p : RV3 |- _ => destruct p as [[? ?] ?] end;
    unfold_geom12; ring.
Qed.

(* reversing a face negates its area vector and its outward test *)
Lemma varea2_reversal : forall (pos : Z -> RV3) g f, is_reversal g f = true ->
  varea2 ROps (face_pts pos g) = vscale ROps (-1) (varea2 ROps (face_pts pos f)).
Proof.
  intros pos g f H.
  destruct f as [| a [| b [| c [| d [| e r]]]]]; simpl in H; try discriminate.
  - repeat rewrite orb_true_iff in H.
    destruct H as [H | [H | [H | H]]]; try discriminate;
      apply eqb_listZ_spec in H; subst g; unfold_geom12; apply triple_eq; ring.
  - repeat rewrite orb_true_iff in H.
    destruct H as [H | [H | [H | [H | H]]]]; try discriminate;
      apply eqb_listZ_spec in H; subst g; unfold_geom12; apply triple_eq; ring.
Qed.

Lemma reversal_length : forall g f, is_reversal g f = true -> length g = length f.
Proof.
  intros g f H.
  destruct f as [| a [| b [| c [| d [| e r]]]]]; simpl in H; try discriminate.
  - repeat rewrite orb_true_iff in H.
    destruct H as [H | [H | [H | H]]]; try discriminate; apply eqb_listZ_spec in H; subst g; reflexivity.
  - repeat rewrite orb_true_iff in H.
    destruct H as [H | [H | [H | [H | H]]]]; try discriminate; apply eqb_listZ_spec in H; subst g; reflexivity.
Qed.

Lemma vsum_reversal : forall (pos : Z -> RV3) g f, is_reversal g f = true ->
  vsum ROps (face_pts pos g) = vsum ROps (face_pts pos f).
Proof.
  intros pos g f H.
  destruct f as [| a [| b [| c [| d [| e r]]]]]; simpl in H; try discriminate.
  - repeat rewrite orb_true_iff in H.
    destruct H as [H | [H | [H | H]]]; try discriminate;
      apply eqb_listZ_spec in H; subst g; unfold_geom12; apply triple_eq; ring.
  - repeat rewrite orb_true_iff in H.
    destruct H as [H | [H | [H | [H | H]]]]; try discriminate;
      apply eqb_listZ_spec in H; subst g; unfold_geom12; apply triple_eq; ring.
Qed.

Lemma outward2_reversal : forall (pos : Z -> RV3) (cell : list RV3) g f, is_reversal g f = true ->
  outward2 ROps cell (face_pts pos g) = - outward2 ROps cell (face_pts pos f).
Proof.
  intros pos cell g f H. unfold outward2.
  rewrite (varea2_reversal pos g f H), (vsum_reversal pos g f H).
  unfold face_pts. rewrite !map_length, (reversal_length g f H).
  generalize (vsub ROps (vscale ROps (of_nat ROps (length cell)) (vsum ROps (map pos f)))
                (vscale ROps (of_nat ROps (length f)) (vsum ROps cell))) as u.
  generalize (varea2 ROps (map pos f)) as w.
  intros [[w1 w2] w3] [[u1 u2] u3]. cbv [dot vscale vx vy vz fst snd ROps mul add]. ring.
Qed.

(* every tetrahedron of positive volume has its vertex mean strictly inside
   all four face planes (table orientation): outward2 = 6 * det > 0 *)
Lemma tet_outward : forall (p0 p1 p2 p3 : RV3) h, In h (table Tet) ->
  outward2 ROps [p0; p1; p2; p3] (pick_pts [p0; p1; p2; p3] h) = 3 * tet_like ROps p0 p1 p2 p3.
Proof.
  intros [[x0 y0] z0] [[x1 y1] z1] [[x2 y2] z2] [[x3 y3] z3] h Hin.
  cbv [table concat tbl_tet app] in Hin. simpl in Hin.
  repeat (destruct Hin as [<- | Hin]; [cbv [pick_pts]; unfold_geom12; ring |]).
  contradiction.
Qed.

(* planar-faced hexahedra: femio's default (centroid) volume equals its
   "linear" 5-tetrahedra volume (_calculate_element_volumes_hex_with_nodes), i.e.
   the volume does not depend on how the quadrilateral faces are triangulated.
   In general  vol24_centroid - 4 * (6 vol_linear) = 2 * (signed sum of the six
   face-planarity determinants). *)
Definition planarity (a b c d : RV3) : R := det3 ROps (vsub ROps b a) (vsub ROps c a) (vsub ROps d a).
Definition hex_linear6 (p0 p1 p2 p3 p4 p5 p6 p7 : RV3) : R :=
  det3 ROps (vsub ROps p1 p4) (vsub ROps p0 p4) (vsub ROps p3 p4)
  + det3 ROps (vsub ROps p2 p6) (vsub ROps p1 p6) (vsub ROps p3 p6)
  + det3 ROps (vsub ROps p1 p6) (vsub ROps p4 p6) (vsub ROps p3 p6)
  + det3 ROps (vsub ROps p7 p3) (vsub ROps p4 p3) (vsub ROps p6 p3)
  + det3 ROps (vsub ROps p1 p5) (vsub ROps p4 p5) (vsub ROps p6 p5).

Lemma hex_modes_differ_by_planarity : forall p0 p1 p2 p3 p4 p5 p6 p7 : RV3,
  elem_vol24_pts ROps Hex [p0; p1; p2; p3; p4; p5; p6; p7] - 4 * hex_linear6 p0 p1 p2 p3 p4 p5 p6 p7
  = 2 * (- planarity p0 p1 p5 p4 - planarity p0 p3 p2 p1 + planarity p1 p2 p6 p5
         - planarity p2 p3 p7 p6 + planarity p3 p0 p4 p7 + planarity p4 p5 p6 p7).
Proof.
  intros [[x0 y0] z0] [[x1 y1] z1] [[x2 y2] z2] [[x3 y3] z3]
         [[x4 y4] z4] [[x5 y5] z5] [[x6 y6] z6] [[x7 y7] z7].
  unfold hex_linear6, planarity. unfold_geom12. ring.
Qed.

(* ---------------------------------------------------------------- *)
(* uniform scaling x |-> k x: area vectors scale by k^2, the outward test by
   k^3, element volumes by k^3 — for k > 0 facets, signs and unit normals are
   those of the unscaled mesh (used by the length-scale stream of the
   correspondence check, whose model runs on the unscaled integer mesh) *)
Lemma vsum_scale : forall k (l : list RV3),
  vsum ROps (map (vscale ROps k) l) = vscale ROps k (vsum ROps l).
Proof.
  intros k l. induction l as [| [[x y] z] r IH].
  - cbv. apply triple_eq; ring.
  - cbn [map vsum fold_right]. fold (vsum ROps (map (vscale ROps k) r)). rewrite IH.
    fold (vsum ROps r). destruct (vsum ROps r) as [[a b] c]. cbv. apply triple_eq; ring.
Qed.

Lemma varea2_scale : forall k (pts : list RV3),
  varea2 ROps (map (vscale ROps k) pts) = vscale ROps (k * k) (varea2 ROps pts).
Proof.
  intros k pts.
  destruct pts as [| [[? ?] ?] [| [[? ?] ?] [| [[? ?] ?] [| [[? ?] ?] [| [[? ?] ?] r]]]]];
    cbv [map varea2 vscale vadd cross vzero vx vy vz fst snd ROps mul add sub zero];
    apply triple_eq; ring.
Qed.

Lemma outward2_scale : forall k (cell face : list RV3),
  outward2 ROps (map (vscale ROps k) cell) (map (vscale ROps k) face)
  = k * k * k * outward2 ROps cell face.
Proof.
  intros k cell face. unfold outward2.
  rewrite !vsum_scale, varea2_scale, !map_length.
  generalize (of_nat ROps (length cell)) as a, (of_nat ROps (length face)) as b.
  destruct (vsum ROps face) as [[f1 f2] f3]. destruct (vsum ROps cell) as [[c1 c2] c3].
  destruct (varea2 ROps face) as [[w1 w2] w3]. intros a b.
  cbv [dot vsub vscale vx vy vz fst snd ROps mul add sub]. ring.
Qed.


(* ---------------------------------------------------------------- *)
(* translation x |-> x + t: area vectors and the sign test do not change at
   all — facets, signs and normals of a mesh far from the origin are those of
   the mesh at the origin (offset stream of the correspondence check) *)
Lemma vsum_translate : forall t (l : list RV3),
  vsum ROps (map (vadd ROps t) l) = vadd ROps (vscale ROps (of_nat ROps (length l)) t) (vsum ROps l).
Proof.
  intros [[t1 t2] t3] l. induction l as [| [[x y] z] r IH].
  - cbv. apply triple_eq; ring.
  - cbn [map vsum fold_right length of_nat]. fold (vsum ROps (map (vadd ROps (t1, t2, t3)) r)). rewrite IH.
    fold (vsum ROps r). destruct (vsum ROps r) as [[a b] c].
    generalize (of_nat ROps (length r)) as n. intro n.
    cbv [vadd vscale vx vy vz fst snd ROps mul add one]. apply triple_eq; ring.
Qed.

Lemma varea2_translate : forall t (pts : list RV3),
  varea2 ROps (map (vadd ROps t) pts) = varea2 ROps pts.
Proof.
  intros [[t1 t2] t3] pts.
  destruct pts as [| [[? ?] ?] [| [[? ?] ?] [| [[? ?] ?] [| [[? ?] ?] [| [[? ?] ?] r]]]]];
    cbv [map varea2 vadd cross vzero vx vy vz fst snd ROps mul add sub zero];
    try reflexivity; apply triple_eq; ring.
Qed.

Lemma outward2_translate : forall t (cell face : list RV3),
  outward2 ROps (map (vadd ROps t) cell) (map (vadd ROps t) face) = outward2 ROps cell face.
Proof.
  intros t cell face. unfold outward2.
  rewrite !vsum_translate, varea2_translate, !map_length.
  unfold RV3, V3 in *. set (a := of_nat ROps (length cell)). set (b := of_nat ROps (length face)). clearbody a b.
  destruct (vsum ROps face) as [[f1 f2] f3]. destruct (vsum ROps cell) as [[c1 c2] c3].
  destruct (varea2 ROps face) as [[w1 w2] w3]. destruct t as [[t1 t2] t3].
  cbv [dot vsub vadd vscale vx vy vz fst snd ROps mul add sub]. ring.
Qed.
