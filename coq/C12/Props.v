From Coq Require Import List ZArith Bool Arith Reals.
Import ListNotations.
From FV.C10 Require Import Model ProofsTables.
From FV.C12 Require Import Model.

Theorem C12_tables_closed : forall t, table_closedb (used_cols t) (table t) = true.
Proof. exact table_closed_each. Qed.
