(* C12 — signed cell-facet incidence obeys the discrete divergence theorem.
   Statements only.  The face tables (FV.C10.gen.FaceTables) are regenerated
   from /repo on every run.

   Model (C12/Model.v on top of C10/Model.v):
     reps m      first listed face of every node set (functions.remove_duplicates)
     facets m    the facet mesh: reps in np.unique order, triangles then quads
     rel e f     cell e contains all nodes of facet f  (relative incidence,
                 minimum_n_sharing=None)
     sign        sign of (facet centre - cell centre) . normal  =  sign of
                 outward2 (cell points) (facet points), >= 0 -> +1
   Hypotheses (boolean predicates of the mesh, Prop for the coordinates):
     wf_mesh, oriented_conforming   as in C10
     cells_meet_in_faces m   a cell containing all nodes of a facet has it as a face
                             (two cells meet in a common face, edge or vertex)
     cell_outward pos e      "convex cell": the vertex mean is strictly inside every
                             face plane, faces in table orientation; holds for every
                             positive tetrahedron (C12_tet_cells_convex) and every
                             positively oriented affine image of a reference cell
                             (C12_affine_cells_convex) *)
From Coq Require Import List ZArith Bool Arith Reals Lra.
Import ListNotations.
From FV.C10 Require Import Model Groups ProofsTables ProofsGeom.
From FV.C12 Require Import Model Reps ProofsGeom Proofs ProofsMatrix.

(* every cell is incident to exactly its own faces *)
Theorem C12_inc_own_faces :
  forall m, cells_meet_in_faces m = true ->
  forall e f, In e (elems m) -> In f (reps m) ->
    rel e f = existsb (same_face f) (elem_faces e).
Proof. exact inc_own_faces. Qed.

(* ... a cell is always incident to the facets on its own faces (no hypothesis) *)
Theorem C12_own_faces_incident :
  forall e f, existsb (same_face f) (elem_faces e) = true -> rel e f = true.
Proof. exact own_face_rel. Qed.

(* every facet is incident to one cell (boundary) or two cells (interior):
   as many as there are listings of its node set *)
Theorem C12_facet_cells :
  forall m, wf_mesh m = true -> cells_meet_in_faces m = true -> oriented_conforming m = true ->
  forall f, In f (reps m) ->
    let n := length (filter (fun e => rel e f) (elems m)) in
    n = occ same_face f (all_faces m) /\ (n = 1 \/ n = 2).
Proof. exact facet_cells. Qed.

(* the facet mesh lists every node set of a face exactly once *)
Theorem C12_facets_are_reps :
  forall m, Permutation.Permutation (facets m) (reps m) /\ NoDup (reps m).
Proof.
  intro m. split; [apply facets_perm |].
  rewrite reps_greps. apply (greps_NoDup same_face ProofsSurface.same_face_refl
                               ProofsSurface.same_face_sym ProofsSurface.same_face_trans).
Qed.

(* sign = +1 exactly on the cell's own (outward) orientation, -1 on its reversal *)
Theorem C12_sign_is_orientation :
  forall pos e, cell_outward pos e ->
  forall h, In h (elem_faces e) ->
    sgnR (odotR pos e h) = 1%R
    /\ (forall g, is_reversal h g = true -> sgnR (odotR pos e g) = (-1)%R).
Proof. exact sign_is_orientation. Qed.

(* an interior facet is seen with opposite signs by its two cells *)
Theorem C12_interior_opposite :
  forall pos m, oriented_conforming m = true ->
  forall f g, In [f; g] (groups same_face (all_faces m)) ->
  forall e1 e2, In f (elem_faces e1) -> In g (elem_faces e2) ->
    cell_outward pos e1 -> cell_outward pos e2 ->
    sgnR (odotR pos e1 f) = 1%R /\ sgnR (odotR pos e2 f) = (-1)%R.
Proof. exact interior_opposite. Qed.

(* for each cell the signed area vectors of its facets sum to zero *)
Theorem C12_div_area :
  forall pos m, wf_mesh m = true -> cells_meet_in_faces m = true -> oriented_conforming m = true ->
  forall e, In e (elems m) -> cell_outward pos e ->
    vsum ROps (map (signed_area pos e) (filter (rel e) (facets m))) = (0, 0, 0)%R.
Proof. exact div_area. Qed.

(* one third of the signed sum of area x (normal . facet centre) is the cell
   volume (femio's default volume kernel of the cell type: exact for tets) *)
Theorem C12_div_volume :
  forall pos m, wf_mesh m = true -> cells_meet_in_faces m = true -> oriented_conforming m = true ->
  forall e, In e (elems m) -> cell_outward pos e ->
    sumT ROps (map (div_term pos e) (filter (rel e) (facets m))) = (elem_vol24 ROps pos e / 24)%R.
Proof. exact div_volume. Qed.

(* planar-faced hexahedra: that volume is also the linear (5-tetrahedra)
   volume, i.e. it does not depend on how the faces are triangulated *)
Theorem C12_hex_planar_volume : forall p0 p1 p2 p3 p4 p5 p6 p7 : RV3,
  planarity p0 p1 p5 p4 = 0%R -> planarity p0 p3 p2 p1 = 0%R -> planarity p1 p2 p6 p5 = 0%R ->
  planarity p2 p3 p7 p6 = 0%R -> planarity p3 p0 p4 p7 = 0%R -> planarity p4 p5 p6 p7 = 0%R ->
  (elem_vol24_pts ROps Hex [p0; p1; p2; p3; p4; p5; p6; p7] / 24
   = hex_linear6 p0 p1 p2 p3 p4 p5 p6 p7 / 6)%R.
Proof. exact hex_planar_volume. Qed.

(* the convex-cell hypothesis holds for positive tetrahedra and for positively
   oriented affine images of the reference cells *)
Theorem C12_tet_cells_convex : forall (pos : Z -> RV3) i c0 c1 c2 c3,
  (0 < tet_like ROps (pos c0) (pos c1) (pos c2) (pos c3))%R ->
  cell_outward pos (Tet, i, [c0; c1; c2; c3]).
Proof. exact tet_cell_outward. Qed.

Theorem C12_affine_cells_convex : forall t (a : affine), (0 < detM a)%R ->
  forall f, In f (table t) ->
    (0 < outward2 ROps (map (aff a) (ref_cell t)) (pick_pts (map (aff a) (ref_cell t)) f))%R.
Proof. exact affine_cell_outward. Qed.

(* scale covariance: under x |-> k x area vectors scale by k^2 and the sign
   test by k^3, so for k > 0 the facets, signs and unit normals are those of the
   unscaled mesh *)
Theorem C12_scale_covariant : forall (k : R) (cell face : list RV3),
  outward2 ROps (map (vscale ROps k) cell) (map (vscale ROps k) face)
  = (k * k * k * outward2 ROps cell face)%R
  /\ varea2 ROps (map (vscale ROps k) face) = vscale ROps (k * k)%R (varea2 ROps face).
Proof. intros. split; [apply outward2_scale | apply varea2_scale]. Qed.

(* translation invariance: under x |-> x + t neither the area vectors nor the
   sign test change, so facets, signs and normals of a mesh far from the origin
   are those of the mesh at the origin *)
Theorem C12_translation_invariant : forall (t : RV3) (cell face : list RV3),
  outward2 ROps (map (vadd ROps t) cell) (map (vadd ROps t) face) = outward2 ROps cell face
  /\ varea2 ROps (map (vadd ROps t) face) = varea2 ROps face.
Proof. intros. split; [apply outward2_translate | apply varea2_translate]. Qed.

(* ---- the property stated on the MATRIX itself ---------------------------------
   `incidence pos m` is the list of sorted COO triples (row, column, value) that the
   correspondence check compares exactly with the scipy matrix returned by
   calculate_normal_incidence_matrix; coordinates are integers (ZOps) and every
   hypothesis is a boolean that the check evaluates on every generated mesh
   (wf_mesh, cells_meet_in_faces, oriented_conforming, forallb cell_outwardb). *)

(* the integer geometry is the real geometry: sign test and convex-cell predicate *)
Theorem C12_Z_model_is_R_model : forall pos e f,
  IZR (sgn pos e f) = sgnR (odotR (posR pos) e f)
  /\ (cell_outwardb pos e = true -> cell_outward (posR pos) e).
Proof. intros. split; [apply IZR_sgn | apply cell_outwardb_outward]. Qed.

(* rows: one entry per face of the cell, in the column of the facet on that face,
   and the signed (doubled) area vectors of the row sum to zero *)
Theorem C12_matrix_row : forall pos m,
  wf_mesh m = true -> cells_meet_in_faces m = true -> oriented_conforming m = true ->
  forallb (cell_outwardb pos) (elems m) = true ->
  forall i e, nth_error (cells m) i = Some e ->
    let row := row_of i (incidence pos m) in
    length row = length (elem_faces e)
    /\ (forall t, In t row -> exists f,
          nth_error (facets m) (snd (fst t)) = Some f
          /\ existsb (same_face f) (elem_faces e) = true
          /\ snd t = sgn pos e f)
    /\ vsum ZOps (map (fun t => vscale ZOps (snd t)
                                  (facet_area2 pos (nth (snd (fst t)) (facets m) []))) row)
       = (0, 0, 0)%Z.
Proof. exact matrix_row. Qed.

(* rows, volume: (1/3) sum over the entries of row i of sign * area * (normal . facet
   centre) is the volume of cell i; stated x 72 so that no division occurs
   (2A = facet_area2, n c = vsum, 12/n in {4, 3}, 24 V = elem_vol24) *)
Theorem C12_matrix_row_volume : forall pos m,
  wf_mesh m = true -> cells_meet_in_faces m = true -> oriented_conforming m = true ->
  forallb (cell_outwardb pos) (elems m) = true ->
  forall i e, nth_error (cells m) i = Some e ->
    sumT ZOps (map (fun t => let f := nth (snd (fst t)) (facets m) [] in
                             (snd t * dot ZOps (facet_area2 pos f) (vsum ZOps (map pos f))
                              * (12 / Z.of_nat (length f)))%Z)
                   (row_of i (incidence pos m)))
    = (3 * elem_vol24 ZOps pos e)%Z.
Proof. exact matrix_row_volume. Qed.

(* positions: every triple lies inside the (#cells x #facets) shape, and no position is
   listed twice (within a row the columns are pairwise different, within a column the
   rows are) — together with C12_matrix_row: row i marks exactly one column per face of
   cell i.  No hypothesis on the mesh. *)
Theorem C12_matrix_positions : forall pos m,
  (forall t, In t (incidence pos m) ->
     fst (fst t) < length (cells m) /\ snd (fst t) < length (facets m))
  /\ (forall i e, nth_error (cells m) i = Some e ->
        NoDup (map (fun t => snd (fst t)) (row_of i (incidence pos m))))
  /\ (forall j f, nth_error (facets m) j = Some f ->
        NoDup (map (fun t => fst (fst t)) (col_of j (incidence pos m)))).
Proof.
  intros pos m. split; [apply incidence_in_range |]. split; [apply row_cols_NoDup | apply col_rows_NoDup].
Qed.

(* columns: a boundary facet has the single entry +1, an interior facet exactly
   the two entries +1 and -1 *)
Theorem C12_matrix_column : forall pos m,
  wf_mesh m = true -> cells_meet_in_faces m = true -> oriented_conforming m = true ->
  forallb (cell_outwardb pos) (elems m) = true ->
  forall j f, nth_error (facets m) j = Some f ->
    let col := map snd (col_of j (incidence pos m)) in
    col = [1%Z] \/ Permutation.Permutation col [1%Z; (-1)%Z].
Proof. exact matrix_column. Qed.

(* in the order of `elems m` (= row order for a single-type mesh) the first-listed
   cell owns the stored orientation: the column reads [1] or [1; -1] *)
Theorem C12_column_first_owner_positive : forall pos m,
  wf_mesh m = true -> cells_meet_in_faces m = true -> oriented_conforming m = true ->
  forallb (cell_outwardb pos) (elems m) = true ->
  forall f, In f (reps m) ->
    let vals := map (fun e => sgn pos e f) (filter (fun e => rel e f) (elems m)) in
    vals = [1%Z] \/ vals = [1%Z; (-1)%Z].
Proof. exact column_elems_order. Qed.

(* sign = orientation over Z (boolean convex-cell hypothesis) *)
Theorem C12_sign_is_orientation_Z : forall pos e, cell_outwardb pos e = true ->
  forall h, In h (elem_faces e) ->
    sgn pos e h = 1%Z /\ (forall g, is_reversal h g = true -> sgn pos e g = (-1)%Z).
Proof. exact sgn_orientation_Z. Qed.

(* non-vacuity: two positive tetrahedra glued along a face, sparse unsorted ids *)
Definition ex_mesh : mesh :=
  {| m_nodes := [40; 7; 19; 3; 88]%Z;
     m_blocks := [(Tet, [(5, [7; 19; 3; 40]); (2, [19; 7; 3; 88])]%Z)] |}.
Definition ex_pos (i : Z) : RV3 :=
  if Z.eqb i 7 then (0, 0, 0)%R else if Z.eqb i 19 then (1, 0, 0)%R
  else if Z.eqb i 3 then (0, 1, 0)%R else if Z.eqb i 40 then (0, 0, 1)%R else (0, 0, -1)%R.
Example C12_hypotheses_satisfiable :
  wf_mesh ex_mesh = true /\ oriented_conforming ex_mesh = true /\ cells_meet_in_faces ex_mesh = true
  /\ length (facets ex_mesh) = 7
  /\ (forall e, In e (elems ex_mesh) -> cell_outward ex_pos e).
Proof.
  split; [vm_compute; reflexivity |]. split; [vm_compute; reflexivity |].
  split; [vm_compute; reflexivity |]. split; [vm_compute; reflexivity |].
  intros e He. simpl in He. destruct He as [<- | [<- | []]];
    apply tet_cell_outward; cbv [ex_pos Z.eqb Pos.eqb tet_like det3 dot cross vsub vx vy vz fst snd ROps sub mul add];
    lra.
Qed.

(* non-vacuity of the matrix theorems: the same mesh with integer coordinates; all four boolean
   hypotheses hold, the matrix is 2 x 7 with 8 entries, column of the shared facet = [1; -1] *)
Definition ex_posZ (i : Z) : Z * Z * Z :=
  if Z.eqb i 7 then (0, 0, 0)%Z else if Z.eqb i 19 then (1, 0, 0)%Z
  else if Z.eqb i 3 then (0, 1, 0)%Z else if Z.eqb i 40 then (0, 0, 1)%Z else (0, 0, -1)%Z.
Example C12_matrix_hypotheses_satisfiable :
  wf_mesh ex_mesh = true /\ oriented_conforming ex_mesh = true /\ cells_meet_in_faces ex_mesh = true
  /\ forallb (cell_outwardb ex_posZ) (elems ex_mesh) = true
  /\ length (incidence ex_posZ ex_mesh) = 8
  /\ incidence ex_posZ ex_mesh
     = [(0, 0, 1%Z); (0, 1, 1%Z); (0, 3, 1%Z); (0, 5, 1%Z); (1, 0, (-1)%Z); (1, 2, 1%Z); (1, 4, 1%Z); (1, 6, 1%Z)]%nat
  /\ exists j, map snd (col_of j (incidence ex_posZ ex_mesh)) = [1%Z; (-1)%Z].
Proof.
  repeat (split; [vm_compute; reflexivity |]).
  exists 0%nat.
  vm_compute. reflexivity.
Qed.

Print Assumptions C12_div_area.
Print Assumptions C12_matrix_row.
Print Assumptions C12_matrix_row_volume.
Print Assumptions C12_matrix_positions.
Print Assumptions C12_matrix_column.
Print Assumptions C12_column_first_owner_positive.
Print Assumptions C12_sign_is_orientation_Z.
Print Assumptions C12_Z_model_is_R_model.
Print Assumptions C12_div_volume.
Print Assumptions C12_facet_cells.
