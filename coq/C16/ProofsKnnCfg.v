(* C16 — the k-nearest search with its decision points read from a configuration
   (translated from the source on every run): every configuration accepted by
   cfg_ok returns the brute-force distances with realising, distinct indices. *)
From Coq Require Import ZArith List Bool Lia Permutation Sorted.
Import ListNotations.
From FV.C16 Require Import Model ProofsSort ProofsKnn.
Open Scope Z_scope.

Lemma cmp_eqb_eq a b : cmp_eqb a b = true -> a = b.
Proof. destruct a, b; simpl; congruence. Qed.

Lemma cfg_ok_inv c : cfg_ok c = true ->
  (kth_cmp c = Gt \/ kth_cmp c = Ge) /\ bound_cmp c = Gt /\ join_or c = true /\
  leaf_cmp c = Gt /\ leaf_upd c = PushPop.
Proof.
  unfold cfg_ok. rewrite !andb_true_iff, orb_true_iff.
  intros ((((H1 & H2) & H3) & H4) & H5).
  split. { destruct H1 as [H1|H1]; apply cmp_eqb_eq in H1; auto. }
  split. { apply cmp_eqb_eq; auto. } split; auto.
  split. { apply cmp_eqb_eq; auto. }
  destruct (leaf_upd c); auto; discriminate.
Qed.

Lemma code_cfg_ok : cfg_ok cfg_code = true.
Proof. reflexivity. Qed.

Section CfgProof.
  Variable cfg : kcfg.
  Hypothesis Hok : cfg_ok cfg = true.
  Variable pick : queue -> option ((Z * tree) * queue).
  Hypothesis pick_spec : pick_ok pick.
  Variables (k : nat) (bound : D) (q : P).

  Notation dists := (map (@fst D Z)).

  Lemma leaf_step_cfg_eq res ip : leaf_step_cfg cfg k bound q res ip = leaf_step k bound q res ip.
  Proof.
    destruct (cfg_ok_inv cfg Hok) as (_ & _ & _ & Hl & Hu).
    unfold leaf_step_cfg, leaf_step. rewrite Hl, Hu. reflexivity.
  Qed.
  Lemma fold_leaf_cfg pts : forall res,
    fold_left (leaf_step_cfg cfg k bound q) pts res = fold_left (leaf_step k bound q) pts res.
  Proof. induction pts; simpl; intros; auto. rewrite leaf_step_cfg_eq. auto. Qed.

  Lemma prune_cfg_sound res d : prune_cfg cfg bound res d = true ->
    Dleb (kth res) (Fin d) = true \/ Dltb bound (Fin d) = true.
  Proof.
    destruct (cfg_ok_inv cfg Hok) as (Hk & Hb & Hj & _ & _).
    unfold prune_cfg. rewrite Hb, Hj. rewrite orb_true_iff. intros [H|H]; auto.
    left. destruct Hk as [Hk|Hk]; rewrite Hk in H; simpl in H; auto. apply Dltb_Dleb; auto.
  Qed.

  Lemma dists_sorted res : PS res -> DS (dists res).
  Proof. apply map_fst_sorted. Qed.

  (* a subtree whose lower bound is not below the k-th best distance cannot change the
     distance list of a full result *)
  Lemma dprune_kth res d t :
    PS res -> length res = k ->
    (forall ip, In ip (points t) -> d <= d2 q (snd ip)) ->
    Dleb (kth res) (Fin d) = true ->
    dbest k (dists res ++ dists (tcands bound q t)) = dists res.
  Proof.
    intros Hs Hl Hlb Hk. apply dprune_ok.
    - apply dists_sorted; auto.
    - rewrite map_length; auto.
    - intros x y Hx Hy. apply in_map_iff in Hx. destruct Hx as [e [<- He]].
      apply in_map_iff in Hy. destruct Hy as [e' [<- He']].
      apply cands_In in He. destruct He as [ip [Hip [-> _]]]. simpl.
      eapply Dleb_trans. { apply pleb_fst. apply sorted_last_max; eauto. }
      eapply Dleb_trans; [exact Hk|]. simpl. apply Z.leb_le. auto.
  Qed.

  Lemma qcands_push cs rest :
    qcands bound q (push_children_cfg cfg q cs rest) =
    tcands bound q (Node (0, 0, 0, 0) cs) ++ qcands bound q rest.
  Proof.
    unfold push_children_cfg. destruct (skip_empty cfg).
    - apply qcands_children.
    - unfold qcands. rewrite flat_map_app. f_equal. unfold tcands. simpl.
      rewrite cands_flat_map. induction cs; simpl; congruence.
  Qed.

  Lemma search_cfg_inv : forall fuel que res,
    (qsize que < fuel)%nat -> qinv q que -> PS res -> length res = k ->
    exists R, search_cfg cfg pick k bound q fuel que res = Some R /\
              length R = k /\
              dists R = dbest k (dists (res ++ qcands bound q que)) /\
              exists rest, Permutation (res ++ qcands bound q que) (R ++ rest).
  Proof.
    induction fuel as [|f IH]; intros que res Hf Hq Hs Hl. { lia. }
    simpl. pose proof (pick_spec que) as Hp.
    destruct (pick que) as [[[d t] rest]|].
    2:{ subst que. exists res. simpl. rewrite app_nil_r. split; auto. split; auto. split.
        - symmetry. apply (gbest_id Dleb Dleb_total Dleb_trans Dleb_antisym).
          apply dists_sorted; auto. apply Nat.eq_le_incl. rewrite map_length. exact Hl.
        - exists []. rewrite app_nil_r. reflexivity. }
    assert (qinv q ((d, t) :: rest)) as Hq'.
    { unfold qinv in *. eapply Permutation_Forall; eauto. }
    apply Forall_cons_iff in Hq'. destruct Hq' as [[Hv Hlb] Hqr]. simpl in Hv, Hlb.
    rewrite (qsize_perm _ _ Hp) in Hf. unfold qsize in Hf. simpl in Hf. fold (qsize rest) in Hf.
    pose proof (size_pos t).
    assert (Permutation (res ++ qcands bound q que)
                        (res ++ tcands bound q t ++ qcands bound q rest)) as Hperm.
    { apply Permutation_app_head. apply (qcands_perm bound q _ _ Hp). }
    cut (exists R, (if prune_cfg cfg bound res d then search_cfg cfg pick k bound q f rest res
                    else match t with
                         | Leaf _ pts => search_cfg cfg pick k bound q f rest
                                           (fold_left (leaf_step_cfg cfg k bound q) pts res)
                         | Node _ cs => search_cfg cfg pick k bound q f (push_children_cfg cfg q cs rest) res
                         end) = Some R /\ length R = k /\
                   dists R = dbest k (dists (res ++ tcands bound q t ++ qcands bound q rest)) /\
                   exists r', Permutation (res ++ tcands bound q t ++ qcands bound q rest) (R ++ r')).
    { intros (R & H1 & H2 & H3 & r' & H4). exists R. split; auto. split; auto. split.
      - rewrite H3. apply dbest_perm, Permutation_map. symmetry; auto.
      - exists r'. etransitivity; eauto. }
    destruct (prune_cfg cfg bound res d) eqn:Epr.
    - (* pruned *)
      destruct (IH rest res) as (R & H1 & H2 & H3 & r' & H4); auto; try lia.
      exists R. split; auto. split; auto.
      apply prune_cfg_sound in Epr. destruct Epr as [E|E].
      + split.
        * rewrite H3, !map_app. rewrite (app_assoc (dists res)).
          rewrite <- (dbest_absorb k (dists res ++ dists (tcands bound q t))).
          rewrite (dprune_kth res d t); auto.
        * exists (r' ++ tcands bound q t).
          transitivity ((res ++ qcands bound q rest) ++ tcands bound q t).
          -- rewrite <- app_assoc. apply Permutation_app_head. apply Permutation_app_comm.
          -- rewrite (app_assoc R). apply Permutation_app_tail. exact H4.
      + rewrite (prune_bound bound q d t); auto. simpl. split; auto. exists r'; auto.
    - destruct t as [b pts|b cs].
      + (* leaf *)
        rewrite fold_leaf_cfg.
        destruct (leaf_fold k bound q pts res Hs Hl) as (L1 & L2 & L3). cbv zeta in L1, L2, L3.
        destruct (IH rest (fold_left (leaf_step k bound q) pts res)) as (R & H1 & H2 & H3 & r' & H4);
          auto; try lia.
        exists R. split; auto. split; auto.
        change (tcands bound q (Leaf b pts)) with (cands bound q pts).
        split.
        * rewrite H3, L3, map_app, dists_best, dbest_absorb, <- map_app, app_assoc. reflexivity.
        * destruct (best_sub k (res ++ cands bound q pts)) as [dropped Hd].
          exists (r' ++ dropped).
          transitivity ((best k (res ++ cands bound q pts) ++ dropped) ++ qcands bound q rest).
          -- rewrite app_assoc. apply Permutation_app_tail. exact Hd.
          -- rewrite <- L3.
             transitivity ((fold_left (leaf_step k bound q) pts res ++ qcands bound q rest) ++ dropped).
             ++ rewrite <- !app_assoc. apply Permutation_app_head. apply Permutation_app_comm.
             ++ rewrite (app_assoc R). apply Permutation_app_tail. exact H4.
      + (* inner node *)
        destruct (IH (push_children_cfg cfg q cs rest) res) as (R & H1 & H2 & H3 & r' & H4); auto.
        * unfold push_children_cfg. rewrite qsize_app. simpl in Hf.
          assert (qsize (map (fun c => (lb2 q (box_of c), c))
                             (if skip_empty cfg then filter nonempty cs else cs))
                  <= list_sum (map size cs))%nat.
          { unfold qsize. rewrite map_map. simpl. destruct (skip_empty cfg); [apply list_sum_filter|apply le_n]. }
          lia.
        * unfold qinv, push_children_cfg. apply Forall_app. split; auto.
          rewrite Forall_forall. intros dt Hdt. apply in_map_iff in Hdt.
          destruct Hdt as [c [<- Hc]].
          assert (In c cs) as Hc'.
          { destruct (skip_empty cfg); auto. apply filter_In in Hc. tauto. }
          simpl. pose proof (valid_children _ _ Hv c Hc') as Hvc. split; auto.
          intros ip Hip. apply box_lb_sound. apply valid_in_box; auto.
        * exists R. split; auto. split; auto.
          rewrite qcands_push, (tcands_node bound q _ b) in H3, H4. split; auto. exists r'; auto.
  Qed.

  Lemma NoDup_perm_fst (a b : list (Z * P)) : Permutation a b -> NoDup (map fst b) -> NoDup (map fst a).
  Proof. intros Hp Hn. eapply Permutation_NoDup; [|exact Hn]. apply Permutation_map. symmetry; auto. Qed.

  Theorem knn_cfg_correct fuel t targets :
    validb t = true -> tree_of t targets -> (size t < fuel)%nat ->
    exists res,
      knn_cfg cfg pick fuel k bound q t = Some res /\
      map fst res = knn_spec_dists k bound q targets /\
      length res = k /\
      (forall e, In e res ->
         e = pad \/ exists p, nth_pt targets (snd e) = Some p /\ fst e = Fin (d2 q p) /\
                              within bound q p = true) /\
      NoDup (map snd (filter finite res)).
  Proof.
    intros Hv Ht Hf. unfold knn_cfg.
    destruct (search_cfg_inv fuel [(0, t)] (repeat pad k)) as (R & H1 & H2 & H3 & rest & H4).
    - unfold qsize. simpl. lia.
    - constructor; [|constructor]. simpl. split; auto. intros. apply d2_nonneg.
    - apply repeat_pad_sorted.
    - apply repeat_length.
    - unfold qcands in H3, H4. simpl in H3, H4. rewrite app_nil_r in H3, H4.
      fold (tcands bound q t) in H3, H4.
      exists R. split; auto. split.
      { rewrite H3, <- knn_spec_fst. unfold knn_spec. rewrite dists_best.
        apply dbest_perm, Permutation_map. rewrite Permutation_app_comm.
        apply Permutation_app_tail. apply cands_perm. exact Ht. }
      split; auto. split.
      { intros e He.
        assert (In e (repeat pad k ++ tcands bound q t)) as Hin.
        { eapply Permutation_in; [symmetry; exact H4|]. apply in_or_app; auto. }
        apply in_app_or in Hin. destruct Hin as [Hin|Hin].
        - left. apply repeat_spec in Hin. auto.
        - right. apply cands_In in Hin. destruct Hin as [[i p] [Hip [-> Hw]]]. simpl in *.
          exists p. assert (In (i, p) (indexed targets)) as Hidx by (eapply Permutation_in; eauto).
          apply indexed_nth in Hidx. destruct Hidx as [H0 Hn]. unfold nth_pt.
          destruct (Z.ltb_spec i 0); [lia|]. auto. }
      { apply (filter_perm finite) in H4. rewrite !filter_app, filter_finite_pad in H4. simpl in H4.
        apply (Permutation_map snd) in H4. rewrite map_app in H4.
        assert (NoDup (map snd (filter finite (tcands bound q t)))) as Hn.
        { apply NoDup_map_filter. unfold tcands, cands. rewrite map_map. simpl.
          apply NoDup_map_filter. apply (NoDup_perm_fst _ _ Ht).
          rewrite indexed_fst. apply NoDup_map_of_nat, seq_NoDup. }
        apply (Permutation_NoDup H4) in Hn. eapply NoDup_app_l; eauto. }
  Qed.
End CfgProof.

(* with the configuration of the unchanged code the configurable search is the model `search` *)
Lemma search_cfg_code pick k bound q : forall fuel que res,
  search_cfg cfg_code pick k bound q fuel que res = search pick k bound q fuel que res.
Proof.
  induction fuel as [|f IH]; intros que res; [reflexivity|].
  cbn [search_cfg search].
  destruct (pick que) as [[[d t] rest]|]; [|reflexivity].
  change (prune_cfg cfg_code bound res d) with (Dltb (kth res) (Fin d) || Dltb bound (Fin d)).
  destruct (Dltb (kth res) (Fin d) || Dltb bound (Fin d)); [apply IH|].
  destruct t as [b pts|b cs]; apply IH.
Qed.
