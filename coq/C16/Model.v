(* C16 — spatial searches (femio/graph_processor.py).  Definitions only.

   Numbers.  Coordinates are integers (rational point sets are scaled by a
   common denominator).  Every distance is a *squared* Euclidean distance in Z;
   the code compares sqrt's of the same quantities and sqrt is monotone, so every
   comparison `d > e` of the code is the comparison of the squares here.
   `D` adds the `inf` the code pads with / starts from.

   Modelled code (hand model, tie = correspondence):
     _nns_from_nodes_to_nodes          -> search / knn
     _calc_directed_hausdorff_nodes    -> ub_search, nn_search, hd_loop, directed_hd
     calculate_hausdorff_distance_nodes-> hausdorff
     _calculate_euclidean_hop_graph_*  -> bfs, hop_nodal, hop_elemental
   The octree (build_octree_node) is an arbitrary finite tree of boxes with the
   invariant `validb`; `build` is an exact-arithmetic rendering of the
   construction used to run the search model and to show `validb` is inhabited. *)
From Coq Require Import ZArith List Bool Lia.
Import ListNotations.
Open Scope Z_scope.

(* ------------------------------------------------------------------ numbers *)
Definition P := (Z * Z * Z)%type.
Definition sq (a : Z) : Z := a * a.
Definition d2 (q p : P) : Z :=
  let '(x, y, z) := q in let '(a, b, c) := p in sq (x - a) + sq (y - b) + sq (z - c).

Inductive D := Fin (d : Z) | Inf.
Definition Dleb (a b : D) : bool :=
  match a, b with
  | Fin x, Fin y => x <=? y
  | _, Inf => true
  | Inf, Fin _ => false
  end.
Definition Dltb (a b : D) : bool := negb (Dleb b a).
Definition Deqb (a b : D) : bool := Dleb a b && Dleb b a.
Definition Dmin (a b : D) : D := if Dleb a b then a else b.
Definition Dmax (a b : D) : D := if Dleb a b then b else a.

(* ------------------------------------------------- generic insertion sort *)
Section Sort.
  Context {A : Type}.
  Variable leb : A -> A -> bool.
  Fixpoint insert (x : A) (l : list A) : list A :=
    match l with
    | [] => [x]
    | y :: l' => if leb x y then x :: y :: l' else y :: insert x l'
    end.
  Definition isort (l : list A) : list A := fold_right insert [] l.
End Sort.

(* result entries (distance, target index); the order realised by the code's
   heap of (-d, id): ascending distance, ties by descending index *)
Definition entry := (D * Z)%type.
Definition pleb (a b : entry) : bool :=
  Dltb (fst a) (fst b) || (Deqb (fst a) (fst b) && (snd b <=? snd a)).
Definition pad : entry := (Inf, -1).
Definition best (k : nat) (l : list entry) : list entry := firstn k (isort pleb l).
(* heapq.heappushpop on the k-slot result heap *)
Definition insert_trunc (k : nat) (x : entry) (l : list entry) : list entry :=
  firstn k (insert pleb x l).
Definition kth (res : list entry) : D := fst (last res pad).

(* ------------------------------------------------------------------- boxes *)
(* node_xyzw row: centre and half width *)
Definition box := (Z * Z * Z * Z)%type.
Definition clamp (lo hi x : Z) : Z := Z.min hi (Z.max lo x).
Definition inbox (b : box) (p : P) : bool :=
  let '(cx, cy, cz, w) := b in let '(x, y, z) := p in
  (cx - w <=? x) && (x <=? cx + w) && (cy - w <=? y) && (y <=? cy + w) &&
  (cz - w <=? z) && (z <=? cz + w).
(* possible_dist_min, squared *)
Definition lb2 (q : P) (b : box) : Z :=
  let '(cx, cy, cz, w) := b in let '(x, y, z) := q in
  sq (x - clamp (cx - w) (cx + w) x) + sq (y - clamp (cy - w) (cy + w) y) +
  sq (z - clamp (cz - w) (cz + w) z).
(* possible_dist_range: hi, squared *)
Definition hi2 (q : P) (b : box) : Z :=
  let '(cx, cy, cz, w) := b in let '(x, y, z) := q in
  sq (Z.max (Z.abs (cx - w - x)) (Z.abs (cx + w - x))) +
  sq (Z.max (Z.abs (cy - w - y)) (Z.abs (cy + w - y))) +
  sq (Z.max (Z.abs (cz - w - z)) (Z.abs (cz + w - z))).
(* possible_dist_max_node, squared *)
Definition ub2 (a b : box) : Z :=
  let '(ax, ay, az, aw) := a in let '(bx, by_, bz, bw) := b in
  sq (Z.abs (ax - bx) + (aw + bw)) + sq (Z.abs (ay - by_) + (aw + bw)) +
  sq (Z.abs (az - bz) + (aw + bw)).

(* ------------------------------------------------------------------ octree *)
Inductive tree :=
| Leaf (b : box) (pts : list (Z * P))
| Node (b : box) (cs : list tree).

Definition box_of (t : tree) : box := match t with Leaf b _ => b | Node b _ => b end.
Fixpoint points (t : tree) : list (Z * P) :=
  match t with Leaf _ pts => pts | Node _ cs => flat_map points cs end.
Fixpoint size (t : tree) : nat :=
  match t with Leaf _ _ => 1%nat | Node _ cs => S (list_sum (map size cs)) end.
Definition nonempty (t : tree) : bool := match points t with [] => false | _ => true end.
(* every point stored below a node lies in that node's box *)
Fixpoint validb (t : tree) : bool :=
  match t with
  | Leaf b pts => forallb (fun ip => inbox b (snd ip)) pts
  | Node b cs => forallb (fun ip => inbox b (snd ip)) (flat_map points cs) && forallb validb cs
  end.

Definition queue := list (Z * tree).
Definition qsize (que : queue) : nat := list_sum (map (fun dt => size (snd dt)) que).

(* heapq.heappop on (lower bound, node): a minimal element *)
Fixpoint pop_min (l : queue) : option ((Z * tree) * queue) :=
  match l with
  | [] => None
  | x :: l' =>
      match pop_min l' with
      | None => Some (x, [])
      | Some (m, r) => if fst x <=? fst m then Some (x, l') else Some (m, x :: r)
      end
  end.

(* ------------------------------------------------------- k-nearest search *)
Section Search.
  (* the queue discipline is a parameter: correctness does not depend on it *)
  Variable pick : queue -> option ((Z * tree) * queue).
  Variables (k : nat) (bound : D) (q : P).

  Definition leaf_step (res : list entry) (ip : Z * P) : list entry :=
    let d := Fin (d2 q (snd ip)) in
    if Dltb bound d then res else insert_trunc k (d, fst ip) res.

  Definition push_children (cs : list tree) (rest : queue) : queue :=
    map (fun c => (lb2 q (box_of c), c)) (filter nonempty cs) ++ rest.

  Fixpoint search (fuel : nat) (que : queue) (res : list entry) : option (list entry) :=
    match fuel with
    | O => None
    | S f =>
        match pick que with
        | None => Some res
        | Some ((d, t), rest) =>
            if Dltb (kth res) (Fin d) || Dltb bound (Fin d) then search f rest res
            else match t with
                 | Node _ cs => search f (push_children cs rest) res
                 | Leaf _ pts => search f rest (fold_left leaf_step pts res)
                 end
        end
    end.
End Search.

Definition knn_with pick (fuel k : nat) (bound : D) (q : P) (t : tree) : option (list entry) :=
  search pick k bound q fuel [(0, t)] (repeat pad k).
Definition knn := knn_with pop_min.

(* ------------------------------------------------------- k-nearest: spec *)
Definition within (bound : D) (q p : P) : bool := negb (Dltb bound (Fin (d2 q p))).
Definition indexed (targets : list P) : list (Z * P) :=
  combine (map Z.of_nat (seq 0 (length targets))) targets.
Definition cands (bound : D) (q : P) (ipts : list (Z * P)) : list entry :=
  map (fun ip => (Fin (d2 q (snd ip)), fst ip)) (filter (fun ip => within bound q (snd ip)) ipts).
(* brute force with the code's tie break *)
Definition knn_spec (k : nat) (bound : D) (q : P) (targets : list P) : list entry :=
  best k (cands bound q (indexed targets) ++ repeat pad k).
(* brute force, distances only: all distances within the bound, ascending,
   the first k, padded with inf *)
Definition knn_spec_dists (k : nat) (bound : D) (q : P) (targets : list P) : list D :=
  firstn k (isort Dleb (map (fun p => Fin (d2 q p)) (filter (within bound q) targets))
            ++ repeat Inf k).

(* ------------------------------------------------------------ Hausdorff *)
Definition Dmin_list (l : list D) : D := fold_right Dmin Inf l.
Definition Dmax_list (l : list D) : D := fold_right Dmax (Fin 0) l.
Definition nn_spec (a : P) (B : list P) : D := Dmin_list (map (fun b => Fin (d2 a b)) B).
Definition hausdorff_directed_spec (A B : list P) : D :=
  Dmax_list (map (fun a => nn_spec a B) A).
Definition hausdorff_spec (A B : list P) : D :=
  Dmax (hausdorff_directed_spec A B) (hausdorff_directed_spec B A).

Fixpoint leaves (t : tree) : list (box * list (Z * P)) :=
  match t with Leaf b pts => [(b, pts)] | Node _ cs => flat_map leaves cs end.

Inductive nnres := Short | Found (d : D).

Section Hausdorff.
  Variable pick : queue -> option ((Z * tree) * queue).

  (* calc_frm_node: an upper bound of the nearest-neighbour distance valid for
     every point of box bA *)
  Fixpoint ub_search (fuel : nat) (bA : box) (que : queue) (dist : D) : option D :=
    match fuel with
    | O => None
    | S f =>
        match pick que with
        | None => Some dist
        | Some ((d, t), rest) =>
            if Dltb dist (Fin d) then ub_search f bA rest dist
            else match t with
                 | Node _ cs =>
                     ub_search f bA
                       (map (fun c => (ub2 bA (box_of c), c))
                            (filter (fun c => nonempty c && Dltb (Fin (ub2 bA (box_of c))) dist) cs)
                        ++ rest) dist
                 | Leaf b _ => ub_search f bA rest (Dmin dist (Fin (ub2 bA b)))
                 end
        end
    end.

  (* calc_frm: nearest neighbour of a with the `hi <= HD -> return 0` shortcut *)
  Fixpoint nn_search (fuel : nat) (HD : D) (a : P) (que : queue) (dist : D) : option nnres :=
    match fuel with
    | O => None
    | S f =>
        match pick que with
        | None => Some (Found dist)
        | Some ((d, t), rest) =>
            if Dltb dist (Fin d) then nn_search f HD a rest dist
            else match t with
                 | Node _ cs =>
                     let cs' := filter nonempty cs in
                     if existsb (fun c => Dleb (Fin (hi2 a (box_of c))) HD) cs' then Some Short
                     else nn_search f HD a (map (fun c => (lb2 a (box_of c), c)) cs' ++ rest) dist
                 | Leaf _ pts =>
                     nn_search f HD a rest
                       (fold_left (fun dist ip => Dmin dist (Fin (d2 a (snd ip)))) pts dist)
                 end
        end
    end.

  Definition nn_value (r : nnres) : D := match r with Short => Fin 0 | Found d => d end.

  (* HD = max(HD, calc_frm(x, y, z)) over the points of one leaf of A *)
  Fixpoint hd_points (fuel : nat) (tB : tree) (pts : list (Z * P)) (HD : D) : option D :=
    match pts with
    | [] => Some HD
    | ip :: pts' =>
        match nn_search fuel HD (snd ip) [(0, tB)] Inf with
        | None => None
        | Some r => hd_points fuel tB pts' (Dmax HD (nn_value r))
        end
    end.

  (* the main loop over the leaves of A in descending order of upper bound,
     with the early break *)
  Fixpoint hd_loop (fuel : nat) (tB : tree) (ls : list (D * list (Z * P))) (HD : D) : option D :=
    match ls with
    | [] => Some HD
    | (ub, pts) :: rest =>
        if Dleb ub HD then Some HD
        else match hd_points fuel tB pts HD with
             | None => None
             | Some HD' => hd_loop fuel tB rest HD'
             end
    end.

  Fixpoint leaf_ubs (fuel : nat) (tB : tree) (ls : list (box * list (Z * P)))
    : option (list (D * list (Z * P))) :=
    match ls with
    | [] => Some []
    | (b, pts) :: rest =>
        match pts with
        | [] => leaf_ubs fuel tB rest
        | _ =>
            match ub_search fuel b [(0, tB)] Inf, leaf_ubs fuel tB rest with
            | Some u, Some r => Some ((u, pts) :: r)
            | _, _ => None
            end
        end
    end.

  Definition ubgeb (x y : D * list (Z * P)) : bool := Dleb (fst y) (fst x).

  Definition directed_hd (fuel : nat) (tA tB : tree) : option D :=
    match leaf_ubs fuel tB (leaves tA) with
    | None => None
    | Some us => hd_loop fuel tB (isort ubgeb us) (Fin 0)
    end.

  Definition hausdorff (fuel : nat) (directed : bool) (tA tB : tree) : option D :=
    if directed then directed_hd fuel tA tB
    else match directed_hd fuel tA tB, directed_hd fuel tB tA with
         | Some h1, Some h2 => Some (Dmax h1 h2)
         | _, _ => None
         end.
End Hausdorff.

(* ---------------------------------------------- exact octree construction *)
(* child r of a box: vw = pw/2, vx = px - vw if r & 4 else px + vw, ... *)
Definition child (b : box) (r : nat) : box :=
  let '(cx, cy, cz, w) := b in
  let vw := w / 2 in
  (if Nat.testbit r 2 then cx - vw else cx + vw,
   if Nat.testbit r 1 then cy - vw else cy + vw,
   if Nat.testbit r 0 then cz - vw else cz + vw, vw).

(* distribute points over the children: each point goes to the first child
   (r = 0..7) whose box contains it; a point in no child box is lost, exactly
   as it is lost to the search in the code (it never reaches a leaf) *)
Fixpoint distribute (bs : list box) (pts : list (Z * P)) : list (box * list (Z * P)) :=
  match bs with
  | [] => []
  | b :: bs' =>
      (b, filter (fun ip => inbox b (snd ip)) pts)
        :: distribute bs' (filter (fun ip => negb (inbox b (snd ip))) pts)
  end.

Fixpoint build (depth : nat) (b : box) (pts : list (Z * P)) : tree :=
  match depth with
  | O => Leaf b pts
  | S d =>
      match pts with
      | [] => Leaf b []   (* empty regions are never entered by any search *)
      | _ => Node b (map (fun bp => build d (fst bp) (snd bp))
                         (distribute (map (child b) (seq 0 8)) pts))
      end
  end.

Definition list_min (l : list Z) (d : Z) := fold_right Z.min d l.
Definition list_max (l : list Z) (d : Z) := fold_right Z.max d l.
(* root box for coordinates pre-multiplied by 200 * 2^depth: centre
   (min+max)/2, half width 0.51 * max extent, all exact *)
Definition root_box (pts : list P) : box :=
  match pts with
  | [] => (0, 0, 0, 0)
  | (x0, y0, z0) :: _ =>
      let xs := map (fun p => fst (fst p)) pts in
      let ys := map (fun p => snd (fst p)) pts in
      let zs := map (fun p => snd p) pts in
      let xmin := list_min xs x0 in let xmax := list_max xs x0 in
      let ymin := list_min ys y0 in let ymax := list_max ys y0 in
      let zmin := list_min zs z0 in let zmax := list_max zs z0 in
      ((xmin + xmax) / 2, (ymin + ymax) / 2, (zmin + zmax) / 2,
       Z.max (xmax - xmin) (Z.max (ymax - ymin) (zmax - zmin)) * 51 / 100)
  end.
Definition scale_pt (s : Z) (p : P) : P := let '(x, y, z) := p in (s * x, s * y, s * z).
Definition octree_scale (depth : nat) : Z := 200 * 2 ^ Z.of_nat depth.
Definition octree (depth : nat) (box_pts pts : list P) : tree :=
  let s := octree_scale depth in
  build depth (root_box (map (scale_pt s) box_pts)) (indexed (map (scale_pt s) pts)).

(* -------------------------------------------------------------- hop graph *)
(* vertices of the bipartite graph: v < nV is a node, nV + e an element *)
Section Hop.
  Variable nV : nat.
  Variable conn : list (list nat).       (* element -> node indices (incidence^T rows) *)
  Variable pos : list P.
  Variable r2 : Z.                        (* floor((r + 1e-8)^2) *)

  Definition nodes_of (e : nat) : list nat := nth e conn [].
  Definition elems_of (v : nat) : list nat :=
    filter (fun e => existsb (Nat.eqb v) (nodes_of e)) (seq 0 (length conn)).
  Definition posn (v : nat) : P := nth v pos (0, 0, 0).

  (* successor lists in the order the CSR rows are scanned *)
  Definition succ (near : nat -> bool) (x : nat) : list nat :=
    if (x <? nV)%nat then map (fun e => (nV + e)%nat) (elems_of x)
    else filter near (nodes_of (x - nV)).

  Definition mem (x : nat) (l : list nat) : bool := existsb (Nat.eqb x) l.

  (* `for to in TO: if visited[to]: continue; ...; visited[to] = 1; que.append(to)` *)
  Definition visit (st : list nat * list nat) (to : nat) : list nat * list nat :=
    if mem to (snd st) then st else (fst st ++ [to], to :: snd st).

  (* `for frm in que:` with que growing; visited is returned (newest first) *)
  Fixpoint bfs (near : nat -> bool) (fuel : nat) (que visited : list nat) : option (list nat) :=
    match que with
    | [] => Some visited
    | frm :: rest =>
        match fuel with
        | O => None
        | S f => let st := fold_left visit (succ near frm) (rest, visited) in
                 bfs near f (fst st) (snd st)
        end
    end.

  Definition near_node (v : nat) (w : nat) : bool := d2 (posn v) (posn w) <=? r2.
  Definition near_elem (e : nat) (w : nat) : bool :=
    existsb (fun u => d2 (posn w) (posn u) <=? r2) (nodes_of e).

  Definition nE : nat := length conn.
  Definition hop_fuel : nat := S (nV + nE).

  (* row v of the nodal matrix: nodes reached, v excluded (discovery order) *)
  Definition hop_nodal_row (v : nat) : option (list nat) :=
    match bfs (near_node v) hop_fuel [v] [v] with
    | None => None
    | Some vis => Some (filter (fun w => (w <? nV)%nat && negb (Nat.eqb w v)) (rev vis))
    end.
  (* row e of the elemental matrix *)
  Definition hop_elemental_row (e : nat) : option (list nat) :=
    match bfs (near_elem e) hop_fuel [(nV + e)%nat] [(nV + e)%nat] with
    | None => None
    | Some vis =>
        Some (map (fun x => (x - nV)%nat)
                  (filter (fun x => (nV <=? x)%nat && negb (Nat.eqb x (nV + e))) (rev vis)))
    end.

  (* specification: reachability *)
  Inductive reach (sc : nat -> list nat) (s : nat) : nat -> Prop :=
  | reach_refl : reach sc s s
  | reach_step x y : reach sc s x -> In y (sc x) -> reach sc s y.

  (* the definition in the docstring, nodal mode: v_0 = v, ..., v_n = w, every
     v_i within r of v, consecutive nodes share an element *)
  Definition share_elem (a b : nat) : Prop :=
    exists e, (e < nE)%nat /\ In a (nodes_of e) /\ In b (nodes_of e).
  Inductive node_path (v : nat) : nat -> Prop :=
  | np_refl : node_path v v
  | np_step a b : node_path v a -> share_elem a b -> near_node v b = true -> node_path v b.
  (* elemental mode: consecutive elements share a node that is within r of
     some vertex of e *)
  Definition share_near_node (e a b : nat) : Prop :=
    exists n, In n (nodes_of a) /\ In n (nodes_of b) /\ near_elem e n = true.
  Inductive elem_path (e : nat) : nat -> Prop :=
  | ep_refl : elem_path e e
  | ep_step a b : elem_path e a -> (b < nE)%nat -> share_near_node e a b -> elem_path e b.
  (* the docstring's wording for elemental mode: dist(e, e_i) <= r for every e_i
     (distance between vertex sets), consecutive elements share *some* node *)
  Definition elem_near (e b : nat) : Prop :=
    exists n, In n (nodes_of b) /\ near_elem e n = true.
  Inductive doc_elem_path (e : nat) : nat -> Prop :=
  | dep_refl : doc_elem_path e e
  | dep_step a b : doc_elem_path e a -> (b < nE)%nat ->
                   (exists n, In n (nodes_of a) /\ In n (nodes_of b)) -> elem_near e b ->
                   doc_elem_path e b.
End Hop.

(* ------------------------------------------ correspondence-side checkers *)
(* implementation output of one query: indices, and for each slot the squared
   length of the returned offset vector (None = inf) *)
Definition nth_pt (targets : list P) (i : Z) : option P :=
  if i <? 0 then None else nth_error targets (Z.to_nat i).
Fixpoint nodupZ (l : list Z) : bool :=
  match l with [] => true | x :: l' => negb (existsb (Z.eqb x) l') && nodupZ l' end.
Definition Deq_dec_b (a b : D) : bool :=
  match a, b with Fin x, Fin y => x =? y | Inf, Inf => true | _, _ => false end.
Fixpoint list_eqb {A} (eqb : A -> A -> bool) (l1 l2 : list A) : bool :=
  match l1, l2 with
  | [], [] => true
  | x :: a, y :: b => eqb x y && list_eqb eqb a b
  | _, _ => false
  end.
(* vec = None encodes (inf, inf, inf) *)
Definition vec_ok (q : P) (targets : list P) (i : Z) (v : option P) : bool :=
  match nth_pt targets i, v with
  | Some (a, b, c), Some (vx, vy, vz) =>
      let '(x, y, z) := q in (vx =? a - x) && (vy =? b - y) && (vz =? c - z)
  | None, None => i =? -1
  | _, _ => false
  end.
Definition vec_d (v : option P) : D :=
  match v with Some v => Fin (d2 (0, 0, 0) v) | None => Inf end.
Definition knn_agree (k : nat) (bound : D) (q : P) (targets : list P)
           (idx : list Z) (vecs : list (option P)) : bool :=
  (length idx =? k)%nat && (length vecs =? k)%nat &&
  forallb (fun iv => vec_ok q targets (fst iv) (snd iv)) (combine idx vecs) &&
  nodupZ (filter (fun i => 0 <=? i) idx) &&
  list_eqb Deq_dec_b (map vec_d vecs) (knn_spec_dists k bound q targets).

(* a float n/d (exact rational value of the binary64) is the square root of the
   integer s: relative error of the square at most 2^-50 *)
Definition sqrt_ok (n d s : Z) : bool :=
  (0 <=? n) && (0 <? d) && (Z.abs (n * n - s * d * d) * 2 ^ 50 <=? s * d * d).
Inductive fl := FQ (n d : Z) | FInf | FBad.
Definition dist_ok (f : fl) (x : D) : bool :=
  match f, x with
  | FQ n d, Fin s => sqrt_ok n d s
  | FInf, Inf => true
  | _, _ => false
  end.
Definition knn_agree_full (k : nat) (bound : D) (q : P) (targets : list P)
           (idx : list Z) (vecs : list (option P)) (dists : list fl) : bool :=
  knn_agree k bound q targets idx vecs &&
  (length dists =? k)%nat &&
  forallb (fun fx => dist_ok (fst fx) (snd fx)) (combine dists (knn_spec_dists k bound q targets)).

Definition same_set (a b : list nat) : bool :=
  (length a =? length b)%nat && forallb (fun x => mem x b) a && forallb (fun x => mem x a) b.
Definition row_agree (model : option (list nat)) (impl : list nat) : bool :=
  match model with Some l => same_set l impl | None => false end.

(* ---------------------------------------------------------------------------
   The decision points of _nns_from_nodes_to_nodes.calc_frm as a configuration
   (re-translated from /repo on every run into gen/KnnCfg.v): which comparison
   prunes a popped node against the k-th best / the bound, how they are joined,
   whether empty children are skipped, which comparison drops a leaf point, and
   how the result heap is updated.  `search_cfg` is `search` with those
   decisions read from the configuration. *)
Inductive cmp := Gt | Ge | Lt | Le | EqC | NeC.
Definition cmp_eval (c : cmp) (a b : D) : bool :=
  match c with
  | Gt => Dltb b a | Ge => Dleb b a | Lt => Dltb a b | Le => Dleb a b
  | EqC => Deqb a b | NeC => negb (Deqb a b)
  end.
Inductive heap_upd := PushPop | PushOnly.
Record kcfg := {
  kth_cmp : cmp;          (* `d > -res_q[0][0]`  : d  kth_cmp  kth      -> prune *)
  bound_cmp : cmp;        (* `d > distance_upper_bound`                 -> prune *)
  join_or : bool;         (* the two tests are joined by `or` *)
  skip_empty : bool;      (* `if idx[to + 1] - idx[to] == 0: continue` present *)
  leaf_cmp : cmp;         (* leaf: `if d > distance_upper_bound: continue` *)
  leaf_upd : heap_upd     (* heapq.heappushpop(res_q, (-d, id)) *)
}.
Definition cfg_code : kcfg :=
  {| kth_cmp := Gt; bound_cmp := Gt; join_or := true; skip_empty := true;
     leaf_cmp := Gt; leaf_upd := PushPop |}.
Definition cmp_eqb (a b : cmp) : bool :=
  match a, b with
  | Gt, Gt | Ge, Ge | Lt, Lt | Le, Le | EqC, EqC | NeC, NeC => true
  | _, _ => false
  end.
(* the configurations for which the search is proved to equal brute force:
   the k-th test may be strict or not (that only moves the choice among
   equidistant targets), everything else must be as in cfg_code *)
Definition cfg_ok (c : kcfg) : bool :=
  (cmp_eqb (kth_cmp c) Gt || cmp_eqb (kth_cmp c) Ge) && cmp_eqb (bound_cmp c) Gt && join_or c &&
  cmp_eqb (leaf_cmp c) Gt && match leaf_upd c with PushPop => true | PushOnly => false end.

Section SearchCfg.
  Variable cfg : kcfg.
  Variable pick : queue -> option ((Z * tree) * queue).
  Variables (k : nat) (bound : D) (q : P).

  Definition leaf_step_cfg (res : list entry) (ip : Z * P) : list entry :=
    let d := Fin (d2 q (snd ip)) in
    if cmp_eval (leaf_cmp cfg) d bound then res
    else match leaf_upd cfg with
         | PushPop => insert_trunc k (d, fst ip) res
         | PushOnly => insert pleb (d, fst ip) res
         end.
  Definition push_children_cfg (cs : list tree) (rest : queue) : queue :=
    map (fun c => (lb2 q (box_of c), c)) (if skip_empty cfg then filter nonempty cs else cs) ++ rest.
  Definition prune_cfg (res : list entry) (d : Z) : bool :=
    let a := cmp_eval (kth_cmp cfg) (Fin d) (kth res) in
    let b := cmp_eval (bound_cmp cfg) (Fin d) bound in
    if join_or cfg then a || b else a && b.

  Fixpoint search_cfg (fuel : nat) (que : queue) (res : list entry) : option (list entry) :=
    match fuel with
    | O => None
    | S f =>
        match pick que with
        | None => Some res
        | Some ((d, t), rest) =>
            if prune_cfg res d then search_cfg f rest res
            else match t with
                 | Node _ cs => search_cfg f (push_children_cfg cs rest) res
                 | Leaf _ pts => search_cfg f rest (fold_left leaf_step_cfg pts res)
                 end
        end
    end.
End SearchCfg.
Definition knn_cfg cfg pick (fuel k : nat) (bound : D) (q : P) (t : tree) : option (list entry) :=
  search_cfg cfg pick k bound q fuel [(0, t)] (repeat pad k).

(* tolerant comparison for point sets whose coordinates are not small integers
   (decimal scales, clouds far from the origin): coordinates are the exact
   binary64 values scaled by a common power of two; the exact squared
   distances realised by the returned indices must agree with the brute-force
   list within a relative 1/tau *)
Definition close (tau a b : Z) : bool := Z.abs (a - b) * tau <=? b.
Definition Dclose (tau : Z) (a b : D) : bool :=
  match a, b with Fin x, Fin y => close tau x y | Inf, Inf => true | _, _ => false end.
Definition idx_dist (q : P) (targets : list P) (i : Z) : D :=
  match nth_pt targets i with Some p => Fin (d2 q p) | None => Inf end.
Definition knn_agree_tol (tau : Z) (k : nat) (bound : D) (q : P) (targets : list P) (idx : list Z) : bool :=
  (length idx =? k)%nat && nodupZ (filter (fun i => 0 <=? i) idx) &&
  forallb (fun i => (i =? -1) || match nth_pt targets i with Some _ => true | None => false end) idx &&
  list_eqb (Dclose tau) (map (idx_dist q targets) idx) (knn_spec_dists k bound q targets).
Definition sqrt_close (tau n d s : Z) : bool :=
  (0 <=? n) && (0 <? d) && (Z.abs (n * n - s * d * d) * tau <=? s * d * d).
Definition dist_close_tol (tau : Z) (f : fl) (x : D) : bool :=
  match f, x with
  | FQ n d, Fin s => sqrt_close tau n d s
  | FInf, Inf => true
  | _, _ => false
  end.
