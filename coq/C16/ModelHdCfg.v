(* C16 — decision points of _calc_directed_hausdorff_nodes as a configuration.  Definitions only.
   The five comparisons of the kernel are read off the source (translate/c16_loops.py ->
   gen/HdCfg.v); `*_cfg c` are the Hausdorff functions of Model.v with those comparisons taken
   from c.  cmp_eval c a b  means  `a c b`. *)
From Coq Require Import ZArith List Bool.
Import ListNotations.
From FV.C16 Require Import Model.
Open Scope Z_scope.

Record hcfg := {
  ub_prune : cmp;     (* calc_frm_node: `if d > dist: continue`          d  ub_prune  dist  -> skip the popped cell *)
  ub_push : cmp;      (* calc_frm_node: `if d < dist: heappush`          d  ub_push   dist  -> push the child *)
  nn_prune : cmp;     (* calc_frm:      `if d > dist: continue`          d  nn_prune  dist  -> skip the popped cell *)
  nn_short : cmp;     (* calc_frm:      `if hi <= HD: return 0.0`        hi nn_short  HD    -> shortcut *)
  loop_break : cmp    (* main loop:     `if dist_upper <= HD: break`     ub loop_break HD   -> stop *)
}.
Definition hcfg_code : hcfg :=
  {| ub_prune := Gt; ub_push := Lt; nn_prune := Gt; nn_short := Le; loop_break := Le |}.

Definition cmp_in (c : cmp) (l : list cmp) : bool := existsb (cmp_eqb c) l.
(* accepted: the cell of B may be skipped on `>` or `>=`, the shortcut and the break may fire on
   `<=` or `<`; the two comparisons of calc_frm_node only decide how tight the (always valid)
   upper bound is and are unconstrained *)
Definition hcfg_ok (c : hcfg) : bool :=
  cmp_in (nn_prune c) [Gt; Ge] && cmp_in (nn_short c) [Le; Lt] && cmp_in (loop_break c) [Le; Lt].

Section HausdorffCfg.
  Variable cfg : hcfg.
  Variable pick : queue -> option ((Z * tree) * queue).

  Fixpoint ub_search_cfg (fuel : nat) (bA : box) (que : queue) (dist : D) : option D :=
    match fuel with
    | O => None
    | S f =>
        match pick que with
        | None => Some dist
        | Some ((d, t), rest) =>
            if cmp_eval (ub_prune cfg) (Fin d) dist then ub_search_cfg f bA rest dist
            else match t with
                 | Node _ cs =>
                     ub_search_cfg f bA
                       (map (fun c => (ub2 bA (box_of c), c))
                            (filter (fun c => nonempty c && cmp_eval (ub_push cfg) (Fin (ub2 bA (box_of c))) dist) cs)
                        ++ rest) dist
                 | Leaf b _ => ub_search_cfg f bA rest (Dmin dist (Fin (ub2 bA b)))
                 end
        end
    end.

  Fixpoint nn_search_cfg (fuel : nat) (HD : D) (a : P) (que : queue) (dist : D) : option nnres :=
    match fuel with
    | O => None
    | S f =>
        match pick que with
        | None => Some (Found dist)
        | Some ((d, t), rest) =>
            if cmp_eval (nn_prune cfg) (Fin d) dist then nn_search_cfg f HD a rest dist
            else match t with
                 | Node _ cs =>
                     let cs' := filter nonempty cs in
                     if existsb (fun c => cmp_eval (nn_short cfg) (Fin (hi2 a (box_of c))) HD) cs' then Some Short
                     else nn_search_cfg f HD a (map (fun c => (lb2 a (box_of c), c)) cs' ++ rest) dist
                 | Leaf _ pts =>
                     nn_search_cfg f HD a rest
                       (fold_left (fun dist ip => Dmin dist (Fin (d2 a (snd ip)))) pts dist)
                 end
        end
    end.

  Fixpoint hd_points_cfg (fuel : nat) (tB : tree) (pts : list (Z * P)) (HD : D) : option D :=
    match pts with
    | [] => Some HD
    | ip :: pts' =>
        match nn_search_cfg fuel HD (snd ip) [(0, tB)] Inf with
        | None => None
        | Some r => hd_points_cfg fuel tB pts' (Dmax HD (nn_value r))
        end
    end.

  Fixpoint hd_loop_cfg (fuel : nat) (tB : tree) (ls : list (D * list (Z * P))) (HD : D) : option D :=
    match ls with
    | [] => Some HD
    | (ub, pts) :: rest =>
        if cmp_eval (loop_break cfg) ub HD then Some HD
        else match hd_points_cfg fuel tB pts HD with
             | None => None
             | Some HD' => hd_loop_cfg fuel tB rest HD'
             end
    end.

  Fixpoint leaf_ubs_cfg (fuel : nat) (tB : tree) (ls : list (box * list (Z * P)))
    : option (list (D * list (Z * P))) :=
    match ls with
    | [] => Some []
    | (b, pts) :: rest =>
        match pts with
        | [] => leaf_ubs_cfg fuel tB rest
        | _ =>
            match ub_search_cfg fuel b [(0, tB)] Inf, leaf_ubs_cfg fuel tB rest with
            | Some u, Some r => Some ((u, pts) :: r)
            | _, _ => None
            end
        end
    end.

  Definition directed_hd_cfg (fuel : nat) (tA tB : tree) : option D :=
    match leaf_ubs_cfg fuel tB (leaves tA) with
    | None => None
    | Some us => hd_loop_cfg fuel tB (isort ubgeb us) (Fin 0)
    end.

  Definition hausdorff_cfg (fuel : nat) (directed : bool) (tA tB : tree) : option D :=
    if directed then directed_hd_cfg fuel tA tB
    else match directed_hd_cfg fuel tA tB, directed_hd_cfg fuel tB tA with
         | Some h1, Some h2 => Some (Dmax h1 h2)
         | _, _ => None
         end.
End HausdorffCfg.
