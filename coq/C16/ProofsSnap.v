(* C16 — the snapped root cell of build_octree_node (as of /repo 7a2f8fc): it contains every
   point, its half width is divisible by 2^depth, hence (ProofsBuild) the exact octree below it
   is valid and stores every point; and all its cells lie on the grid of the leaf half width. *)
From Coq Require Import ZArith List Bool Lia Permutation.
Import ListNotations.
From FV.C16 Require Import Model ModelSnap ProofsSort ProofsKnn ProofsBuild.
Open Scope Z_scope.

(* -------------------------------------------------------------------- rounding *)
Lemma round_half_even_near n d : 0 < d ->
  let k := round_half_even n d in 2 * d * k - d <= 2 * n <= 2 * d * k + d.
Proof.
  intros Hd. unfold round_half_even.
  pose proof (Z.div_mod n d ltac:(lia)) as E. pose proof (Z.mod_pos_bound n d Hd) as B.
  set (q := n / d) in *. set (r := n mod d) in *.
  destruct (Z.ltb_spec (2 * r) d); [nia|].
  destruct (Z.ltb_spec d (2 * r)); [nia|].
  destruct (Z.even q); nia.
Qed.

Lemma snap_lw_spec M : 1 <= M -> exists e, 0 <= e /\ snap_lw M = 2 ^ e /\ 51 * M <= 100 * snap_lw M.
Proof.
  intros HM. unfold snap_lw. set (c := (51 * M + 99) / 100).
  assert (1 <= c) as Hc. { unfold c. apply Z.div_le_lower_bound; lia. }
  assert (51 * M <= 100 * c) as Hc2.
  { unfold c. pose proof (Z.div_mod (51 * M + 99) 100 ltac:(lia)).
    pose proof (Z.mod_pos_bound (51 * M + 99) 100 ltac:(lia)). lia. }
  exists (Z.log2_up c). split; [apply Z.log2_up_nonneg|]. split; [reflexivity|].
  assert (c <= 2 ^ Z.log2_up c) as Hle.
  { destruct (Z.eq_dec c 1) as [->|Hne]. { reflexivity. }
    apply (Z.log2_up_spec c). lia. }
  lia.
Qed.

(* ---------------------------------------------------------------- the root cell *)
Section Snap.
  Variable depth : nat.
  Hypothesis Hdepth : (5 <= depth)%nat.
  Let s := snap_scale depth.
  Variable bpts : list P.

  Lemma snap_s_ge : 32 <= s.
  Proof.
    unfold s, snap_scale. change 32 with (2 ^ 5).
    apply Z.pow_le_mono_r; lia.
  Qed.

  Lemma snapped_box_props :
    bpts <> [] ->
    (2 ^ Z.of_nat depth | width (snapped_box s bpts)) /\
    forall p, In p bpts -> inbox (snapped_box s bpts) (scale_pt s p) = true.
  Proof.
    intros Hne. destruct bpts as [|[[x0 y0] z0] l] eqn:Eb; [congruence|]. clear Hne.
    unfold snapped_box. cbn [map fst snd].
    match goal with |- context [list_min (x0 :: ?m) x0] => set (xs := x0 :: m) end.
    match goal with |- context [list_min (y0 :: ?m) y0] => set (ys := y0 :: m) end.
    match goal with |- context [list_min (z0 :: ?m) z0] => set (zs := z0 :: m) end.
    remember (list_min xs x0) as xmin eqn:Exmin. remember (list_max xs x0) as xmax eqn:Exmax.
    remember (list_min ys y0) as ymin eqn:Eymin. remember (list_max ys y0) as ymax eqn:Eymax.
    remember (list_min zs z0) as zmin eqn:Ezmin. remember (list_max zs z0) as zmax eqn:Ezmax.
    set (M := Z.max (xmax - xmin) (Z.max (ymax - ymin) (zmax - zmin))).
    pose proof snap_s_ge as Hs.
    (* coordinates of the listed points lie between the minima and the maxima *)
    assert (forall p, In p ((x0, y0, z0) :: l) ->
              let '(x, y, z) := p in
              xmin <= x <= xmax /\ ymin <= y <= ymax /\ zmin <= z <= zmax) as Hrange.
    { intros [[x y] z] Hp.
      assert (In x (x0 :: xs) /\ In y (y0 :: ys) /\ In z (z0 :: zs)) as (Hx & Hy & Hz).
      { destruct Hp as [Hp|Hp].
        - inversion Hp; subst. simpl; auto.
        - repeat split; right; right;
            [apply (in_map (fun p : P => fst (fst p)) _ _ Hp)
            |apply (in_map (fun p : P => snd (fst p)) _ _ Hp)
            |apply (in_map (fun p : P => snd p) _ _ Hp)]. }
      pose proof (list_min_le xs x0 x Hx). pose proof (list_max_ge xs x0 x Hx).
      pose proof (list_min_le ys y0 y Hy). pose proof (list_max_ge ys y0 y Hy).
      pose proof (list_min_le zs z0 z Hz). pose proof (list_max_ge zs z0 z Hz).
      subst. lia. }
    pose proof (Hrange (x0, y0, z0) (or_introl eq_refl)) as H0. cbn in H0.
    destruct (Z.eqb_spec M 0) as [EM|NM].
    - (* a single location *)
      split. { cbn [width]. apply Z.divide_0_r. }
      intros [[x y] z] Hp. specialize (Hrange _ Hp). cbn in Hrange.
      apply inbox_iff. cbn [scale_pt]. unfold M in EM. nia.
    - assert (1 <= M) as HM by (unfold M in *; lia).
      destruct (snap_lw_spec M HM) as (e & He & Elw & Hlw).
      set (lw := snap_lw M) in *.
      assert (0 < lw) as Hlwpos. { rewrite Elw. apply Z.pow_pos_nonneg; lia. }
      split.
      { cbn [width]. exists lw. unfold s, snap_scale. ring. }
      intros [[x y] z] Hp. specialize (Hrange _ Hp). cbn in Hrange.
      apply inbox_iff. cbn [scale_pt].
      pose proof (round_half_even_near (s * (xmin + xmax)) (2 * lw) ltac:(lia)) as Rx.
      pose proof (round_half_even_near (s * (ymin + ymax)) (2 * lw) ltac:(lia)) as Ry.
      pose proof (round_half_even_near (s * (zmin + zmax)) (2 * lw) ltac:(lia)) as Rz.
      cbv zeta in Rx, Ry, Rz.
      set (kx := round_half_even (s * (xmin + xmax)) (2 * lw)) in *.
      set (ky := round_half_even (s * (ymin + ymax)) (2 * lw)) in *.
      set (kz := round_half_even (s * (zmin + zmax)) (2 * lw)) in *.
      assert (xmax - xmin <= M /\ ymax - ymin <= M /\ zmax - zmin <= M) as (M1 & M2 & M3) by (unfold M; lia).
      (* M * s + lw <= 2 * s * lw   (needs s >= 26) *)
      assert (51 * (M * s) <= 100 * (lw * s)) as K1 by nia.
      assert (51 * lw <= 2 * (lw * s)) as K2 by nia.
      assert (M * s + lw <= 2 * (lw * s)) as K by lia.
      assert (0 <= s) as Hs0 by lia.
      assert (s * (xmax - xmin) <= M * s) as Sx by nia.
      assert (s * (ymax - ymin) <= M * s) as Sy by nia.
      assert (s * (zmax - zmin) <= M * s) as Sz by nia.
      assert (s * xmin <= s * x <= s * xmax) as Bx by nia.
      assert (s * ymin <= s * y <= s * ymax) as By by nia.
      assert (s * zmin <= s * z <= s * zmax) as Bz by nia.
      repeat split; nia.
  Qed.
End Snap.

(* the exact octree below the snapped root cell is valid and stores every point *)
Theorem snapped_octree_valid_complete depth bpts pts :
  (5 <= depth)%nat -> bpts <> [] -> incl pts bpts ->
  let t := snapped_octree depth bpts pts in
  validb t = true /\ tree_of t (map (scale_pt (snap_scale depth)) pts).
Proof.
  intros Hd Hne Hincl t. destruct (snapped_box_props depth Hd bpts Hne) as [Hdiv Hbox].
  assert (forall ip, In ip (indexed (map (scale_pt (snap_scale depth)) pts)) ->
                     inbox (snapped_box (snap_scale depth) bpts) (snd ip) = true) as Hin.
  { intros ip Hip. assert (In (snd ip) (map snd (indexed (map (scale_pt (snap_scale depth)) pts))))
      as H by (apply in_map; auto).
    rewrite indexed_snd in H. apply in_map_iff in H. destruct H as [p [<- Hp]]. apply Hbox. auto. }
  split.
  - apply build_valid. exact Hin.
  - unfold tree_of. apply build_complete; auto.
Qed.

(* ------------------------------------------------- all cells lie on the leaf grid *)
(* centre and half width of every cell are multiples of u and the cell lies inside [-B, B]^3 *)
Definition on_grid (u B : Z) (b : box) : Prop :=
  let '(cx, cy, cz, w) := b in
  (u | cx) /\ (u | cy) /\ (u | cz) /\ (u | w) /\ 0 <= w /\
  Z.abs cx + w <= B /\ Z.abs cy + w <= B /\ Z.abs cz + w <= B.

Lemma child_on_grid u B d b r :
  (2 ^ Z.of_nat (S d) * u | width b) -> on_grid u B b ->
  (2 ^ Z.of_nat d * u | width (child b r)) /\ on_grid u B (child b r).
Proof.
  destruct b as [[[cx cy] cz] w]. cbn [width child on_grid].
  intros [q Hq] (Hx & Hy & Hz & Hw & Hw0 & Bx & By & Bz).
  rewrite Nat2Z.inj_succ, Z.pow_succ_r in Hq by lia.
  assert (w = (q * 2 ^ Z.of_nat d * u) * 2) as E by lia.
  assert (w / 2 = q * 2 ^ Z.of_nat d * u) as Eh by (rewrite E; apply Z_div_mult; lia).
  rewrite Eh.
  assert (u | q * 2 ^ Z.of_nat d * u) as Hdiv by (exists (q * 2 ^ Z.of_nat d); ring).
  assert (0 <= q * 2 ^ Z.of_nat d * u <= w) as Hh by lia.
  split. { exists q. ring. }
  set (h := q * 2 ^ Z.of_nat d * u) in *.
  assert (forall (t : bool) c, (u | c) -> (u | (if t then c - h else c + h))) as Hc.
  { intros t c Hcd. destruct t; [apply Z.divide_sub_r|apply Z.divide_add_r]; assumption. }
  assert (forall (t : bool) c, Z.abs c + w <= B -> Z.abs (if t then c - h else c + h) + h <= B) as Hb.
  { intros t c Hcb. destruct t; lia. }
  split; [apply Hc; exact Hx|]. split; [apply Hc; exact Hy|]. split; [apply Hc; exact Hz|].
  split; [exact Hdiv|]. split; [lia|].
  split; [apply Hb; exact Bx|]. split; [apply Hb; exact By|apply Hb; exact Bz].
Qed.

Lemma build_boxes_on_grid u B : forall d b pts,
  (2 ^ Z.of_nat d * u | width b) -> on_grid u B b ->
  forall bx, In bx (boxes (build d b pts)) -> on_grid u B bx.
Proof.
  induction d as [|d IH]; intros b pts Hdiv Hb bx Hin.
  - simpl in Hin. destruct Hin as [<-|[]]. exact Hb.
  - destruct pts as [|ip0 pts']. { simpl in Hin. destruct Hin as [<-|[]]. exact Hb. }
    rewrite build_S in Hin by discriminate.
    remember (ip0 :: pts') as pts eqn:Epts.
    cbn [boxes] in Hin. destruct Hin as [<-|Hin]. { exact Hb. }
    apply in_flat_map in Hin. destruct Hin as [c [Hc Hin]].
    apply in_map_iff in Hc. destruct Hc as [[b' l] [<- Hbl]]. cbn [fst snd] in Hin.
    apply distribute_in in Hbl. destruct Hbl as [Hb' _].
    apply in_map_iff in Hb'. destruct Hb' as [r [<- _]].
    destruct (child_on_grid u B d b r Hdiv Hb) as [Hd' Hg'].
    eapply IH; eauto.
Qed.

(* the cells of the snapped octree: u = leaf half width (a power of two), B = |root centre| + w0 *)
Theorem snapped_cells_on_grid depth bpts pts :
  bpts <> [] ->
  exists e, 0 <= e /\
    let '(cx, cy, cz, w) := snapped_box (snap_scale depth) bpts in
    forall bx, In bx (boxes (snapped_octree depth bpts pts)) ->
      on_grid (2 ^ e) (Z.max (Z.abs cx) (Z.max (Z.abs cy) (Z.abs cz)) + w) bx.
Proof.
  intros Hne. unfold snapped_octree.
  assert (exists e, 0 <= e /\
            let '(cx, cy, cz, w) := snapped_box (snap_scale depth) bpts in
            (2 ^ Z.of_nat depth * 2 ^ e | w) /\
            on_grid (2 ^ e) (Z.max (Z.abs cx) (Z.max (Z.abs cy) (Z.abs cz)) + w) (cx, cy, cz, w)) as H.
  { destruct bpts as [|[[x0 y0] z0] l]; [congruence|]. unfold snapped_box. cbn [map fst snd].
    match goal with |- context [list_min (x0 :: ?m) x0] =>
      pose proof (list_min_le (x0 :: m) x0 x0 (or_introl eq_refl));
      pose proof (list_max_ge (x0 :: m) x0 x0 (or_introl eq_refl)) end.
    match goal with |- context [Z.eqb ?m 0] => set (M := m) end.
    assert (0 <= M) as HM0 by (unfold M; lia).
    destruct (Z.eqb_spec M 0) as [EM|NM].
    - exists 0. split; [lia|]. split. { apply Z.divide_0_r. }
      cbn [on_grid]. change (2 ^ 0) with 1.
      repeat split; try apply Z.divide_1_l; lia.
    - destruct (snap_lw_spec M ltac:(lia)) as (e & He & Elw & _).
      exists e. split; [exact He|]. rewrite Elw.
      assert (0 < 2 ^ e) by (apply Z.pow_pos_nonneg; lia).
      assert (0 < snap_scale depth) by (unfold snap_scale; apply Z.pow_pos_nonneg; lia).
      split. { exists 1. unfold snap_scale. ring. }
      cbn [on_grid].
      repeat split; try (apply Z.divide_factor_r); try lia; try nia. }
  destruct H as (e & He & H). exists e. split; [exact He|].
  destruct (snapped_box (snap_scale depth) bpts) as [[[cx cy] cz] w] eqn:Eb.
  destruct H as [Hdiv Hg]. intros bx Hin.
  eapply build_boxes_on_grid; eauto. cbn [width]. exact Hdiv.
Qed.
(* snap_lw M is THE smallest power of two >= 0.51 * M  (2.0 ** np.ceil(np.log2(0.51 * M))) *)
Lemma snap_lw_smallest M e' : 1 <= M -> 0 <= e' -> 51 * M <= 100 * 2 ^ e' -> snap_lw M <= 2 ^ e'.
Proof.
  intros HM He H. unfold snap_lw. set (c := (51 * M + 99) / 100).
  assert (1 <= c) as Hc. { unfold c. apply Z.div_le_lower_bound; lia. }
  assert (c <= 2 ^ e') as Hle.
  { unfold c. apply Z.lt_succ_r. apply Z.div_lt_upper_bound; lia. }
  apply Z.pow_le_mono_r; [lia|].
  apply Z.log2_up_le_pow2; lia.
Qed.

(* np.round: the result is a nearest integer, and on a tie it is the even one *)
Lemma round_half_even_tie n d : 0 < d ->
  let k := round_half_even n d in (2 * n = 2 * d * k + d \/ 2 * n = 2 * d * k - d) -> Z.even k = true.
Proof.
  intros Hd. unfold round_half_even.
  pose proof (Z.div_mod n d ltac:(lia)) as E. pose proof (Z.mod_pos_bound n d Hd) as B.
  set (q := n / d) in *. set (r := n mod d) in *.
  destruct (Z.ltb_spec (2 * r) d); [intros [H1|H1]; nia|].
  destruct (Z.ltb_spec d (2 * r)); [intros [H1|H1]; nia|].
  destruct (Z.even q) eqn:Eq; intros _; [exact Eq|].
  rewrite Z.even_add, Eq. reflexivity.
Qed.
