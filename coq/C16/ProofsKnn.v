(* C16 — box bounds and correctness of the best-first k-nearest search. *)
From Coq Require Import ZArith List Bool Lia Permutation Sorted.
Import ListNotations.
From FV.C16 Require Import Model ProofsSort.
Open Scope Z_scope.

(* ------------------------------------------------------------ box bounds *)
Lemma sq_nonneg a : 0 <= sq a.
Proof. unfold sq. nia. Qed.
Lemma d2_nonneg q p : 0 <= d2 q p.
Proof. destruct q as [[x y] z], p as [[a b] c]. unfold d2. pose proof (sq_nonneg (x-a)). pose proof (sq_nonneg (y-b)). pose proof (sq_nonneg (z-c)). lia. Qed.

Lemma sq_le_abs u v : Z.abs u <= Z.abs v -> sq u <= sq v.
Proof.
  unfold sq. intros. destruct (Z.abs_spec u) as [[? E]|[? E]], (Z.abs_spec v) as [[? E']|[? E']];
    rewrite E, E' in *; nia.
Qed.

Lemma clamp_axis lo hi x a : lo <= a <= hi -> sq (x - clamp lo hi x) <= sq (x - a).
Proof.
  intros. assert (clamp lo hi x = x \/ (x < lo /\ clamp lo hi x = lo) \/ (hi < x /\ clamp lo hi x = hi))
    as [->|[[? ->]|[? ->]]] by (unfold clamp; lia); apply sq_le_abs; lia.
Qed.

Lemma far_axis lo hi x a : lo <= a <= hi -> sq (x - a) <= sq (Z.max (Z.abs (lo - x)) (Z.abs (hi - x))).
Proof. intros. apply sq_le_abs. lia. Qed.

Lemma ub_axis ax aw bx bw x y :
  ax - aw <= x <= ax + aw -> bx - bw <= y <= bx + bw -> sq (x - y) <= sq (Z.abs (ax - bx) + (aw + bw)).
Proof. intros. apply sq_le_abs. lia. Qed.

Lemma inbox_iff b p :
  inbox b p = true <->
  let '(cx, cy, cz, w) := b in let '(x, y, z) := p in
  cx - w <= x <= cx + w /\ cy - w <= y <= cy + w /\ cz - w <= z <= cz + w.
Proof.
  destruct b as [[[cx cy] cz] w], p as [[x y] z]. unfold inbox.
  rewrite !andb_true_iff, !Z.leb_le. lia.
Qed.

(* possible_dist_min is a lower bound of the distance to every point of the box *)
Theorem box_lb_sound q b p : inbox b p = true -> lb2 q b <= d2 q p.
Proof.
  rewrite inbox_iff. destruct b as [[[cx cy] cz] w], p as [[a b] c], q as [[x y] z].
  intros (Hx & Hy & Hz). unfold lb2, d2.
  pose proof (clamp_axis _ _ x _ Hx). pose proof (clamp_axis _ _ y _ Hy).
  pose proof (clamp_axis _ _ z _ Hz). lia.
Qed.

(* possible_dist_range's hi is an upper bound of the distance to every point of the box *)
Theorem box_hi_sound q b p : inbox b p = true -> d2 q p <= hi2 q b.
Proof.
  rewrite inbox_iff. destruct b as [[[cx cy] cz] w], p as [[a b] c], q as [[x y] z].
  intros (Hx & Hy & Hz). unfold hi2, d2.
  pose proof (far_axis _ _ x _ Hx). pose proof (far_axis _ _ y _ Hy).
  pose proof (far_axis _ _ z _ Hz). lia.
Qed.

(* possible_dist_max_node bounds the distance between any two points of two boxes *)
Theorem box_ub_sound a b p p' : inbox a p = true -> inbox b p' = true -> d2 p p' <= ub2 a b.
Proof.
  rewrite !inbox_iff. destruct a as [[[ax ay] az] aw], b as [[[bx by_] bz] bw],
    p as [[x y] z], p' as [[x' y'] z'].
  intros (Hx & Hy & Hz) (Hx' & Hy' & Hz'). unfold ub2, d2.
  pose proof (ub_axis _ _ _ _ _ _ Hx Hx'). pose proof (ub_axis _ _ _ _ _ _ Hy Hy').
  pose proof (ub_axis _ _ _ _ _ _ Hz Hz'). lia.
Qed.

(* ------------------------------------------------------------ tree facts *)
Lemma tree_ind' (Pt : tree -> Prop) :
  (forall b pts, Pt (Leaf b pts)) ->
  (forall b cs, Forall Pt cs -> Pt (Node b cs)) ->
  forall t, Pt t.
Proof.
  intros HL HN. fix IH 1. intros [b pts|b cs]. apply HL.
  apply HN. induction cs as [|c cs IHcs]; constructor; auto.
Qed.

Lemma valid_in_box t : validb t = true -> forall ip, In ip (points t) -> inbox (box_of t) (snd ip) = true.
Proof.
  destruct t as [b pts|b cs]; simpl; intros H ip Hin.
  - rewrite forallb_forall in H. auto.
  - apply andb_true_iff in H. destruct H as [H _]. rewrite forallb_forall in H. auto.
Qed.
Lemma valid_children b cs : validb (Node b cs) = true -> forall c, In c cs -> validb c = true.
Proof.
  simpl. intros H c Hc. apply andb_true_iff in H. destruct H as [_ H].
  rewrite forallb_forall in H. auto.
Qed.

Lemma size_pos t : (1 <= size t)%nat.
Proof. destruct t; simpl; lia. Qed.

Lemma list_sum_filter {A} (f : A -> nat) (g : A -> bool) l :
  (list_sum (map f (filter g l)) <= list_sum (map f l))%nat.
Proof. induction l; simpl; auto. destruct (g a); simpl; lia. Qed.

Lemma qsize_app a b : qsize (a ++ b) = (qsize a + qsize b)%nat.
Proof. unfold qsize. rewrite map_app, list_sum_app. reflexivity. Qed.

Lemma list_sum_perm a b : Permutation a b -> list_sum a = list_sum b.
Proof. induction 1; simpl; lia. Qed.
Lemma qsize_perm a b : Permutation a b -> qsize a = qsize b.
Proof. intros. unfold qsize. apply list_sum_perm, Permutation_map; auto. Qed.

Lemma nonempty_false t : nonempty t = false -> points t = [].
Proof. unfold nonempty. destruct (points t); auto; discriminate. Qed.

(* ------------------------------------------------------------ pop_min *)
Definition pick_ok (pick : queue -> option ((Z * tree) * queue)) : Prop :=
  forall que, match pick que with
              | None => que = []
              | Some (x, rest) => Permutation que (x :: rest)
              end.

Lemma pop_min_ok : pick_ok pop_min.
Proof.
  intros que. induction que as [|x l IH]; simpl; auto.
  destruct (pop_min l) as [[m r]|].
  - destruct (fst x <=? fst m); auto.
    rewrite IH. apply perm_swap.
  - subst l. auto.
Qed.

(* --------------------------------------------------------------- search *)
Section SearchProof.
  Variable pick : queue -> option ((Z * tree) * queue).
  Hypothesis pick_spec : pick_ok pick.
  Variables (k : nat) (bound : D) (q : P).

  Definition tcands (t : tree) : list entry := cands bound q (points t).
  Definition qcands (que : queue) : list entry := flat_map (fun dt => tcands (snd dt)) que.

  Definition qinv (que : queue) : Prop :=
    Forall (fun dt => validb (snd dt) = true /\
                      forall ip, In ip (points (snd dt)) -> fst dt <= d2 q (snd ip)) que.

  Lemma cands_app a b : cands bound q (a ++ b) = cands bound q a ++ cands bound q b.
  Proof. unfold cands. rewrite filter_app, map_app. reflexivity. Qed.

  Lemma cands_flat_map {A} (f : A -> list (Z * P)) l :
    cands bound q (flat_map f l) = flat_map (fun x => cands bound q (f x)) l.
  Proof. induction l; simpl; auto. rewrite cands_app. congruence. Qed.

  Lemma qcands_perm a b : Permutation a b -> Permutation (qcands a) (qcands b).
  Proof. intros. unfold qcands. apply Permutation_flat_map; auto. Qed.

  Lemma qcands_children cs rest :
    qcands (push_children q cs rest) = tcands (Node (0,0,0,0) cs) ++ qcands rest.
  Proof.
    unfold push_children, qcands. rewrite flat_map_app. f_equal.
    unfold tcands. simpl. rewrite cands_flat_map.
    induction cs as [|c cs IH]; simpl; auto.
    destruct (nonempty c) eqn:E; simpl.
    - rewrite IH. reflexivity.
    - rewrite IH. rewrite (nonempty_false _ E). reflexivity.
  Qed.

  Lemma tcands_node b b' cs : tcands (Node b cs) = tcands (Node b' cs).
  Proof. reflexivity. Qed.

  Lemma cands_In e ipts :
    In e (cands bound q ipts) ->
    exists ip, In ip ipts /\ e = (Fin (d2 q (snd ip)), fst ip) /\ within bound q (snd ip) = true.
  Proof.
    unfold cands. rewrite in_map_iff. intros [ip [<- H]]. apply filter_In in H.
    exists ip. tauto.
  Qed.

  Lemma sorted_last_max res y :
    PS res -> In y res -> pleb y (last res pad) = true.
  Proof.
    induction 1 as [|x l Hs IH Hx]; intros Hin. { destruct Hin. }
    destruct l as [|x' l'].
    - destruct Hin as [->|[]]. simpl. destruct (pleb_total y y); auto.
    - change (last (x :: x' :: l') pad) with (last (x' :: l') pad).
      destruct Hin as [->|Hin]; auto.
      rewrite Forall_forall in Hx. apply Hx.
      clear. generalize x'. induction l' as [|z l IH]; intros x; simpl; auto.
      destruct l; simpl; auto. right. apply (IH z).
  Qed.

  (* a subtree whose lower bound exceeds the current k-th best cannot change the result *)
  Lemma prune_kth res d t :
    PS res -> length res = k ->
    (forall ip, In ip (points t) -> d <= d2 q (snd ip)) ->
    Dltb (kth res) (Fin d) = true ->
    best k (res ++ tcands t) = res.
  Proof.
    intros Hs Hl Hlb Hk. apply prune_ok; auto.
    intros x y Hx Hy. apply cands_In in Hx. destruct Hx as [ip [Hip [-> _]]].
    eapply pleb_trans. { apply sorted_last_max; eauto. }
    apply pleb_of_Dltb. simpl. unfold kth in Hk.
    eapply Dltb_Dleb_trans; eauto. simpl. apply Z.leb_le. auto.
  Qed.

  (* a subtree whose lower bound exceeds the distance bound holds no candidate *)
  Lemma prune_bound d t :
    (forall ip, In ip (points t) -> d <= d2 q (snd ip)) ->
    Dltb bound (Fin d) = true -> tcands t = [].
  Proof.
    intros Hlb Hb. unfold tcands, cands.
    replace (filter _ (points t)) with (@nil (Z * P)); auto.
    symmetry. induction (points t) as [|ip l IH]; simpl; auto.
    assert (within bound q (snd ip) = false) as ->.
    { unfold within. apply negb_false_iff. eapply Dltb_Dleb_trans; eauto.
      simpl. apply Z.leb_le. apply Hlb. left; auto. }
    apply IH. intros; apply Hlb; right; auto.
  Qed.

  Lemma leaf_fold pts : forall res,
    PS res -> length res = k ->
    let res' := fold_left (leaf_step k bound q) pts res in
    PS res' /\ length res' = k /\ res' = best k (res ++ cands bound q pts).
  Proof.
    induction pts as [|ip pts IH]; intros res Hs Hl; simpl.
    - unfold cands. simpl. rewrite app_nil_r, best_id by (auto; lia). auto.
    - unfold leaf_step at 2 4 6. unfold cands. simpl. unfold within at 1 2 3.
      destruct (Dltb bound (Fin (d2 q (snd ip)))) eqn:E; simpl.
      + apply IH; auto.
      + destruct (IH (insert_trunc k (Fin (d2 q (snd ip)), fst ip) res)) as (H1 & H2 & H3).
        { apply insert_trunc_sorted; auto. } { apply insert_trunc_length; auto. }
        split; auto. split; auto. cbv zeta in H3. rewrite H3.
        rewrite insert_trunc_best by (auto; lia).
        rewrite best_absorb. apply best_perm. simpl.
        apply Permutation_cons_app. reflexivity.
  Qed.

  Lemma search_inv : forall fuel que res,
    (qsize que < fuel)%nat -> qinv que -> PS res -> length res = k ->
    search pick k bound q fuel que res = Some (best k (res ++ qcands que)).
  Proof.
    induction fuel as [|f IH]; intros que res Hf Hq Hs Hl. { lia. }
    simpl. pose proof (pick_spec que) as Hp.
    destruct (pick que) as [[[d t] rest]|].
    2:{ subst que. simpl. rewrite app_nil_r, best_id by (auto; lia). reflexivity. }
    assert (qinv ((d, t) :: rest)) as Hq'.
    { unfold qinv in *. eapply Permutation_Forall; eauto. }
    apply Forall_cons_iff in Hq'. destruct Hq' as [[Hv Hlb] Hqr]. simpl in Hv, Hlb.
    rewrite (qsize_perm _ _ Hp) in Hf. unfold qsize in Hf. simpl in Hf. fold (qsize rest) in Hf.
    pose proof (size_pos t).
    rewrite (best_perm k _ _ (Permutation_app_head res (qcands_perm _ _ Hp))).
    change (qcands ((d, t) :: rest)) with (tcands t ++ qcands rest).
    destruct (Dltb (kth res) (Fin d) || Dltb bound (Fin d)) eqn:Epr.
    - (* pruned *)
      rewrite IH by (auto; lia). f_equal.
      apply orb_true_iff in Epr. destruct Epr as [E|E].
      + rewrite app_assoc, <- (best_absorb k (res ++ tcands t)).
        rewrite (prune_kth res d t); auto.
      + rewrite (prune_bound d t); auto.
    - destruct t as [b pts|b cs].
      + (* leaf *)
        destruct (leaf_fold pts res Hs Hl) as (H1 & H2 & H3).
        rewrite IH by (auto; lia). f_equal. cbv zeta in H3. rewrite H3.
        rewrite best_absorb, app_assoc. reflexivity.
      + (* inner node *)
        rewrite IH; auto.
        * rewrite qcands_children. rewrite (tcands_node _ b). reflexivity.
        * unfold push_children. rewrite qsize_app. simpl in Hf.
          assert (qsize (map (fun c => (lb2 q (box_of c), c)) (filter nonempty cs))
                  <= list_sum (map size cs))%nat.
          { unfold qsize. rewrite map_map. simpl. apply list_sum_filter. }
          lia.
        * unfold qinv, push_children. apply Forall_app. split; auto.
          rewrite Forall_forall. intros dt Hdt. apply in_map_iff in Hdt.
          destruct Hdt as [c [<- Hc]]. apply filter_In in Hc. destruct Hc as [Hc _]. simpl.
          pose proof (valid_children _ _ Hv c Hc) as Hvc. split; auto.
          intros ip Hip. apply box_lb_sound. apply valid_in_box; auto.
  Qed.

  Lemma repeat_pad_sorted n : PS (repeat pad n).
  Proof.
    induction n; simpl; constructor; auto.
    rewrite Forall_forall. intros x Hx. apply repeat_spec in Hx. subst. reflexivity.
  Qed.

  (* the search returns the k best candidates of the tree, whatever the queue discipline *)
  Theorem knn_with_correct fuel t :
    validb t = true -> (size t < fuel)%nat ->
    knn_with pick fuel k bound q t = Some (best k (cands bound q (points t) ++ repeat pad k)).
  Proof.
    intros Hv Hf. unfold knn_with. rewrite search_inv.
    - f_equal. simpl. rewrite app_nil_r. apply best_perm, Permutation_app_comm.
    - unfold qsize. simpl. lia.
    - constructor; [|constructor]. simpl. split; auto. intros. apply d2_nonneg.
    - apply repeat_pad_sorted.
    - apply repeat_length.
  Qed.
End SearchProof.

(* ------------------------------------------------- from the tree to the spec *)
Lemma cands_perm bound q a b : Permutation a b -> Permutation (cands bound q a) (cands bound q b).
Proof.
  intros H. unfold cands. apply Permutation_map.
  induction H; simpl; auto.
  - destruct (within bound q (snd x)); auto.
  - destruct (within bound q (snd x)), (within bound q (snd y)); auto. apply perm_swap.
  - etransitivity; eauto.
Qed.

(* t stores exactly the target points with their positions as indices *)
Definition tree_of (t : tree) (targets : list P) : Prop :=
  Permutation (points t) (indexed targets).

Theorem knn_eq_spec pick fuel k bound q t targets :
  pick_ok pick -> validb t = true -> tree_of t targets -> (size t < fuel)%nat ->
  knn_with pick fuel k bound q t = Some (knn_spec k bound q targets).
Proof.
  intros Hp Hv Ht Hf. rewrite (knn_with_correct pick Hp); auto. f_equal.
  unfold knn_spec. apply best_perm. apply Permutation_app_tail. apply cands_perm. exact Ht.
Qed.

Lemma map_snd_combine {A B} (l : list A) (l' : list B) :
  length l = length l' -> map snd (combine l l') = l'.
Proof.
  revert l'. induction l; intros [|b l']; simpl; intros; try discriminate; auto.
  f_equal. apply IHl. lia.
Qed.
Lemma map_fst_combine {A B} (l : list A) (l' : list B) :
  length l = length l' -> map fst (combine l l') = l.
Proof.
  revert l'. induction l; intros [|b l']; simpl; intros; try discriminate; auto.
  f_equal. apply IHl. lia.
Qed.
Lemma indexed_snd targets : map snd (indexed targets) = targets.
Proof. unfold indexed. apply map_snd_combine. rewrite map_length, seq_length. reflexivity. Qed.
Lemma indexed_fst targets : map fst (indexed targets) = map Z.of_nat (seq 0 (length targets)).
Proof. unfold indexed. apply map_fst_combine. rewrite map_length, seq_length. reflexivity. Qed.

Lemma filter_map_comm {A B} (f : A -> B) (g : B -> bool) l :
  filter g (map f l) = map f (filter (fun x => g (f x)) l).
Proof. induction l; simpl; auto. destruct (g (f a)); simpl; congruence. Qed.

Lemma map_repeat' {A B} (f : A -> B) x n : map f (repeat x n) = repeat (f x) n.
Proof. induction n; simpl; congruence. Qed.

(* the distances of knn_spec are the brute-force distance list *)
Theorem knn_spec_fst k bound q targets :
  map fst (knn_spec k bound q targets) = knn_spec_dists k bound q targets.
Proof.
  unfold knn_spec, knn_spec_dists. rewrite map_fst_best, map_app, map_repeat'. simpl.
  rewrite isort_D_app_Inf. do 3 f_equal.
  unfold cands. rewrite map_map. simpl.
  rewrite <- (indexed_snd targets) at 2. rewrite filter_map_comm, map_map. reflexivity.
Qed.

(* indices realise the distances *)

Lemma indexed_nth targets : forall i p,
  In (i, p) (indexed targets) -> 0 <= i /\ nth_error targets (Z.to_nat i) = Some p.
Proof.
  unfold indexed.
  assert (forall s i p, In (i, p) (combine (map Z.of_nat (seq s (length targets))) targets) ->
                        Z.of_nat s <= i /\ nth_error targets (Z.to_nat i - s) = Some p) as H.
  { induction targets as [|a l IH]; simpl; intros s i p H. { destruct H. }
    destruct H as [H|H].
    - inversion H; subst. split; [lia|]. rewrite Nat2Z.id, Nat.sub_diag. reflexivity.
    - apply IH in H. destruct H as [H1 H2]. split; [lia|].
      replace (Z.to_nat i - s)%nat with (S (Z.to_nat i - S s)) by lia. exact H2. }
  intros i p Hin. apply H in Hin. rewrite Nat.sub_0_r in Hin. simpl in Hin. exact Hin.
Qed.

Theorem knn_spec_realised k bound q targets e :
  In e (knn_spec k bound q targets) ->
  e = pad \/
  exists p, nth_pt targets (snd e) = Some p /\ fst e = Fin (d2 q p) /\ within bound q p = true.
Proof.
  intros H. apply best_In in H. apply in_app_or in H. destruct H as [H|H].
  - right. apply cands_In in H. destruct H as [[i p] [Hin [-> Hw]]]. simpl in *.
    exists p. apply indexed_nth in Hin. destruct Hin as [H0 Hn]. unfold nth_pt.
    destruct (Z.ltb_spec i 0); [lia|]. auto.
  - left. apply repeat_spec in H. auto.
Qed.

Definition finite (e : entry) : bool := match fst e with Fin _ => true | Inf => false end.

Lemma NoDup_map_of_nat l : NoDup l -> NoDup (map Z.of_nat l).
Proof.
  induction 1; simpl; constructor; auto.
  rewrite in_map_iff. intros [y [Hy Hin]]. apply Nat2Z.inj in Hy. subst. auto.
Qed.

Lemma NoDup_map_filter {A B} (f : A -> B) g l : NoDup (map f l) -> NoDup (map f (filter g l)).
Proof.
  induction l; simpl; auto. intros H. inversion H; subst.
  destruct (g a); simpl; auto. constructor; auto.
  rewrite in_map_iff in *. intros [y [Hy Hin]]. apply H2. exists y. split; auto.
  apply filter_In in Hin. tauto.
Qed.

Lemma filter_perm {A} (g : A -> bool) a b : Permutation a b -> Permutation (filter g a) (filter g b).
Proof.
  induction 1; simpl; auto.
  - destruct (g x); auto.
  - destruct (g x), (g y); auto. apply perm_swap.
  - etransitivity; eauto.
Qed.

Lemma NoDup_app_l {A} (a b : list A) : NoDup (a ++ b) -> NoDup a.
Proof.
  induction a; simpl; intros H. constructor. inversion H; subst. constructor; auto.
  intro; apply H2; apply in_or_app; auto.
Qed.

Lemma filter_finite_pad n : filter finite (repeat pad n) = [].
Proof. induction n; simpl; auto. Qed.

(* the finite entries of the result name pairwise distinct targets *)
Theorem knn_spec_distinct k bound q targets :
  NoDup (map snd (filter finite (knn_spec k bound q targets))).
Proof.
  unfold knn_spec. set (l := cands bound q (indexed targets) ++ repeat pad k).
  destruct (best_sub k l) as [rest Hp].
  assert (NoDup (map snd (filter finite l))) as Hn.
  { unfold l. rewrite filter_app.
    rewrite filter_finite_pad, app_nil_r. apply NoDup_map_filter.
    unfold cands. rewrite map_map. simpl. apply NoDup_map_filter.
    rewrite indexed_fst. apply NoDup_map_of_nat, seq_NoDup. }
  apply (filter_perm finite) in Hp. rewrite filter_app in Hp.
  apply (Permutation_map snd) in Hp. rewrite map_app in Hp.
  apply (Permutation_NoDup Hp) in Hn. eapply NoDup_app_l; eauto.
Qed.

(* the offset vector target - query has the reported (squared) length *)
Lemma vectors_dists_consistent (q p : P) :
  let '(x, y, z) := q in let '(a, b, c) := p in
  d2 q p = sq (a - x) + sq (b - y) + sq (c - z).
Proof. destruct q as [[x y] z], p as [[a b] c]. unfold d2, sq. ring. Qed.

Lemma knn_spec_length k bound q targets : length (knn_spec k bound q targets) = k.
Proof. unfold knn_spec. apply best_length. rewrite app_length, repeat_length. lia. Qed.

(* a checkable sufficient condition for tree_of *)
Definition ileb (a b : Z * P) : bool := fst a <=? fst b.
Lemma tree_of_by_sort t targets : isort ileb (points t) = indexed targets -> tree_of t targets.
Proof. intros H. unfold tree_of. rewrite <- H. symmetry. apply isort_perm. Qed.
