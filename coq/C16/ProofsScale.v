(* C16 — scaling all coordinates by s > 0 scales every squared distance by s^2 and
   changes no comparison: the specifications on the pre-scaled point sets (on
   which the exact octree is built) are the scaled specifications of the
   original point sets. *)
From Coq Require Import ZArith List Bool Lia.
Import ListNotations.
From FV.C16 Require Import Model ProofsSort.
Open Scope Z_scope.

Definition scaleD (c : Z) (x : D) : D := match x with Fin d => Fin (c * d) | Inf => Inf end.

Lemma d2_scale s q p : d2 (scale_pt s q) (scale_pt s p) = (s * s) * d2 q p.
Proof. destruct q as [[x y] z], p as [[a b] c]. unfold d2, scale_pt, sq. ring. Qed.

Section Mono.
  Variable c : Z.
  Hypothesis Hc : 0 < c.

  Lemma Dleb_scale a b : Dleb (scaleD c a) (scaleD c b) = Dleb a b.
  Proof.
    destruct a, b; simpl; auto.
    destruct (Z.leb_spec d d0), (Z.leb_spec (c * d) (c * d0)); auto; nia.
  Qed.
  Lemma Dltb_scale a b : Dltb (scaleD c a) (scaleD c b) = Dltb a b.
  Proof. unfold Dltb. rewrite Dleb_scale. reflexivity. Qed.

  Lemma insert_scale x l :
    insert Dleb (scaleD c x) (map (scaleD c) l) = map (scaleD c) (insert Dleb x l).
  Proof.
    induction l as [|y l IH]; simpl; auto.
    rewrite Dleb_scale. destruct (Dleb x y); simpl; congruence.
  Qed.
  Lemma isort_scale l : isort Dleb (map (scaleD c) l) = map (scaleD c) (isort Dleb l).
  Proof. induction l as [|x l IH]; simpl; auto. rewrite IH. apply insert_scale. Qed.

  Lemma Dmin_scale a b : Dmin (scaleD c a) (scaleD c b) = scaleD c (Dmin a b).
  Proof. unfold Dmin. rewrite Dleb_scale. destruct (Dleb a b); reflexivity. Qed.
  Lemma Dmax_scale a b : Dmax (scaleD c a) (scaleD c b) = scaleD c (Dmax a b).
  Proof. unfold Dmax. rewrite Dleb_scale. destruct (Dleb a b); reflexivity. Qed.
  Lemma Dmin_list_scale l : Dmin_list (map (scaleD c) l) = scaleD c (Dmin_list l).
  Proof. induction l; simpl; auto. rewrite IHl. apply Dmin_scale. Qed.
  Lemma Dmax_list_scale l : Dmax_list (map (scaleD c) l) = scaleD c (Dmax_list l).
  Proof.
    induction l; simpl. { f_equal. lia. }
    rewrite IHl. apply Dmax_scale.
  Qed.
End Mono.

Lemma firstn_map' {A B} (f : A -> B) n l : firstn n (map f l) = map f (firstn n l).
Proof. revert l. induction n; intros [|x l]; simpl; auto. f_equal. auto. Qed.
Lemma map_repeat_Inf c n : map (scaleD c) (repeat Inf n) = repeat Inf n.
Proof. induction n; simpl; congruence. Qed.

Lemma within_scale s bound q p : 0 < s ->
  within (scaleD (s * s) bound) (scale_pt s q) (scale_pt s p) = within bound q p.
Proof.
  intros Hs. assert (0 < s * s) as Hc by nia. unfold within. rewrite d2_scale.
  change (Fin (s * s * d2 q p)) with (scaleD (s * s) (Fin (d2 q p))).
  rewrite (Dltb_scale (s * s) Hc). reflexivity.
Qed.

Theorem knn_spec_dists_scale s k bound q pts : 0 < s ->
  knn_spec_dists k (scaleD (s * s) bound) (scale_pt s q) (map (scale_pt s) pts) =
  map (scaleD (s * s)) (knn_spec_dists k bound q pts).
Proof.
  intros Hs. assert (0 < s * s) as Hc by nia.
  unfold knn_spec_dists. rewrite <- firstn_map', map_app, map_repeat_Inf. f_equal. f_equal.
  rewrite <- (isort_scale (s * s) Hc). f_equal.
  induction pts as [|p pts IH]; [reflexivity|].
  cbn [map filter]. rewrite within_scale by auto.
  destruct (within bound q p); cbn [map]; [|exact IH].
  rewrite d2_scale. f_equal. exact IH.
Qed.

Lemma nn_spec_scale s a B : 0 < s ->
  nn_spec (scale_pt s a) (map (scale_pt s) B) = scaleD (s * s) (nn_spec a B).
Proof.
  intros Hs. assert (0 < s * s) as Hc by nia. unfold nn_spec.
  rewrite <- (Dmin_list_scale (s * s) Hc), !map_map. f_equal.
  apply map_ext. intros b. rewrite d2_scale. reflexivity.
Qed.

Theorem hausdorff_directed_spec_scale s A B : 0 < s ->
  hausdorff_directed_spec (map (scale_pt s) A) (map (scale_pt s) B) =
  scaleD (s * s) (hausdorff_directed_spec A B).
Proof.
  intros Hs. assert (0 < s * s) as Hc by nia. unfold hausdorff_directed_spec.
  rewrite <- (Dmax_list_scale (s * s) Hc), !map_map. f_equal.
  apply map_ext. intros a. apply nn_spec_scale; auto.
Qed.

Theorem hausdorff_spec_scale s A B : 0 < s ->
  hausdorff_spec (map (scale_pt s) A) (map (scale_pt s) B) = scaleD (s * s) (hausdorff_spec A B).
Proof.
  intros Hs. assert (0 < s * s) as Hc by nia. unfold hausdorff_spec.
  rewrite !hausdorff_directed_spec_scale by auto. apply Dmax_scale; auto.
Qed.
