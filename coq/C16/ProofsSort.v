(* C16 — algebra of insertion sort and of `best k` (the k smallest, sorted). *)
From Coq Require Import ZArith List Bool Lia Permutation Sorted.
Import ListNotations.
From FV.C16 Require Import Model.

Lemma In_firstn {A} (x : A) k : forall l, In x (firstn k l) -> In x l.
Proof.
  induction k; intros [|y l]; simpl; auto; try tauto. intros [H|H]; auto.
Qed.

Section SortFacts.
  Context {A : Type}.
  Variable leb : A -> A -> bool.
  Hypothesis leb_total : forall a b, leb a b = true \/ leb b a = true.
  Hypothesis leb_trans : forall a b c, leb a b = true -> leb b c = true -> leb a c = true.
  Hypothesis leb_antisym : forall a b, leb a b = true -> leb b a = true -> a = b.

  Let le a b := leb a b = true.
  Notation SS := (StronglySorted le).

  Lemma insert_perm x l : Permutation (insert leb x l) (x :: l).
  Proof.
    induction l as [|y l IH]; simpl; auto.
    destruct (leb x y); auto.
    rewrite IH. apply perm_swap.
  Qed.

  Lemma isort_perm l : Permutation (isort leb l) l.
  Proof.
    induction l as [|x l IH]; simpl; auto.
    rewrite insert_perm. auto.
  Qed.

  Lemma insert_sorted x l : SS l -> SS (insert leb x l).
  Proof.
    induction 1 as [|y l Hs IH Hy]; simpl.
    - repeat constructor.
    - destruct (leb x y) eqn:E.
      + constructor. { constructor; auto. }
        constructor; auto.
        rewrite Forall_forall in *. intros z Hz. eapply leb_trans; eauto. apply Hy; auto.
      + constructor; auto.
        rewrite Forall_forall in *. intros z Hz.
        apply (Permutation_in _ (insert_perm x l)) in Hz. destruct Hz as [<-|Hz].
        * destruct (leb_total x y) as [H|H]; [congruence|exact H].
        * apply Hy; auto.
  Qed.

  Lemma isort_sorted l : SS (isort leb l).
  Proof. induction l; simpl; [constructor|apply insert_sorted; auto]. Qed.

  Lemma sorted_unique l1 : forall l2, SS l1 -> SS l2 -> Permutation l1 l2 -> l1 = l2.
  Proof.
    induction l1 as [|x l1 IH]; intros l2 H1 H2 Hp.
    - apply Permutation_nil in Hp. auto.
    - destruct l2 as [|y l2]. { apply Permutation_sym, Permutation_nil in Hp. discriminate. }
      inversion H1 as [|? ? Hs1 Hx]; subst. inversion H2 as [|? ? Hs2 Hy]; subst.
      assert (x = y).
      { rewrite Forall_forall in Hx, Hy.
        assert (In y (x :: l1)) as Hiy by (eapply Permutation_in; [apply Permutation_sym; eauto|left; auto]).
        assert (In x (y :: l2)) as Hix by (eapply Permutation_in; [eauto|left; auto]).
        destruct Hiy as [->|Hiy]; auto. destruct Hix as [->|Hix]; auto.
        apply leb_antisym; [apply Hx|apply Hy]; auto. }
      subst y. f_equal. apply IH; auto. eapply Permutation_cons_inv; eauto.
  Qed.

  Lemma isort_perm_eq a b : Permutation a b -> isort leb a = isort leb b.
  Proof.
    intros. apply sorted_unique; try apply isort_sorted.
    rewrite !isort_perm. auto.
  Qed.

  Lemma isort_id l : SS l -> isort leb l = l.
  Proof.
    intros. apply sorted_unique; auto using isort_sorted, isort_perm.
  Qed.

  Lemma sorted_app_one l x : SS l -> (forall y, In y l -> le y x) -> SS (l ++ [x]).
  Proof.
    induction 1 as [|y l Hs IH Hy]; intros Hx; simpl.
    - repeat constructor.
    - constructor. { apply IH. intros; apply Hx; right; auto. }
      rewrite Forall_forall in *. intros z Hz. apply in_app_or in Hz. destruct Hz as [Hz|[<-|[]]].
      + apply Hy; auto.
      + apply Hx; left; auto.
  Qed.

  Lemma insert_all_le x l : SS l -> (forall y, In y l -> le y x) -> insert leb x l = l ++ [x].
  Proof.
    intros Hs Hx. apply sorted_unique.
    - apply insert_sorted; auto.
    - apply sorted_app_one; auto.
    - rewrite insert_perm. apply Permutation_cons_append.
  Qed.

  Lemma firstn_cons_firstn k (y : A) l :
    firstn k (y :: l) = firstn k (y :: firstn k l).
  Proof.
    destruct k; [reflexivity|]. rewrite !firstn_cons. f_equal. rewrite firstn_firstn.
    f_equal. lia.
  Qed.

  Lemma firstn_insert x l : forall k,
    firstn k (insert leb x l) = firstn k (insert leb x (firstn k l)).
  Proof.
    induction l as [|y l IH]; intros k.
    - destruct k; simpl; auto.
    - destruct k; [reflexivity|]. simpl.
      destruct (leb x y) eqn:E.
      + simpl. f_equal. apply firstn_cons_firstn.
      + simpl. f_equal. apply IH.
  Qed.

  Lemma sorted_firstn k l : SS l -> SS (firstn k l).
  Proof.
    intros H. revert k. induction H as [|y l Hs IH Hy]; intros k; destruct k; simpl; try constructor; auto.
    rewrite Forall_forall in *. intros z Hz. apply Hy. eapply In_firstn; eauto.
  Qed.
End SortFacts.

(* ------------------------------------------------------------- order on D *)
Lemma Dleb_total a b : Dleb a b = true \/ Dleb b a = true.
Proof. destruct a, b; simpl; auto; rewrite !Z.leb_le; lia. Qed.
Lemma Dleb_trans a b c : Dleb a b = true -> Dleb b c = true -> Dleb a c = true.
Proof. destruct a, b, c; simpl; auto; rewrite ?Z.leb_le; try lia; discriminate. Qed.
Lemma Dleb_antisym a b : Dleb a b = true -> Dleb b a = true -> a = b.
Proof. destruct a, b; simpl; auto; rewrite ?Z.leb_le; try discriminate; intros; f_equal; lia. Qed.
Lemma Dleb_refl a : Dleb a a = true.
Proof. destruct a; simpl; auto. apply Z.leb_refl. Qed.
Lemma Dltb_lt a b : Dltb a b = true <-> Dleb b a = false.
Proof. unfold Dltb. rewrite negb_true_iff. tauto. Qed.
Lemma Dltb_Dleb a b : Dltb a b = true -> Dleb a b = true.
Proof. unfold Dltb. destruct a, b; simpl; auto; rewrite negb_true_iff, ?Z.leb_le, ?Z.leb_gt; try lia; discriminate. Qed.
Lemma Dleb_Dltb_trans a b c : Dleb a b = true -> Dltb b c = true -> Dltb a c = true.
Proof.
  unfold Dltb. destruct a, b, c; simpl; auto; rewrite ?negb_true_iff, ?Z.leb_le, ?Z.leb_gt; try lia; try discriminate.
Qed.
Lemma Dltb_Dleb_trans a b c : Dltb a b = true -> Dleb b c = true -> Dltb a c = true.
Proof.
  unfold Dltb. destruct a, b, c; simpl; auto; rewrite ?negb_true_iff, ?Z.leb_le, ?Z.leb_gt; try lia; try discriminate.
Qed.
Lemma Dleb_false_Dltb a b : Dleb a b = false -> Dltb b a = true.
Proof. unfold Dltb. intros ->. reflexivity. Qed.
Lemma Dltb_false_Dleb a b : Dltb a b = false -> Dleb b a = true.
Proof. unfold Dltb. rewrite negb_false_iff. auto. Qed.
Lemma Dltb_irrefl a : Dltb a a = false.
Proof. unfold Dltb. rewrite Dleb_refl. reflexivity. Qed.

Lemma Dmin_le_l a b : Dleb (Dmin a b) a = true.
Proof. unfold Dmin. destruct (Dleb a b) eqn:E. apply Dleb_refl. destruct (Dleb_total a b); congruence. Qed.
Lemma Dmin_le_r a b : Dleb (Dmin a b) b = true.
Proof. unfold Dmin. destruct (Dleb a b) eqn:E; auto. apply Dleb_refl. Qed.
Lemma Dmin_glb a b c : Dleb c a = true -> Dleb c b = true -> Dleb c (Dmin a b) = true.
Proof. unfold Dmin. destruct (Dleb a b); auto. Qed.
Lemma Dmax_ge_l a b : Dleb a (Dmax a b) = true.
Proof. unfold Dmax. destruct (Dleb a b) eqn:E; auto. apply Dleb_refl. Qed.
Lemma Dmax_ge_r a b : Dleb b (Dmax a b) = true.
Proof. unfold Dmax. destruct (Dleb a b) eqn:E. apply Dleb_refl. destruct (Dleb_total a b); congruence. Qed.
Lemma Dmax_lub a b c : Dleb a c = true -> Dleb b c = true -> Dleb (Dmax a b) c = true.
Proof. unfold Dmax. destruct (Dleb a b); auto. Qed.
Lemma Dmin_comm a b : Dmin a b = Dmin b a.
Proof.
  unfold Dmin. destruct (Dleb a b) eqn:E1, (Dleb b a) eqn:E2; auto.
  - apply Dleb_antisym; auto.
  - destruct (Dleb_total a b); congruence.
Qed.
Lemma Dmin_assoc a b c : Dmin a (Dmin b c) = Dmin (Dmin a b) c.
Proof.
  apply Dleb_antisym.
  - apply Dmin_glb. apply Dmin_glb. apply Dmin_le_l.
    eapply Dleb_trans; [apply Dmin_le_r|apply Dmin_le_l].
    eapply Dleb_trans; [apply Dmin_le_r|apply Dmin_le_r].
  - apply Dmin_glb. eapply Dleb_trans; [apply Dmin_le_l|apply Dmin_le_l].
    apply Dmin_glb. eapply Dleb_trans; [apply Dmin_le_l|apply Dmin_le_r]. apply Dmin_le_r.
Qed.
Lemma Dmin_absorb a b : Dleb a b = true -> Dmin a b = a.
Proof. unfold Dmin. intros ->. reflexivity. Qed.
Lemma Dmin_Inf_r a : Dmin a Inf = a.
Proof. destruct a; reflexivity. Qed.

(* -------------------------------------------------------- order on entries *)
Definition ple_prop (a b : entry) : Prop :=
  match fst a, fst b with
  | Fin x, Fin y => x < y \/ (x = y /\ snd b <= snd a)
  | Fin _, Inf => True
  | Inf, Fin _ => False
  | Inf, Inf => snd b <= snd a
  end.
Lemma pleb_iff a b : pleb a b = true <-> ple_prop a b.
Proof.
  destruct a as [[x|] i], b as [[y|] j]; unfold pleb, ple_prop, Dltb, Deqb; simpl;
    rewrite ?orb_true_iff, ?andb_true_iff, ?negb_true_iff, ?Z.leb_le, ?Z.leb_gt; try lia;
    intuition (try discriminate; try lia).
Qed.
Lemma pleb_total a b : pleb a b = true \/ pleb b a = true.
Proof.
  rewrite !pleb_iff. destruct a as [[x|] i], b as [[y|] j]; unfold ple_prop; simpl; lia.
Qed.
Lemma pleb_trans a b c : pleb a b = true -> pleb b c = true -> pleb a c = true.
Proof.
  rewrite !pleb_iff. destruct a as [[x|] i], b as [[y|] j], c as [[z|] l]; unfold ple_prop; simpl; lia.
Qed.
Lemma pleb_antisym a b : pleb a b = true -> pleb b a = true -> a = b.
Proof.
  rewrite !pleb_iff. destruct a as [[x|] i], b as [[y|] j]; unfold ple_prop; simpl; intros;
    try lia; repeat f_equal; lia.
Qed.
Lemma pleb_of_Dltb a b : Dltb (fst a) (fst b) = true -> pleb a b = true.
Proof. unfold pleb. intros ->. reflexivity. Qed.
Lemma pleb_fst a b : pleb a b = true -> Dleb (fst a) (fst b) = true.
Proof.
  unfold pleb. rewrite orb_true_iff, andb_true_iff. intros [H|[H _]].
  - apply Dltb_Dleb; auto.
  - unfold Deqb in H. apply andb_true_iff in H. tauto.
Qed.

Notation PS := (StronglySorted (fun a b => pleb a b = true)).

Definition psort := isort pleb.
Lemma psort_perm l : Permutation (psort l) l.
Proof. apply isort_perm. Qed.
Lemma psort_sorted l : PS (psort l).
Proof. apply (isort_sorted pleb pleb_total pleb_trans). Qed.

(* ------------------------------------------------------------------ best *)
Lemma best_cons k x l : best k (x :: l) = insert_trunc k x (best k l).
Proof. unfold best, insert_trunc. simpl. apply firstn_insert. Qed.

Lemma best_perm k a b : Permutation a b -> best k a = best k b.
Proof.
  intros. unfold best. f_equal.
  apply (isort_perm_eq pleb pleb_total pleb_trans pleb_antisym); auto.
Qed.

Lemma best_app_fold k a b : best k (a ++ b) = fold_right (insert_trunc k) (best k b) a.
Proof. induction a; simpl; auto. rewrite best_cons. congruence. Qed.

Lemma best_id k l : PS l -> (length l <= k)%nat -> best k l = l.
Proof.
  intros. unfold best. rewrite (isort_id pleb pleb_total pleb_trans pleb_antisym); auto.
  apply firstn_all2; auto.
Qed.

Lemma best_sorted k l : PS (best k l).
Proof. apply sorted_firstn, psort_sorted. Qed.
Lemma best_length_le k l : (length (best k l) <= k)%nat.
Proof. unfold best. rewrite firstn_length. lia. Qed.
Lemma best_length k l : (k <= length l)%nat -> length (best k l) = k.
Proof.
  intros. unfold best. rewrite firstn_length.
  rewrite (Permutation_length (isort_perm pleb l)). lia.
Qed.

Lemma best_best k l : best k (best k l) = best k l.
Proof. apply best_id; auto using best_sorted, best_length_le. Qed.

Lemma best_absorb k a b : best k (best k a ++ b) = best k (a ++ b).
Proof.
  rewrite (best_perm k (best k a ++ b) (b ++ best k a)) by apply Permutation_app_comm.
  rewrite (best_perm k (a ++ b) (b ++ a)) by apply Permutation_app_comm.
  rewrite !best_app_fold, best_best. reflexivity.
Qed.

Lemma insert_trunc_noop k x l :
  PS l -> length l = k -> (forall y, In y l -> pleb y x = true) -> insert_trunc k x l = l.
Proof.
  intros Hs Hl Hx. unfold insert_trunc.
  rewrite (insert_all_le pleb pleb_total pleb_trans pleb_antisym); auto.
  rewrite firstn_app, <- Hl, Nat.sub_diag, firstn_all. simpl. apply app_nil_r.
Qed.

(* elements that cannot beat a full sorted result do not change it *)
Lemma prune_ok k res c :
  PS res -> length res = k ->
  (forall x y, In x c -> In y res -> pleb y x = true) ->
  best k (res ++ c) = res.
Proof.
  intros Hs Hl Hc.
  rewrite (best_perm k (res ++ c) (c ++ res)) by apply Permutation_app_comm.
  rewrite best_app_fold, best_id by (auto; lia).
  induction c as [|x c IH]; simpl; auto.
  rewrite IH by (intros; apply Hc; simpl; auto).
  apply insert_trunc_noop; auto. intros; apply Hc; simpl; auto.
Qed.

Lemma insert_trunc_sorted k x l : PS l -> PS (insert_trunc k x l).
Proof.
  intros. apply sorted_firstn. apply (insert_sorted pleb pleb_total pleb_trans); auto.
Qed.
Lemma insert_trunc_length k x l : length l = k -> length (insert_trunc k x l) = k.
Proof.
  intros. unfold insert_trunc. rewrite firstn_length.
  rewrite (Permutation_length (insert_perm pleb x l)). simpl. lia.
Qed.
Lemma insert_trunc_best k x l : PS l -> (length l <= k)%nat -> insert_trunc k x l = best k (x :: l).
Proof. intros. rewrite best_cons, best_id; auto. Qed.

(* best k l is a sub-multiset of l *)
Lemma best_sub k l : exists rest, Permutation l (best k l ++ rest).
Proof.
  exists (skipn k (psort l)). unfold best. fold psort.
  rewrite firstn_skipn. symmetry. apply psort_perm.
Qed.
Lemma best_In k l x : In x (best k l) -> In x l.
Proof.
  intros. destruct (best_sub k l) as [r Hp]. eapply Permutation_in; [symmetry; eauto|].
  apply in_or_app; auto.
Qed.

(* distances of the best k = the k smallest distances *)
Lemma map_fst_sorted l : PS l -> StronglySorted (fun a b => Dleb a b = true) (map fst l).
Proof.
  induction 1 as [|x l Hs IH Hx]; simpl; constructor; auto.
  rewrite Forall_forall in *. intros d Hd. apply in_map_iff in Hd. destruct Hd as [y [<- Hy]].
  apply pleb_fst; auto.
Qed.
Lemma map_fst_psort l : map fst (psort l) = isort Dleb (map fst l).
Proof.
  apply (sorted_unique Dleb Dleb_antisym).
  - apply map_fst_sorted, psort_sorted.
  - apply (isort_sorted Dleb Dleb_total Dleb_trans).
  - rewrite isort_perm. apply Permutation_map, psort_perm.
Qed.
Lemma map_fst_best k l : map fst (best k l) = firstn k (isort Dleb (map fst l)).
Proof. unfold best. rewrite <- firstn_map. f_equal. apply map_fst_psort. Qed.

Lemma isort_D_app_Inf l n : isort Dleb (l ++ repeat Inf n) = isort Dleb l ++ repeat Inf n.
Proof.
  apply (sorted_unique Dleb Dleb_antisym).
  - apply (isort_sorted Dleb Dleb_total Dleb_trans).
  - induction n as [|n IH]; simpl.
    + rewrite app_nil_r. apply (isort_sorted Dleb Dleb_total Dleb_trans).
    + replace (isort Dleb l ++ Inf :: repeat Inf n) with ((isort Dleb l ++ repeat Inf n) ++ [Inf]).
      * apply sorted_app_one; auto. intros y _. destruct y; reflexivity.
      * rewrite <- app_assoc. f_equal. change (Inf :: repeat Inf n) with (repeat Inf (S n)).
        rewrite <- repeat_cons. reflexivity.
  - rewrite isort_perm. apply Permutation_app_tail. symmetry. apply isort_perm.
Qed.

(* -------------------------------------- the same algebra for any total order *)
Section GBest.
  Context {A : Type}.
  Variable leb : A -> A -> bool.
  Hypothesis leb_total : forall a b, leb a b = true \/ leb b a = true.
  Hypothesis leb_trans : forall a b c, leb a b = true -> leb b c = true -> leb a c = true.
  Hypothesis leb_antisym : forall a b, leb a b = true -> leb b a = true -> a = b.
  Notation GS := (StronglySorted (fun a b => leb a b = true)).

  Definition gbest (k : nat) (l : list A) : list A := firstn k (isort leb l).
  Definition ginsert_trunc (k : nat) (x : A) (l : list A) : list A := firstn k (insert leb x l).

  Lemma gbest_cons k x l : gbest k (x :: l) = ginsert_trunc k x (gbest k l).
  Proof. unfold gbest, ginsert_trunc. simpl. apply firstn_insert. Qed.
  Lemma gbest_perm k a b : Permutation a b -> gbest k a = gbest k b.
  Proof. intros. unfold gbest. f_equal. apply (isort_perm_eq leb leb_total leb_trans leb_antisym); auto. Qed.
  Lemma gbest_app_fold k a b : gbest k (a ++ b) = fold_right (ginsert_trunc k) (gbest k b) a.
  Proof. induction a; simpl; auto. rewrite gbest_cons. congruence. Qed.
  Lemma gbest_id k l : GS l -> (length l <= k)%nat -> gbest k l = l.
  Proof.
    intros. unfold gbest. rewrite (isort_id leb leb_total leb_trans leb_antisym); auto.
    apply firstn_all2; auto.
  Qed.
  Lemma gbest_sorted k l : GS (gbest k l).
  Proof. apply sorted_firstn, (isort_sorted leb leb_total leb_trans). Qed.
  Lemma gbest_length_le k l : (length (gbest k l) <= k)%nat.
  Proof. unfold gbest. rewrite firstn_length. lia. Qed.
  Lemma gbest_best k l : gbest k (gbest k l) = gbest k l.
  Proof. apply gbest_id; auto using gbest_sorted, gbest_length_le. Qed.
  Lemma gbest_absorb k a b : gbest k (gbest k a ++ b) = gbest k (a ++ b).
  Proof.
    rewrite (gbest_perm k (gbest k a ++ b) (b ++ gbest k a)) by apply Permutation_app_comm.
    rewrite (gbest_perm k (a ++ b) (b ++ a)) by apply Permutation_app_comm.
    rewrite !gbest_app_fold, gbest_best. reflexivity.
  Qed.
  Lemma ginsert_trunc_noop k x l :
    GS l -> length l = k -> (forall y, In y l -> leb y x = true) -> ginsert_trunc k x l = l.
  Proof.
    intros Hs Hl Hx. unfold ginsert_trunc.
    rewrite (insert_all_le leb leb_total leb_trans leb_antisym); auto.
    rewrite firstn_app, <- Hl, Nat.sub_diag, firstn_all. simpl. apply app_nil_r.
  Qed.
  (* elements not below the largest kept one do not change a full result *)
  Lemma gprune_ok k res c :
    GS res -> length res = k ->
    (forall x y, In x c -> In y res -> leb y x = true) ->
    gbest k (res ++ c) = res.
  Proof.
    intros Hs Hl Hc.
    rewrite (gbest_perm k (res ++ c) (c ++ res)) by apply Permutation_app_comm.
    rewrite gbest_app_fold, gbest_id by (auto; lia).
    induction c as [|x c IH]; simpl; auto.
    rewrite IH by (intros; apply Hc; simpl; auto).
    apply ginsert_trunc_noop; auto. intros; apply Hc; simpl; auto.
  Qed.
End GBest.

(* the k smallest distances *)
Definition dbest := gbest Dleb.
Notation DS := (StronglySorted (fun a b => Dleb a b = true)).
Lemma dbest_perm k a b : Permutation a b -> dbest k a = dbest k b.
Proof. apply (gbest_perm Dleb Dleb_total Dleb_trans Dleb_antisym). Qed.
Lemma dbest_absorb k a b : dbest k (dbest k a ++ b) = dbest k (a ++ b).
Proof. apply (gbest_absorb Dleb Dleb_total Dleb_trans Dleb_antisym). Qed.
Lemma dprune_ok k res c :
  DS res -> length res = k -> (forall x y, In x c -> In y res -> Dleb y x = true) ->
  dbest k (res ++ c) = res.
Proof. apply (gprune_ok Dleb Dleb_total Dleb_trans Dleb_antisym). Qed.
Lemma dists_best k l : map fst (best k l) = dbest k (map fst l).
Proof. apply map_fst_best. Qed.
