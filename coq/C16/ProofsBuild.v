(* C16 — the octree construction of build_octree_node, carried out in exact
   arithmetic, yields a valid tree that stores every point: the hypotheses of
   the search theorems hold for every point set, and can only fail in the
   implementation through floating-point rounding of the cell bounds. *)
From Coq Require Import ZArith List Bool Lia Permutation.
Import ListNotations.
From FV.C16 Require Import Model ProofsSort ProofsKnn.
Open Scope Z_scope.

Lemma filter_split_perm {A} (f : A -> bool) l :
  Permutation (filter f l ++ filter (fun x => negb (f x)) l) l.
Proof.
  induction l as [|a l IH]; simpl; auto.
  destruct (f a); simpl.
  - constructor; auto.
  - apply Permutation_sym, Permutation_cons_app, Permutation_sym; auto.
Qed.

Lemma flat_map_perm_pointwise {A B} (f g : A -> list B) l :
  (forall x, In x l -> Permutation (f x) (g x)) -> Permutation (flat_map f l) (flat_map g l).
Proof.
  induction l as [|a l IH]; simpl; intros H; auto.
  apply Permutation_app; auto.
Qed.

(* distribute loses exactly the points that lie in no box *)
Lemma distribute_perm bs : forall pts,
  (forall ip, In ip pts -> existsb (fun b => inbox b (snd ip)) bs = true) ->
  Permutation (flat_map snd (distribute bs pts)) pts.
Proof.
  induction bs as [|b bs IH]; intros pts H; simpl.
  - destruct pts as [|ip pts]; auto. specialize (H ip (or_introl eq_refl)). discriminate.
  - rewrite (IH (filter (fun ip => negb (inbox b (snd ip))) pts)).
    + apply filter_split_perm.
    + intros ip Hip. apply filter_In in Hip. destruct Hip as [Hip Hn].
      specialize (H ip Hip). simpl in H. apply negb_true_iff in Hn. rewrite Hn in H. exact H.
Qed.

Lemma distribute_in bs : forall pts b l,
  In (b, l) (distribute bs pts) -> In b bs /\ forall ip, In ip l -> In ip pts /\ inbox b (snd ip) = true.
Proof.
  induction bs as [|b0 bs IH]; intros pts b l H; simpl in H. { destruct H. }
  destruct H as [H|H].
  - inversion H; subst. split. left; auto. intros ip Hip. apply filter_In in Hip. exact Hip.
  - apply IH in H. destruct H as [Hb Hl]. split. right; auto.
    intros ip Hip. apply Hl in Hip. destruct Hip as [Hip Hbox]. apply filter_In in Hip. tauto.
Qed.

(* the eight children tile the parent when the half width is even *)
Lemma children_cover b p :
  (let '(_, _, _, w) := b in w mod 2 = 0) -> inbox b p = true ->
  existsb (fun c => inbox c p) (map (child b) (seq 0 8)) = true.
Proof.
  destruct b as [[[cx cy] cz] w], p as [[x y] z]. intros Hw Hin.
  apply inbox_iff in Hin. destruct Hin as (Hx & Hy & Hz).
  assert (w = 2 * (w / 2)) as Hw2 by (apply Z_div_exact_2; lia).
  set (r := ((if (x <? cx)%Z then 4 else 0) + (if (y <? cy)%Z then 2 else 0) + (if (z <? cz)%Z then 1 else 0))%nat).
  apply existsb_exists. exists (child (cx, cy, cz, w) r). split.
  - apply in_map. apply in_seq. unfold r.
    destruct (x <? cx), (y <? cy), (z <? cz); simpl; lia.
  - apply inbox_iff. unfold r, child.
    destruct (Z.ltb_spec x cx), (Z.ltb_spec y cy), (Z.ltb_spec z cz); simpl; lia.
Qed.

Lemma child_width b r : (let '(_, _, _, w) := child b r in w) = (let '(_, _, _, w) := b in w / 2).
Proof. destruct b as [[[cx cy] cz] w]. reflexivity. Qed.

Definition width (b : box) : Z := let '(_, _, _, w) := b in w.

Lemma divide_half d w : (2 ^ Z.of_nat (S d) | w) -> w mod 2 = 0 /\ (2 ^ Z.of_nat d | w / 2).
Proof.
  intros [q Hq]. rewrite Nat2Z.inj_succ, Z.pow_succ_r in Hq by lia.
  assert (w = (q * 2 ^ Z.of_nat d) * 2) as E by lia.
  split.
  - rewrite E. apply Z_mod_mult.
  - rewrite E, Z_div_mult by lia. exists q. reflexivity.
Qed.

Lemma build_S d b pts : pts <> [] ->
  build (S d) b pts =
  Node b (map (fun bp => build d (fst bp) (snd bp)) (distribute (map (child b) (seq 0 8)) pts)).
Proof. destruct pts; [congruence|reflexivity]. Qed.

Lemma build_points_sub : forall d b l ip, In ip (points (build d b l)) -> In ip l.
Proof.
  induction d as [|d IHd]; intros b l ip Hin. { exact Hin. }
  destruct l as [|i0 l']. { destruct Hin. }
  rewrite build_S in Hin by discriminate.
  remember (distribute (map (child b) (seq 0 8)) (i0 :: l')) as ds eqn:Eds.
  simpl in Hin. apply in_flat_map in Hin.
  destruct Hin as [c [Hc Hin]]. apply in_map_iff in Hc. destruct Hc as [[b' l2] [<- Hbl]].
  simpl in Hin. apply IHd in Hin. rewrite Eds in Hbl. apply distribute_in in Hbl. destruct Hbl as [_ Hl].
  apply Hl in Hin. tauto.
Qed.

(* validity needs nothing but the root containment *)
Lemma build_valid : forall d b pts,
  (forall ip, In ip pts -> inbox b (snd ip) = true) -> validb (build d b pts) = true.
Proof.
  induction d as [|d IH]; intros b pts H.
  - simpl. apply forallb_forall. auto.
  - destruct pts as [|ip0 pts']. { reflexivity. }
    rewrite build_S by discriminate.
    remember (ip0 :: pts') as pts eqn:Epts.
    remember (distribute (map (child b) (seq 0 8)) pts) as ds eqn:Eds. simpl.
    apply andb_true_iff. split.
    + apply forallb_forall. intros ip Hip. apply in_flat_map in Hip.
      destruct Hip as [c [Hc Hip]]. apply in_map_iff in Hc. destruct Hc as [[b' l] [<- Hbl]].
      simpl in Hip. rewrite Eds in Hbl. apply distribute_in in Hbl. destruct Hbl as [_ Hl].
      apply build_points_sub in Hip. apply Hl in Hip. apply H. tauto.
    + apply forallb_forall. intros c Hc. apply in_map_iff in Hc. destruct Hc as [[b' l] [<- Hbl]].
      simpl. apply IH. intros ip Hip. rewrite Eds in Hbl. apply distribute_in in Hbl.
      destruct Hbl as [_ Hl]. apply Hl in Hip. tauto.
Qed.

(* with exact halving no point is lost *)
Lemma build_complete : forall d b pts,
  (2 ^ Z.of_nat d | width b) ->
  (forall ip, In ip pts -> inbox b (snd ip) = true) ->
  Permutation (points (build d b pts)) pts.
Proof.
  induction d as [|d IH]; intros b pts Hdiv H.
  - reflexivity.
  - destruct pts as [|ip0 pts']. { reflexivity. }
    rewrite build_S by discriminate.
    remember (ip0 :: pts') as pts eqn:Epts.
    destruct (divide_half d (width b) Hdiv) as [Heven Hhalf].
    assert (forall ip, In ip pts -> existsb (fun c => inbox c (snd ip)) (map (child b) (seq 0 8)) = true) as Hcov.
    { intros ip Hip. apply children_cover; auto. destruct b as [[[cx cy] cz] w]. exact Heven. }
    pose proof (distribute_perm _ _ Hcov) as Hperm.
    assert (forall b' l, In (b', l) (distribute (map (child b) (seq 0 8)) pts) ->
                         Permutation (points (build d b' l)) l) as Hch.
    { intros b' l Hbl. apply distribute_in in Hbl. destruct Hbl as [Hb Hl]. apply IH.
      - apply in_map_iff in Hb. destruct Hb as [r [<- _]].
        destruct b as [[[cx cy] cz] w]. exact Hhalf.
      - intros ip Hip. apply Hl in Hip. tauto. }
    revert Hperm Hch. generalize (distribute (map (child b) (seq 0 8)) pts) as ds. intros ds Hperm Hch.
    simpl. rewrite <- Hperm. clear Hperm.
    induction ds as [|[b' l] ds IHds]; simpl; auto.
    apply Permutation_app.
    + apply Hch. left; auto.
    + apply IHds. intros; apply Hch; right; auto.
Qed.

(* --------------------------------------------------------------- root box *)
Lemma list_min_le l d : forall x, In x (d :: l) -> list_min l d <= x.
Proof.
  induction l as [|a l IH]; simpl; intros x H.
  - destruct H as [->|[]]. lia.
  - destruct H as [->|[->|H]].
    + specialize (IH x (or_introl eq_refl)). lia.
    + lia.
    + specialize (IH x (or_intror H)). lia.
Qed.
Lemma list_max_ge l d : forall x, In x (d :: l) -> x <= list_max l d.
Proof.
  induction l as [|a l IH]; simpl; intros x H.
  - destruct H as [->|[]]. lia.
  - destruct H as [->|[->|H]].
    + specialize (IH x (or_introl eq_refl)). lia.
    + lia.
    + specialize (IH x (or_intror H)). lia.
Qed.
Lemma list_min_in l d : In (list_min l d) (d :: l).
Proof.
  induction l as [|a l IH]; simpl; auto.
  destruct (Z.min_spec a (list_min l d)) as [[_ ->]|[_ ->]]; auto.
  destruct IH as [IH|IH]; auto.
Qed.
Lemma list_max_in l d : In (list_max l d) (d :: l).
Proof.
  induction l as [|a l IH]; simpl; auto.
  destruct (Z.max_spec a (list_max l d)) as [[_ ->]|[_ ->]]; auto.
  destruct IH as [IH|IH]; auto.
Qed.

Lemma scaled_coord_divide s (pts : list P) (f : P -> Z) x :
  (forall p, (s | f (scale_pt s p))) -> In x (map f (map (scale_pt s) pts)) -> (s | x).
Proof.
  intros Hf H. apply in_map_iff in H. destruct H as [p' [<- H]].
  apply in_map_iff in H. destruct H as [p [<- _]]. apply Hf.
Qed.

Section Root.
  Variable depth : nat.
  Let s := octree_scale depth.
  Variable bpts : list P.            (* points that define the bounding box *)

  Lemma s_pos : 0 < s.
  Proof. unfold s, octree_scale. pose proof (Z.pow_pos_nonneg 2 (Z.of_nat depth)). lia. Qed.

  Lemma root_box_props :
    bpts <> [] ->
    (2 ^ Z.of_nat depth | width (root_box (map (scale_pt s) bpts))) /\
    forall p, In p bpts -> inbox (root_box (map (scale_pt s) bpts)) (scale_pt s p) = true.
  Proof.
    intros Hne. destruct bpts as [|p0 l] eqn:Eb; [congruence|]. clear Hne.
    cbn [map]. destruct (scale_pt s p0) as [[x0 y0] z0] eqn:E0.
    unfold root_box. cbn [map fst snd].
    set (sl := map (scale_pt s) l).
    match goal with |- context [list_min (x0 :: ?m) x0] => set (xs := x0 :: m) end.
    match goal with |- context [list_min (y0 :: ?m) y0] => set (ys := y0 :: m) end.
    match goal with |- context [list_min (z0 :: ?m) z0] => set (zs := z0 :: m) end.
    (* every coordinate of the scaled list is a multiple of s *)
    assert (forall (f : P -> Z), (forall p, (s | f (scale_pt s p))) ->
            forall v, In v (f (x0, y0, z0) :: f (x0, y0, z0) :: map f sl) -> (s | v)) as Hmul.
    { intros f Hf v [<-|[<-|Hv]]; try (rewrite <- E0; apply Hf).
      unfold sl in Hv. eapply scaled_coord_divide; eauto. }
    assert (forall p, (s | fst (fst (scale_pt s p)))) as Hfx by (intros [[a b] c]; simpl; exists a; lia).
    assert (forall p, (s | snd (fst (scale_pt s p)))) as Hfy by (intros [[a b] c]; simpl; exists b; lia).
    assert (forall p, (s | snd (scale_pt s p))) as Hfz by (intros [[a b] c]; simpl; exists c; lia).
    pose proof (Hmul (fun p => fst (fst p)) Hfx _ (list_min_in xs x0)) as [a1 Ha1].
    pose proof (Hmul (fun p => fst (fst p)) Hfx _ (list_max_in xs x0)) as [a2 Ha2].
    pose proof (Hmul (fun p => snd (fst p)) Hfy _ (list_min_in ys y0)) as [b1 Hb1].
    pose proof (Hmul (fun p => snd (fst p)) Hfy _ (list_max_in ys y0)) as [b2 Hb2].
    pose proof (Hmul (fun p => snd p) Hfz _ (list_min_in zs z0)) as [c1 Hc1].
    pose proof (Hmul (fun p => snd p) Hfz _ (list_max_in zs z0)) as [c2 Hc2].
    cbn [width].
    remember (list_min xs x0) as xmin eqn:Exmin. remember (list_max xs x0) as xmax eqn:Exmax.
    remember (list_min ys y0) as ymin eqn:Eymin. remember (list_max ys y0) as ymax eqn:Eymax.
    remember (list_min zs z0) as zmin eqn:Ezmin. remember (list_max zs z0) as zmax eqn:Ezmax.
    set (M := Z.max (a2 - a1) (Z.max (b2 - b1) (c2 - c1))).
    assert (Z.max (xmax - xmin) (Z.max (ymax - ymin) (zmax - zmin)) = M * s) as EM.
    { pose proof s_pos. unfold M. rewrite Ha1, Ha2, Hb1, Hb2, Hc1, Hc2.
      rewrite <- !Z.mul_sub_distr_r, <- !Z.mul_max_distr_nonneg_r by lia. reflexivity. }
    rewrite EM.
    assert (M * s * 51 / 100 = M * 102 * 2 ^ Z.of_nat depth) as EW.
    { unfold s, octree_scale.
      replace (M * (200 * 2 ^ Z.of_nat depth) * 51) with ((M * 102 * 2 ^ Z.of_nat depth) * 100) by ring.
      apply Z_div_mult. lia. }
    rewrite EW. split. { exists (M * 102). ring. }
    assert ((xmin + xmax) / 2 = (a1 + a2) * 100 * 2 ^ Z.of_nat depth) as ECx.
    { rewrite Ha1, Ha2. unfold s, octree_scale.
      replace (a1 * (200 * 2 ^ Z.of_nat depth) + a2 * (200 * 2 ^ Z.of_nat depth))
        with (((a1 + a2) * 100 * 2 ^ Z.of_nat depth) * 2) by ring. apply Z_div_mult. lia. }
    assert ((ymin + ymax) / 2 = (b1 + b2) * 100 * 2 ^ Z.of_nat depth) as ECy.
    { rewrite Hb1, Hb2. unfold s, octree_scale.
      replace (b1 * (200 * 2 ^ Z.of_nat depth) + b2 * (200 * 2 ^ Z.of_nat depth))
        with (((b1 + b2) * 100 * 2 ^ Z.of_nat depth) * 2) by ring. apply Z_div_mult. lia. }
    assert ((zmin + zmax) / 2 = (c1 + c2) * 100 * 2 ^ Z.of_nat depth) as ECz.
    { rewrite Hc1, Hc2. unfold s, octree_scale.
      replace (c1 * (200 * 2 ^ Z.of_nat depth) + c2 * (200 * 2 ^ Z.of_nat depth))
        with (((c1 + c2) * 100 * 2 ^ Z.of_nat depth) * 2) by ring. apply Z_div_mult. lia. }
    rewrite ECx, ECy, ECz.
    intros p Hp.
    assert (In (scale_pt s p) ((x0, y0, z0) :: sl)) as Hin.
    { destruct Hp as [->|Hp]; [left; auto|right; apply in_map; auto]. }
    destruct (scale_pt s p) as [[x y] z] eqn:Ep.
    assert (In x (x0 :: xs) /\ In y (y0 :: ys) /\ In z (z0 :: zs)) as (Hx & Hy & Hz).
    { destruct Hin as [Hin|Hin].
      - inversion Hin; subst. simpl; auto.
      - repeat split; right; right;
          [apply (in_map (fun p : P => fst (fst p)) _ _ Hin)
          |apply (in_map (fun p : P => snd (fst p)) _ _ Hin)
          |apply (in_map (fun p : P => snd p) _ _ Hin)]. }
    pose proof (list_min_le xs x0 x Hx) as L1. pose proof (list_max_ge xs x0 x Hx) as L2.
    pose proof (list_min_le ys y0 y Hy) as L3. pose proof (list_max_ge ys y0 y Hy) as L4.
    pose proof (list_min_le zs z0 z Hz) as L5. pose proof (list_max_ge zs z0 z Hz) as L6.
    rewrite <- ?Exmin, <- ?Exmax, <- ?Eymin, <- ?Eymax, <- ?Ezmin, <- ?Ezmax in *.
    apply inbox_iff.
    pose proof s_pos as Hs. pose proof (Z.pow_pos_nonneg 2 (Z.of_nat depth) ltac:(lia) ltac:(lia)) as Hpow.
    set (T := 2 ^ Z.of_nat depth) in *.
    assert (s = 200 * T) as Es by reflexivity.
    assert (a2 - a1 <= M /\ b2 - b1 <= M /\ c2 - c1 <= M) as (HM1 & HM2 & HM3) by (unfold M; lia).
    rewrite Ha1, Ha2, Hb1, Hb2, Hc1, Hc2, Es in *.
    nia.
  Qed.
End Root.

(* the exact octree of any point set inside the bounding box of bpts *)
Theorem octree_valid_complete depth bpts pts :
  bpts <> [] -> incl pts bpts ->
  let t := octree depth bpts pts in
  validb t = true /\ tree_of t (map (scale_pt (octree_scale depth)) pts).
Proof.
  intros Hne Hincl t. destruct (root_box_props depth bpts Hne) as [Hdiv Hbox].
  assert (forall ip, In ip (indexed (map (scale_pt (octree_scale depth)) pts)) ->
                     inbox (root_box (map (scale_pt (octree_scale depth)) bpts)) (snd ip) = true) as Hin.
  { intros ip Hip. assert (In (snd ip) (map snd (indexed (map (scale_pt (octree_scale depth)) pts))))
      as H by (apply in_map; auto).
    rewrite indexed_snd in H. apply in_map_iff in H. destruct H as [p [<- Hp]]. apply Hbox. auto. }
  split.
  - apply build_valid. exact Hin.
  - unfold tree_of. apply build_complete; auto.
Qed.
