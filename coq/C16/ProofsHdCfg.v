(* C16 — the Hausdorff kernel is correct for EVERY accepted configuration of its five decision
   points (ModelHdCfg.v).  The proofs are those of ProofsHd.v with the three places where a
   comparison is used replaced by what the accepted comparisons guarantee:
     skip a popped cell of B      (d  nn_prune  dist)  ->  dist <= d
     shortcut                     (hi nn_short  HD)    ->  hi <= HD
     break of the main loop       (ub loop_break HD)   ->  ub <= HD
   The comparisons of calc_frm_node are never used: whatever is skipped there, the result is a
   minimum of valid per-leaf upper bounds (or inf), hence a valid upper bound. *)
From Coq Require Import ZArith List Bool Lia Permutation Sorted.
Import ListNotations.
From FV.C16 Require Import Model ModelHdCfg ProofsSort ProofsKnn ProofsHd.
Open Scope Z_scope.
Set Default Timeout 120.

Lemma cmp_in_2 c a b : cmp_in c [a; b] = true -> c = a \/ c = b.
Proof. unfold cmp_in. destruct c, a, b; simpl; intros H; try discriminate; auto. Qed.

Lemma nn_prune_ok cfg : hcfg_ok cfg = true ->
  forall d dist, cmp_eval (nn_prune cfg) (Fin d) dist = true -> Dleb dist (Fin d) = true.
Proof.
  unfold hcfg_ok. intros H d dist. apply andb_true_iff in H. destruct H as [H _].
  apply andb_true_iff in H. destruct H as [H _].
  destruct (cmp_in_2 _ _ _ H) as [-> | ->]; simpl; intros E; [apply Dltb_Dleb|]; exact E.
Qed.
Lemma nn_short_ok cfg : hcfg_ok cfg = true ->
  forall x HD, cmp_eval (nn_short cfg) x HD = true -> Dleb x HD = true.
Proof.
  unfold hcfg_ok. intros H x HD. apply andb_true_iff in H. destruct H as [H _].
  apply andb_true_iff in H. destruct H as [_ H].
  destruct (cmp_in_2 _ _ _ H) as [-> | ->]; simpl; intros E; [|apply Dltb_Dleb]; exact E.
Qed.
Lemma loop_break_ok cfg : hcfg_ok cfg = true ->
  forall x HD, cmp_eval (loop_break cfg) x HD = true -> Dleb x HD = true.
Proof.
  unfold hcfg_ok. intros H x HD. apply andb_true_iff in H. destruct H as [_ H].
  destruct (cmp_in_2 _ _ _ H) as [-> | ->]; simpl; intros E; [|apply Dltb_Dleb]; exact E.
Qed.

Module HdCfg.
Section HdProof.
  Variable cfg : hcfg.
  Hypothesis Hcfg : hcfg_ok cfg = true.
  Variable pick : queue -> option ((Z * tree) * queue).
  Hypothesis pick_spec : pick_ok pick.

  (* ------------------------------------------------------------ calc_frm *)
  Definition nn_post (HD : D) (a : P) (que : queue) (dist : D) (r : nnres) : Prop :=
    match r with
    | Found d => d = Dmin dist (mind a (qpts que))
    | Short => exists ip, In ip (qpts que) /\ Dleb (Fin (d2 a (snd ip))) HD = true
    end.

  Lemma nn_post_perm HD a q1 q2 dist r :
    Permutation q1 q2 -> nn_post HD a q2 dist r -> nn_post HD a q1 dist r.
  Proof.
    intros Hp. destruct r; simpl.
    - intros [ip [Hin Hd]]. exists ip. split; auto.
      eapply Permutation_in; [symmetry; apply qpts_perm|]; eauto.
    - intros ->. f_equal. apply mind_perm, qpts_perm. symmetry; auto.
  Qed.

  Lemma nn_search_inv HD a : forall fuel que dist,
    (qsize que < fuel)%nat -> qinv a que ->
    exists r, nn_search_cfg cfg pick fuel HD a que dist = Some r /\ nn_post HD a que dist r.
  Proof.
    induction fuel as [|f IH]; intros que dist Hf Hq. { lia. }
    simpl. pose proof (pick_spec que) as Hp.
    destruct (pick que) as [[[d t] rest]|].
    2:{ subst que. eexists; split; eauto. simpl. unfold mind. simpl. rewrite Dmin_Inf_r. reflexivity. }
    assert (qinv a ((d, t) :: rest)) as Hq'.
    { unfold qinv in *. eapply Permutation_Forall; eauto. }
    apply Forall_cons_iff in Hq'. destruct Hq' as [[Hv Hlb] Hqr]. simpl in Hv, Hlb.
    rewrite (qsize_perm _ _ Hp) in Hf. unfold qsize in Hf. simpl in Hf. fold (qsize rest) in Hf.
    pose proof (size_pos t).
    cut (exists r, (if cmp_eval (nn_prune cfg) (Fin d) dist then nn_search_cfg cfg pick f HD a rest dist
                    else match t with
                         | Leaf _ pts => nn_search_cfg cfg pick f HD a rest
                             (fold_left (fun dist ip => Dmin dist (Fin (d2 a (snd ip)))) pts dist)
                         | Node _ cs =>
                             if existsb (fun c => cmp_eval (nn_short cfg) (Fin (hi2 a (box_of c))) HD) (filter nonempty cs)
                             then Some Short
                             else nn_search_cfg cfg pick f HD a
                                    (map (fun c => (lb2 a (box_of c), c)) (filter nonempty cs) ++ rest) dist
                         end) = Some r /\ nn_post HD a ((d, t) :: rest) dist r).
    { intros [r [H1 H2]]. exists r. split; auto. eapply nn_post_perm; eauto. }
    destruct (cmp_eval (nn_prune cfg) (Fin d) dist) eqn:Epr.
    - (* pruned *)
      destruct (IH rest dist) as [r [H1 H2]]; auto; try lia.
      exists r. split; auto. destruct r; simpl in *.
      + destruct H2 as [ip [Hin Hd]]. exists ip. split; auto. apply in_or_app; auto.
      + subst d0. change (qpts ((d, t) :: rest)) with (points t ++ qpts rest).
        rewrite mind_app, Dmin_assoc. f_equal. symmetry. apply Dmin_absorb.
        unfold mind. apply Dmin_list_glb. intros x Hx. apply in_map_iff in Hx.
        destruct Hx as [ip [<- Hip]]. eapply Dleb_trans; [apply (nn_prune_ok _ Hcfg _ _ Epr)|].
        simpl. apply Z.leb_le. auto.
    - destruct t as [b pts|b cs].
      + (* leaf *)
        destruct (IH rest (fold_left (fun dist ip => Dmin dist (Fin (d2 a (snd ip)))) pts dist))
          as [r [H1 H2]]; auto; try lia.
        exists r. split; auto. destruct r; simpl in *.
        * destruct H2 as [ip [Hin Hd]]. exists ip. split; auto. apply in_or_app; auto.
        * subst d0. rewrite fold_min. change (qpts ((d, Leaf b pts) :: rest)) with (pts ++ qpts rest).
          rewrite mind_app, Dmin_assoc. reflexivity.
      + (* inner node *)
        destruct (existsb _ (filter nonempty cs)) eqn:Ex.
        * (* hi <= HD: a stored point is within HD of a *)
          exists Short. split; auto. unfold nn_post.
          apply existsb_exists in Ex. destruct Ex as [c [Hc Hhi]]. apply (nn_short_ok _ Hcfg) in Hhi.
          apply filter_In in Hc. destruct Hc as [Hc Hne].
          destruct (nonempty_true _ Hne) as [ip Hip]. exists ip. split.
          { apply in_or_app. left. simpl. apply in_flat_map. eauto. }
          pose proof (valid_children _ _ Hv c Hc) as Hvc.
          pose proof (box_hi_sound a _ _ (valid_in_box _ Hvc _ Hip)).
          apply (Dleb_trans _ (Fin (hi2 a (box_of c)))); auto. simpl. apply Z.leb_le. auto.
        * destruct (IH (map (fun c => (lb2 a (box_of c), c)) (filter nonempty cs) ++ rest) dist)
            as [r [H1 H2]].
          { rewrite qsize_app. simpl in Hf.
            assert (qsize (map (fun c => (lb2 a (box_of c), c)) (filter nonempty cs))
                    <= list_sum (map size cs))%nat.
            { unfold qsize. rewrite map_map. simpl. apply list_sum_filter. }
            lia. }
          { unfold qinv. apply Forall_app. split; auto.
            rewrite Forall_forall. intros dt Hdt. apply in_map_iff in Hdt.
            destruct Hdt as [c [<- Hc]]. apply filter_In in Hc. destruct Hc as [Hc _]. simpl.
            pose proof (valid_children _ _ Hv c Hc) as Hvc. split; auto.
            intros ip Hip. apply box_lb_sound. apply valid_in_box; auto. }
          exists r. split; auto.
          destruct r; unfold nn_post in *;
            rewrite (qpts_children (fun c => lb2 a (box_of c))) in H2;
            change (qpts ((d, Node b cs) :: rest)) with (flat_map points cs ++ qpts rest); exact H2.
  Qed.

  (* calc_frm on the whole tree: exact nearest-neighbour distance, or the
     guarantee that it does not exceed HD *)
  Lemma nn_search_root HD a fuel t :
    validb t = true -> (size t < fuel)%nat ->
    exists r, nn_search_cfg cfg pick fuel HD a [(0, t)] Inf = Some r /\
              match r with
              | Found d => d = mind a (points t)
              | Short => Dleb (mind a (points t)) HD = true
              end.
  Proof.
    intros Hv Hf. destruct (nn_search_inv HD a fuel [(0, t)] Inf) as [r [H1 H2]].
    - unfold qsize. simpl. lia.
    - constructor; [|constructor]. simpl. split; auto. intros. apply d2_nonneg.
    - exists r. split; auto. destruct r; simpl in H2.
      + destruct H2 as [ip [Hin Hd]]. unfold qpts in Hin. simpl in Hin. rewrite app_nil_r in Hin.
        eapply Dleb_trans; [apply mind_le|]; eauto.
      + subst d. unfold qpts. simpl. rewrite app_nil_r, Dmin_Inf_l. reflexivity.
  Qed.

  (* ------------------------------------------------------- calc_frm_node *)
  Section Ub.
    Variable tB : tree.
    Variable bA : box.

    Definition ub_sound (u : D) : Prop :=
      forall p, inbox bA p = true -> Dleb (mind p (points tB)) u = true.

    Definition ub_inv (que : queue) : Prop :=
      Forall (fun dt => validb (snd dt) = true /\ nonempty (snd dt) = true /\
                        incl (points (snd dt)) (points tB)) que.

    Lemma ub_search_inv : forall fuel que dist,
      (qsize que < fuel)%nat -> ub_inv que -> ub_sound dist ->
      exists u, ub_search_cfg cfg pick fuel bA que dist = Some u /\ ub_sound u.
    Proof.
      induction fuel as [|f IH]; intros que dist Hf Hq Hd. { lia. }
      simpl. pose proof (pick_spec que) as Hp.
      destruct (pick que) as [[[d t] rest]|]. 2:{ eauto. }
      assert (ub_inv ((d, t) :: rest)) as Hq'.
      { unfold ub_inv in *. eapply Permutation_Forall; eauto. }
      apply Forall_cons_iff in Hq'. destruct Hq' as [(Hv & Hne & Hincl) Hqr]. simpl in Hv, Hne, Hincl.
      rewrite (qsize_perm _ _ Hp) in Hf. unfold qsize in Hf. simpl in Hf. fold (qsize rest) in Hf.
      pose proof (size_pos t).
      destruct (cmp_eval (ub_prune cfg) (Fin d) dist). { apply IH; auto; lia. }
      destruct t as [b pts|b cs].
      - apply IH; auto; try lia.
        intros p Hp'. apply Dmin_glb; auto.
        destruct (nonempty_true _ Hne) as [ip Hip]. simpl in Hip.
        eapply Dleb_trans. { apply (mind_le p _ ip). apply Hincl. exact Hip. }
        simpl. apply Z.leb_le. apply box_ub_sound; auto.
        simpl in Hv. rewrite forallb_forall in Hv. auto.
      - apply IH; auto.
        + rewrite qsize_app. simpl in Hf.
          match goal with |- (qsize (map ?g (filter ?h cs)) + _ < _)%nat =>
            assert (qsize (map g (filter h cs)) <= list_sum (map size cs))%nat
              by (unfold qsize; rewrite map_map; simpl; apply list_sum_filter) end.
          lia.
        + unfold ub_inv. apply Forall_app. split; auto.
          rewrite Forall_forall. intros dt Hdt. apply in_map_iff in Hdt.
          destruct Hdt as [c [<- Hc]]. apply filter_In in Hc. destruct Hc as [Hc Hf'].
          apply andb_true_iff in Hf'. destruct Hf' as [Hnc _]. simpl.
          split. { eapply valid_children; eauto. } split; auto.
          intros ip Hip. apply Hincl. simpl. apply in_flat_map. eauto.
    Qed.

    Lemma ub_search_root fuel :
      validb tB = true -> nonempty tB = true -> (size tB < fuel)%nat ->
      exists u, ub_search_cfg cfg pick fuel bA [(0, tB)] Inf = Some u /\ ub_sound u.
    Proof.
      intros Hv Hne Hf. apply ub_search_inv.
      - unfold qsize. simpl. lia.
      - constructor; [|constructor]. simpl. split; auto. split; auto. apply incl_refl.
      - intros p _. destruct (mind p (points tB)); reflexivity.
    Qed.
  End Ub.

  (* ------------------------------------------------------------ main loop *)
  Section Loop.
    Variable tB : tree.
    Variable fuel : nat.
    Hypothesis HvB : validb tB = true.
    Hypothesis Hfuel : (size tB < fuel)%nat.

    Let NN (ip : Z * P) : D := mind (snd ip) (points tB).

    Lemma hd_points_spec : forall pts HD,
      Dleb (Fin 0) HD = true ->
      exists R, hd_points_cfg cfg pick fuel tB pts HD = Some R /\
                Dleb HD R = true /\
                (forall ip, In ip pts -> Dleb (NN ip) R = true) /\
                (R = HD \/ exists ip, In ip pts /\ R = NN ip).
    Proof.
      induction pts as [|ip pts IH]; intros HD H0; simpl.
      - exists HD. split; [auto|]. split; [apply Dleb_refl|]. split; [intros ? []|auto].
      - destruct (nn_search_root HD (snd ip) fuel tB HvB Hfuel) as [r [H1 H2]].
        rewrite H1.
        assert (Dleb HD (Dmax HD (nn_value r)) = true) as Hge by apply Dmax_ge_l.
        assert (Dleb (NN ip) (Dmax HD (nn_value r)) = true) as Hnn.
        { destruct r; cbn [nn_value].
          - eapply Dleb_trans; [exact H2|exact Hge].
          - subst d. apply Dmax_ge_r. }
        assert (Dmax HD (nn_value r) = HD \/ Dmax HD (nn_value r) = NN ip) as Hor.
        { destruct r; cbn [nn_value].
          - left. unfold Dmax. destruct (Dleb HD (Fin 0)) eqn:E; [|reflexivity].
            apply Dleb_antisym; [exact H0|exact E].
          - subst d. unfold Dmax. fold (NN ip). destruct (Dleb HD (NN ip)); auto. }
        destruct (IH (Dmax HD (nn_value r))) as (R & HR1 & HR2 & HR3 & HR4).
        { eapply Dleb_trans; eauto. }
        exists R. split; auto. split. { eapply Dleb_trans; eauto. }
        split.
        + intros ip' [<-|Hin]; auto. eapply Dleb_trans; eauto.
        + destruct HR4 as [->|[ip' [Hin ->]]]; eauto.
          destruct Hor as [->| ->]; eauto.
    Qed.

    Definition ubs_ok (ls : list (D * list (Z * P))) : Prop :=
      forall u pts ip, In (u, pts) ls -> In ip pts -> Dleb (NN ip) u = true.

    Lemma hd_loop_spec : forall ls HD,
      Dleb (Fin 0) HD = true ->
      StronglySorted (fun x y => ubgeb x y = true) ls -> ubs_ok ls ->
      exists R, hd_loop_cfg cfg pick fuel tB ls HD = Some R /\
                Dleb HD R = true /\
                (forall u pts ip, In (u, pts) ls -> In ip pts -> Dleb (NN ip) R = true) /\
                (R = HD \/ exists u pts ip, In (u, pts) ls /\ In ip pts /\ R = NN ip).
    Proof.
      induction ls as [|[ub pts] ls IH]; intros HD H0 Hs Hok; simpl.
      - exists HD. split; [auto|]. split; [apply Dleb_refl|]. split; [intros ? ? ? []|auto].
      - inversion Hs as [|? ? Hs' Hall]; subst.
        destruct (cmp_eval (loop_break cfg) ub HD) eqn:Ebr.
        + apply (loop_break_ok _ Hcfg) in Ebr. (* early break: every remaining leaf has upper bound <= HD *)
          exists HD. split; auto. split. apply Dleb_refl. split; auto.
          intros u pts' ip Hin Hip.
          eapply Dleb_trans. { eapply Hok; eauto. }
          destruct Hin as [Heq|Hin]. { inversion Heq; subst; auto. }
          rewrite Forall_forall in Hall. specialize (Hall _ Hin). unfold ubgeb in Hall. simpl in Hall.
          eapply Dleb_trans; eauto.
        + destruct (hd_points_spec pts HD H0) as (HD' & H1 & H2 & H3 & H4). rewrite H1.
          destruct (IH HD') as (R & HR1 & HR2 & HR3 & HR4); auto.
          { eapply Dleb_trans; eauto. }
          { intros u p ip Hin Hip. eapply Hok; eauto. right; auto. }
          exists R. split; auto. split. { eapply Dleb_trans; eauto. }
          split.
          * intros u pts' ip [Heq|Hin] Hip.
            -- inversion Heq; subst. eapply Dleb_trans; eauto.
            -- eapply HR3; eauto.
          * destruct HR4 as [->|(u & p & ip & Hin & Hip & ->)].
            -- destruct H4 as [->|[ip [Hip ->]]]; auto. right. exists ub, pts, ip. simpl. auto.
            -- right. exists u, p, ip. simpl. auto.
    Qed.

    (* upper bounds of the leaves of A *)
    Lemma leaf_ubs_spec (HneB : nonempty tB = true) : forall ls,
      (forall b pts ip, In (b, pts) ls -> In ip pts -> inbox b (snd ip) = true) ->
      exists us, leaf_ubs_cfg cfg pick fuel tB ls = Some us /\ ubs_ok us /\
                 (forall ip, (exists b pts, In (b, pts) ls /\ In ip pts) <->
                             (exists u pts, In (u, pts) us /\ In ip pts)).
    Proof.
      induction ls as [|[b pts] ls IH]; intros Hbox; simpl.
      - exists []. split; auto. split. { intros ? ? ? []. }
        intros ip. split; intros (? & ? & [] & _).
      - destruct IH as (us & H1 & H2 & H3). { intros; eapply Hbox; eauto. right; eauto. }
        destruct pts as [|ip0 pts'].
        + exists us. split; auto. split; auto. intros ip. rewrite <- H3. split.
          * intros (b' & p' & [Heq|Hin] & Hip); [inversion Heq; subst; destruct Hip|eauto].
          * intros (b' & p' & Hin & Hip). exists b', p'. auto.
        + destruct (ub_search_root tB b fuel HvB HneB Hfuel) as [u [Hu1 Hu2]].
          rewrite Hu1, H1. exists ((u, ip0 :: pts') :: us). split; auto. split.
          * intros u' p' ip [Heq|Hin] Hip.
            -- inversion Heq; subst. apply Hu2. eapply Hbox; eauto. left; eauto.
            -- eapply H2; eauto.
          * intros ip. split.
            -- intros (b' & p' & [Heq|Hin] & Hip).
               ++ inversion Heq; subst. exists u, (ip0 :: pts'). simpl. auto.
               ++ destruct (proj1 (H3 ip)) as (u' & p'' & ? & ?); [eauto|].
                  exists u', p''. simpl. auto.
            -- intros (u' & p' & [Heq|Hin] & Hip).
               ++ inversion Heq; subst. exists b, (ip0 :: pts'). simpl. auto.
               ++ destruct (proj2 (H3 ip)) as (b' & p'' & ? & ?); [eauto|].
                  exists b', p''. simpl. auto.
    Qed.
  End Loop.

  (* the directed Hausdorff loop computes max over A of the nearest-neighbour distance in B *)
  Theorem directed_hd_points fuel tA tB :
    validb tA = true -> validb tB = true -> nonempty tB = true ->
    (size tB < fuel)%nat ->
    directed_hd_cfg cfg pick fuel tA tB =
      Some (Dmax_list (map (fun ip => mind (snd ip) (points tB)) (points tA))).
  Proof.
    intros HvA HvB HneB Hf. unfold directed_hd_cfg.
    destruct (leaf_ubs_spec tB fuel HvB Hf HneB (leaves tA) (leaves_box tA HvA)) as (us & H1 & H2 & H3).
    rewrite H1.
    destruct (hd_loop_spec tB fuel HvB Hf (isort ubgeb us) (Fin 0)) as (R & HR1 & HR2 & HR3 & HR4).
    - reflexivity.
    - apply (isort_sorted ubgeb ubgeb_total ubgeb_trans).
    - intros u pts ip Hin Hip. eapply H2; eauto.
      eapply Permutation_in; [apply isort_perm|]; eauto.
    - rewrite HR1. f_equal.
      assert (forall ip, In ip (points tA) <-> exists u pts, In (u, pts) (isort ubgeb us) /\ In ip pts) as Hcov.
      { intros ip. rewrite leaves_points, H3. split; intros (u & pts & Hin & Hip); exists u, pts; split; auto.
        - eapply Permutation_in; [symmetry; apply isort_perm|]; eauto.
        - eapply Permutation_in; [apply isort_perm|]; eauto. }
      apply Dleb_antisym.
      + destruct HR4 as [->|(u & pts & ip & Hin & Hip & ->)].
        * apply Dmax_list_ge0.
        * apply Dmax_list_ge. apply in_map_iff. exists ip. split; auto.
          apply Hcov. eauto.
      + apply Dmax_list_lub; auto. intros x Hx. apply in_map_iff in Hx.
        destruct Hx as [ip [<- Hip]]. apply Hcov in Hip. destruct Hip as (u & pts & Hin & Hip).
        eapply HR3; eauto.
  Qed.
End HdProof.

Theorem directed_hd_correct cfg pick fuel tA tB A B :
  hcfg_ok cfg = true -> pick_ok pick ->
  validb tA = true -> validb tB = true -> tree_of tA A -> tree_of tB B -> B <> [] ->
  (size tB < fuel)%nat ->
  directed_hd_cfg cfg pick fuel tA tB = Some (hausdorff_directed_spec A B).
Proof.
  intros Hcfg Hp HvA HvB HtA HtB HB Hf.
  rewrite (directed_hd_points cfg Hcfg pick Hp); auto.
  - f_equal. unfold hausdorff_directed_spec.
    rewrite <- (Dmax_list_perm _ _ (Permutation_map (fun a => nn_spec a B) (tree_of_snd _ _ HtA))).
    rewrite map_map. f_equal. apply map_ext. intros ip.
    rewrite mind_spec. apply nn_spec_perm. apply tree_of_snd; auto.
  - unfold nonempty. destruct (points tB) eqn:E; auto.
    apply tree_of_snd in HtB. rewrite E in HtB. simpl in HtB. apply Permutation_nil in HtB. congruence.
Qed.

Theorem hausdorff_correct cfg pick fuel directed tA tB A B :
  hcfg_ok cfg = true -> pick_ok pick ->
  validb tA = true -> validb tB = true -> tree_of tA A -> tree_of tB B -> A <> [] -> B <> [] ->
  (size tA < fuel)%nat -> (size tB < fuel)%nat ->
  hausdorff_cfg cfg pick fuel directed tA tB =
    Some (if directed then hausdorff_directed_spec A B else hausdorff_spec A B).
Proof.
  intros. unfold hausdorff_cfg. destruct directed.
  - apply directed_hd_correct; auto.
  - rewrite (directed_hd_correct cfg pick fuel tA tB A B), (directed_hd_correct cfg pick fuel tB tA B A); auto.
Qed.

End HdCfg.

(* with the comparisons of the unchanged code the configured functions ARE the model's *)
Section CodeIsModel.
  Variable pick : queue -> option ((Z * tree) * queue).
  Lemma ub_search_code : forall fuel bA que dist,
    ub_search_cfg hcfg_code pick fuel bA que dist = ub_search pick fuel bA que dist.
  Proof.
    induction fuel as [|f IH]; intros; simpl; [reflexivity|].
    destruct (pick que) as [[[d t] rest]|]; [|reflexivity].
    destruct (Dltb dist (Fin d)); [apply IH|]. destruct t; apply IH.
  Qed.
  Lemma nn_search_code : forall fuel HD a que dist,
    nn_search_cfg hcfg_code pick fuel HD a que dist = nn_search pick fuel HD a que dist.
  Proof.
    induction fuel as [|f IH]; intros; simpl; [reflexivity|].
    destruct (pick que) as [[[d t] rest]|]; [|reflexivity].
    destruct (Dltb dist (Fin d)); [apply IH|]. destruct t; [apply IH|].
    destruct (existsb _ _); [reflexivity|apply IH].
  Qed.
  Lemma hd_points_code fuel tB : forall pts HD,
    hd_points_cfg hcfg_code pick fuel tB pts HD = hd_points pick fuel tB pts HD.
  Proof.
    induction pts as [|ip pts IH]; intros; simpl; [reflexivity|].
    rewrite nn_search_code. destruct (nn_search _ _ _ _ _ _); [apply IH|reflexivity].
  Qed.
  Lemma hd_loop_code fuel tB : forall ls HD,
    hd_loop_cfg hcfg_code pick fuel tB ls HD = hd_loop pick fuel tB ls HD.
  Proof.
    induction ls as [|[ub pts] ls IH]; intros; simpl; [reflexivity|].
    destruct (Dleb ub HD); [reflexivity|]. rewrite hd_points_code.
    destruct (hd_points _ _ _ _ _); [apply IH|reflexivity].
  Qed.
  Lemma leaf_ubs_code fuel tB : forall ls,
    leaf_ubs_cfg hcfg_code pick fuel tB ls = leaf_ubs pick fuel tB ls.
  Proof.
    induction ls as [|[b pts] ls IH]; simpl; [reflexivity|].
    destruct pts; [apply IH|]. rewrite ub_search_code, IH. reflexivity.
  Qed.
  Theorem hausdorff_code_is_model fuel directed tA tB :
    hausdorff_cfg hcfg_code pick fuel directed tA tB = hausdorff pick fuel directed tA tB.
  Proof.
    assert (forall a b, directed_hd_cfg hcfg_code pick fuel a b = directed_hd pick fuel a b) as H.
    { intros. unfold directed_hd_cfg, directed_hd. rewrite leaf_ubs_code.
      destruct (leaf_ubs _ _ _ _); [apply hd_loop_code|reflexivity]. }
    unfold hausdorff_cfg, hausdorff. rewrite !H. reflexivity.
  Qed.
End CodeIsModel.
