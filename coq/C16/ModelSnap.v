(* C16 — the root cell of build_octree_node as of /repo 7a2f8fc ("snapped grid").  Definitions only.

     w0 = max(xmax - xmin, ymax - ymin, zmax - zmin) * 0.51
     x0 = (xmin + xmax) / 2                                  (same for y, z)
     if w0 > 0:
         w0 = 2.0 ** np.ceil(np.log2(w0))                    (smallest power of two >= 0.51 * extent)
         leaf_w = w0 / 256                                   (half width of a depth-8 cell)
         x0 = np.round(x0 / leaf_w) * leaf_w                 (nearest multiple, ties to even)

   Model: integer coordinates, pre-multiplied by s = 2^depth so that leaf_w is an integer:
   for an extent M >= 1 the power of two is 2^e >= 1 (0.51 * M >= 0.51 > 1/2), so in scaled units
   leaf_w = 2^e =: lw, w0 = s * lw, and x0 / leaf_w = s * (xmin + xmax) / (2 * lw).
   An integer power of two is >= 0.51 * M iff it is >= ceil(51 * M / 100). *)
From Coq Require Import ZArith List Bool.
Import ListNotations.
From FV.C16 Require Import Model.
Open Scope Z_scope.

(* np.round of the rational n / d (d > 0): nearest integer, ties to the even one *)
Definition round_half_even (n d : Z) : Z :=
  let q := n / d in let r := n mod d in
  if 2 * r <? d then q else if d <? 2 * r then q + 1 else if Z.even q then q else q + 1.

(* smallest power of two >= 0.51 * M   (M >= 1) *)
Definition snap_lw (M : Z) : Z := 2 ^ Z.log2_up ((51 * M + 99) / 100).

(* root cell, in coordinates multiplied by s, of the UNscaled integer points pts *)
Definition snapped_box (s : Z) (pts : list P) : box :=
  match pts with
  | [] => (0, 0, 0, 0)
  | (x0, y0, z0) :: _ =>
      let xs := map (fun p => fst (fst p)) pts in
      let ys := map (fun p => snd (fst p)) pts in
      let zs := map (fun p => snd p) pts in
      let xmin := list_min xs x0 in let xmax := list_max xs x0 in
      let ymin := list_min ys y0 in let ymax := list_max ys y0 in
      let zmin := list_min zs z0 in let zmax := list_max zs z0 in
      let M := Z.max (xmax - xmin) (Z.max (ymax - ymin) (zmax - zmin)) in
      if M =? 0 then (s * x0, s * y0, s * z0, 0)       (* w0 = 0: a single location, grid not snapped *)
      else
        let lw := snap_lw M in
        (round_half_even (s * (xmin + xmax)) (2 * lw) * lw,
         round_half_even (s * (ymin + ymax)) (2 * lw) * lw,
         round_half_even (s * (zmin + zmax)) (2 * lw) * lw,
         s * lw)
  end.

Definition snap_scale (depth : nat) : Z := 2 ^ Z.of_nat depth.

(* the octree of pts inside the snapped root cell of box_pts (the code: depth = 8) *)
Definition snapped_octree (depth : nat) (box_pts pts : list P) : tree :=
  let s := snap_scale depth in
  build depth (snapped_box s box_pts) (indexed (map (scale_pt s) pts)).

(* every cell of a tree: centre and half width are multiples of u, and the cell lies inside
   [-bound, bound]^3: with u a power of two and bound / u < 2^53 all cell bounds cx +- w are
   binary64 numbers, so the float construction computes them without rounding *)
Fixpoint boxes (t : tree) : list box :=
  match t with
  | Leaf b _ => [b]
  | Node b cs => b :: flat_map boxes cs
  end.
Definition box_on_grid (u bound : Z) (b : box) : bool :=
  let '(cx, cy, cz, w) := b in
  (cx mod u =? 0) && (cy mod u =? 0) && (cz mod u =? 0) && (w mod u =? 0) && (0 <=? w) &&
  (Z.abs cx + w <=? bound) && (Z.abs cy + w <=? bound) && (Z.abs cz + w <=? bound).

(* correspondence: the root cell the code computed (floats, exact rationals n/d) *)
Definition root_agree (s : Z) (pts : list P) (x0 y0 z0 w0 : Z * Z) : bool :=
  let '(cx, cy, cz, w) := snapped_box s pts in
  let eq (c : Z) (f : Z * Z) := (0 <? snd f) && (c * snd f =? s * fst f) in
  eq cx x0 && eq cy y0 && eq cz z0 && eq w w0.
