(* C16 — the BFS kernels of calculate_euclidean_hop_graph compute exactly the
   reachability relation of the radius-filtered node/element graph, and that
   relation is the one of the docstring (nodal mode) / of shared near nodes
   (elemental mode). *)
From Coq Require Import ZArith List Bool Lia Arith.
Import ListNotations.
From FV.C16 Require Import Model.
Local Open Scope nat_scope.

Lemma mem_In x l : mem x l = true <-> In x l.
Proof.
  unfold mem. rewrite existsb_exists. split.
  - intros [y [Hy E]]. apply Nat.eqb_eq in E. subst; auto.
  - intros. exists x. split; auto. apply Nat.eqb_refl.
Qed.
Lemma mem_cons_ne a b l : a <> b -> mem a (b :: l) = mem a l.
Proof. intros H. unfold mem. simpl. apply Nat.eqb_neq in H. rewrite H. reflexivity. Qed.
Lemma mem_false x l : mem x l = false <-> ~ In x l.
Proof. rewrite <- mem_In. destruct (mem x l); split; congruence. Qed.

Lemma NoDup_map_inj_in {A B} (f : A -> B) l :
  (forall x y, In x l -> In y l -> f x = f y -> x = y) -> NoDup l -> NoDup (map f l).
Proof.
  induction l as [|a l IH]; simpl; intros Hinj Hnd. constructor.
  inversion Hnd; subst. constructor.
  - rewrite in_map_iff. intros [y [Hy Hin]]. apply Hinj in Hy; auto. subst. contradiction.
  - apply IH; auto.
Qed.

(* ------------------------------------------------ generic worklist search *)
Section Bfs.
  Variable sc : nat -> list nat.
  Variable s : nat.

  Fixpoint gbfs (fuel : nat) (que visited : list nat) : option (list nat) :=
    match que with
    | [] => Some visited
    | frm :: rest =>
        match fuel with
        | O => None
        | S f => let st := fold_left visit (sc frm) (rest, visited) in gbfs f (fst st) (snd st)
        end
    end.

  Lemma visit_fold l : forall q v,
    let st := fold_left visit l (q, v) in
    (forall x, In x (snd st) <-> In x v \/ In x l) /\
    (forall x, In x (fst st) -> In x q \/ (In x l /\ ~ In x v)) /\
    (forall x, In x q -> In x (fst st)) /\
    (forall x, In x l -> ~ In x v -> In x (fst st)) /\
    (NoDup v -> NoDup (snd st)).
  Proof.
    induction l as [|y l IH]; intros q v; simpl.
    - repeat split; auto; try tauto.
    - unfold visit at 2 4 6 8 10. simpl. destruct (mem y v) eqn:E.
      + apply mem_In in E. destruct (IH q v) as (H1 & H2 & H3 & H4 & H5). cbv zeta in *.
        repeat split; auto.
        * intros H. apply H1 in H. tauto.
        * intros [H|[<-|H]]; apply H1; auto.
        * intros x H. apply H2 in H. tauto.
        * intros x [<-|H] Hn; [contradiction|auto].
      + apply mem_false in E. destruct (IH (q ++ [y]) (y :: v)) as (H1 & H2 & H3 & H4 & H5).
        cbv zeta in *. repeat split.
        * intros H. apply H1 in H. simpl in H. tauto.
        * intros [H|[<-|H]]; apply H1; simpl; auto.
        * intros x H. apply H2 in H. destruct H as [H|[H Hn]].
          -- apply in_app_or in H. destruct H as [H|[<-|[]]]; auto.
          -- right. split; auto. intro; apply Hn; right; auto.
        * intros x H. apply H3. apply in_or_app; auto.
        * intros x [<-|H] Hn.
          -- apply H3. apply in_or_app. right. left; auto.
          -- destruct (Nat.eq_dec x y) as [->|Hne].
             ++ apply H3. apply in_or_app. right. left; auto.
             ++ apply H4; auto. intros [Hc|Hc]; auto.
        * intros Hnd. apply H5. constructor; auto.
  Qed.

  Definition closed_inv (que vis : list nat) : Prop :=
    (forall x, In x que -> In x vis) /\
    (forall x, In x vis -> reach sc s x) /\
    In s vis /\
    (forall x, In x vis -> ~ In x que -> forall y, In y (sc x) -> In y vis) /\
    NoDup vis.

  Lemma gbfs_sound : forall fuel que vis R,
    closed_inv que vis -> gbfs fuel que vis = Some R ->
    (forall w, In w R <-> reach sc s w) /\ NoDup R.
  Proof.
    induction fuel as [|f IH]; intros que vis R Hinv; destruct que as [|frm rest]; simpl;
      try discriminate.
    - intros H; inversion H; subst. destruct Hinv as (I1 & I2 & I3 & I4 & I5). split; auto.
      intros w. split; auto. induction 1; auto. eapply I4; eauto.
    - intros H; inversion H; subst. destruct Hinv as (I1 & I2 & I3 & I4 & I5). split; auto.
      intros w. split; auto. induction 1; auto. eapply I4; eauto.
    - intros H. eapply IH; [|exact H]. clear H IH.
      destruct Hinv as (I1 & I2 & I3 & I4 & I5).
      destruct (visit_fold (sc frm) rest vis) as (H1 & H2 & H3 & H4 & H5). cbv zeta in *.
      set (st := fold_left visit (sc frm) (rest, vis)) in *.
      assert (reach sc s frm) as Hfrm by (apply I2, I1; left; auto).
      repeat split.
      + intros x Hx. apply H1. apply H2 in Hx. destruct Hx as [Hx|[Hx _]]; auto.
        left. apply I1. right; auto.
      + intros x Hx. apply H1 in Hx. destruct Hx as [Hx|Hx]; auto.
        eapply reach_step; eauto.
      + apply H1; auto.
      + intros x Hx Hnq y Hy. apply H1. apply H1 in Hx. destruct Hx as [Hx|Hx].
        * destruct (Nat.eq_dec x frm) as [->|Hne]; auto.
          left. eapply I4; eauto. intros [Hc|Hc]; auto.
        * destruct (in_dec Nat.eq_dec x vis) as [Hv|Hv].
          -- destruct (Nat.eq_dec x frm) as [->|Hne]; auto.
             left. eapply I4; eauto. intros [Hc|Hc]; auto.
          -- exfalso. apply Hnq. apply H4; auto.
      + auto.
  Qed.

  (* termination: every vertex enters the queue at most once *)
  Variable U : list nat.
  Hypothesis U_nodup : NoDup U.
  Hypothesis sc_in_U : forall x y, In y (sc x) -> In y U.

  Definition unvisited (vis : list nat) : nat := length (filter (fun u => negb (mem u vis)) U).

  Lemma unvisited_cons to vis : In to U -> ~ In to vis ->
    (unvisited (to :: vis) + 1 = unvisited vis)%nat.
  Proof.
    unfold unvisited. intros Hin Hn. revert Hin U_nodup. clear sc_in_U.
    induction U as [|u l IH]; intros Hin Hnd. { destruct Hin. }
    inversion Hnd; subst.
    cbn [filter].
    destruct (Nat.eq_dec u to) as [->|Hne].
    - assert (mem to (to :: vis) = true) as -> by (apply mem_In; left; auto).
      assert (mem to vis = false) as -> by (apply mem_false; auto).
      cbn [negb length].
      rewrite (filter_ext_in (fun u => negb (mem u (to :: vis))) (fun u => negb (mem u vis)) l).
      + lia.
      + intros a Ha. rewrite mem_cons_ne; auto. intros ->. contradiction.
    - destruct Hin as [Hin|Hin]; [contradiction|].
      rewrite mem_cons_ne by auto.
      destruct (negb (mem u vis)); cbn [length]; rewrite <- (IH Hin H2); lia.
  Qed.

  Lemma visit_measure l : forall q v,
    (forall y, In y l -> In y U) ->
    let st := fold_left visit l (q, v) in
    (unvisited (snd st) + length (fst st) = unvisited v + length q)%nat.
  Proof.
    induction l as [|y l IH]; intros q v Hl; simpl; auto.
    unfold visit at 2 4. simpl. destruct (mem y v) eqn:E.
    - apply IH. intros; apply Hl; right; auto.
    - apply mem_false in E. cbv zeta in IH. rewrite IH by (intros; apply Hl; right; auto).
      rewrite app_length. simpl. pose proof (unvisited_cons y v (Hl y (or_introl eq_refl)) E). lia.
  Qed.

  Lemma gbfs_terminates : forall fuel que vis,
    (unvisited vis + length que <= fuel)%nat -> exists R, gbfs fuel que vis = Some R.
  Proof.
    induction fuel as [|f IH]; intros que vis Hm; destruct que as [|frm rest]; simpl in *; eauto.
    - lia.
    - apply IH. pose proof (visit_measure (sc frm) rest vis (sc_in_U frm)) as H. cbv zeta in H. lia.
  Qed.
End Bfs.

Lemma bfs_gbfs nV conn near fuel : forall que vis,
  bfs nV conn near fuel que vis = gbfs (succ nV conn near) fuel que vis.
Proof. induction fuel; intros [|x q] vis; simpl; auto. Qed.

(* ------------------------------------------------------------ the kernels *)
Section HopProof.
  Variable nV : nat.
  Variable conn : list (list nat).
  Variable pos : list P.
  Variable r2 : Z.

  (* every connectivity entry is a node index *)
  Definition conn_ok : bool := forallb (forallb (fun v => (v <? nV)%nat)) conn.
  Hypothesis Hconn : conn_ok = true.

  Notation nE := (length conn).

  Lemma nodes_lt e v : In v (nodes_of conn e) -> (v < nV)%nat /\ (e < nE)%nat.
  Proof.
    unfold nodes_of. intros H.
    destruct (Nat.lt_ge_cases e nE) as [Hlt|Hge].
    - split; auto. unfold conn_ok in Hconn. rewrite forallb_forall in Hconn.
      specialize (Hconn (nth e conn []) (nth_In _ _ Hlt)). rewrite forallb_forall in Hconn.
      apply Nat.ltb_lt. auto.
    - rewrite nth_overflow in H by lia. destruct H.
  Qed.

  Lemma elems_of_In v e : In e (elems_of conn v) <-> (e < nE)%nat /\ In v (nodes_of conn e).
  Proof.
    unfold elems_of. rewrite filter_In, in_seq. fold (mem v (nodes_of conn e)). rewrite mem_In.
    split; intros [H1 H2]; split; auto; lia.
  Qed.

  Lemma succ_node near x y : (x < nV)%nat ->
    (In y (succ nV conn near x) <-> exists e, y = (nV + e)%nat /\ (e < nE)%nat /\ In x (nodes_of conn e)).
  Proof.
    intros Hx. unfold succ. apply Nat.ltb_lt in Hx. rewrite Hx. rewrite in_map_iff. split.
    - intros [e [<- He]]. apply elems_of_In in He. exists e. tauto.
    - intros [e [-> He]]. exists e. split; auto. apply elems_of_In. tauto.
  Qed.
  Lemma succ_elem near e y :
    (In y (succ nV conn near (nV + e)) <-> In y (nodes_of conn e) /\ near y = true).
  Proof.
    unfold succ. assert ((nV + e <? nV)%nat = false) as -> by (apply Nat.ltb_ge; lia).
    replace (nV + e - nV)%nat with e by lia. apply filter_In.
  Qed.

  Let U := seq 0 (nV + nE).
  Lemma succ_in_U near x y : In y (succ nV conn near x) -> In y U.
  Proof.
    unfold U. rewrite in_seq. intros H.
    destruct (Nat.lt_ge_cases x nV) as [Hx|Hx].
    - apply succ_node in H; auto. destruct H as [e [-> [He _]]]. lia.
    - replace x with (nV + (x - nV))%nat in H by lia. apply succ_elem in H.
      destruct H as [H _]. apply nodes_lt in H. lia.
  Qed.

  Lemma bfs_from near s : (s < nV + nE)%nat ->
    exists vis, bfs nV conn near (hop_fuel nV conn) [s] [s] = Some vis /\
                (forall w, In w vis <-> reach (succ nV conn near) s w) /\ NoDup vis.
  Proof.
    intros Hs. rewrite bfs_gbfs.
    destruct (gbfs_terminates (succ nV conn near) U (seq_NoDup _ _) (succ_in_U near)
                (hop_fuel nV conn) [s] [s]) as [R HR].
    - pose proof (unvisited_cons U (seq_NoDup _ _) s []) as H.
      assert (In s U) as HsU by (unfold U; apply in_seq; lia).
      specialize (H HsU (fun f => f)).
      assert (unvisited U [] = nV + nE)%nat as E.
      { unfold unvisited. simpl. replace (filter (fun _ : nat => true) U) with U.
        - unfold U. apply seq_length.
        - clear. induction U; simpl; congruence. }
      unfold hop_fuel, Model.nE. simpl. lia.
    - exists R. split; auto. eapply gbfs_sound; [|exact HR].
      repeat split; auto.
      + intros x [<-|[]]. constructor.
      + left; auto.
      + intros x [<-|[]] Hn. exfalso. apply Hn. left; auto.
      + constructor; auto. constructor.
  Qed.

  (* nodal rows: BFS = reachability in the filtered bipartite graph *)
  Theorem hop_nodal_reach v : (v < nV)%nat ->
    exists row, hop_nodal_row nV conn pos r2 v = Some row /\ NoDup row /\
      forall w, In w row <->
                (w < nV)%nat /\ w <> v /\ reach (succ nV conn (near_node pos r2 v)) v w.
  Proof.
    intros Hv. destruct (bfs_from (near_node pos r2 v) v) as (vis & H1 & H2 & H3). { lia. }
    unfold hop_nodal_row. rewrite H1. eexists. split; [reflexivity|]. split.
    - apply NoDup_filter. apply NoDup_rev. auto.
    - intros w. rewrite filter_In, <- in_rev, H2, andb_true_iff, Nat.ltb_lt, negb_true_iff, Nat.eqb_neq.
      tauto.
  Qed.

  Theorem hop_elemental_reach e : (e < nE)%nat ->
    exists row, hop_elemental_row nV conn pos r2 e = Some row /\ NoDup row /\
      forall e', In e' row <->
                 e' <> e /\ reach (succ nV conn (near_elem conn pos r2 e)) (nV + e) (nV + e').
  Proof.
    intros He. destruct (bfs_from (near_elem conn pos r2 e) (nV + e)) as (vis & H1 & H2 & H3). { lia. }
    unfold hop_elemental_row. rewrite H1. eexists. split; [reflexivity|]. split.
    - apply NoDup_map_inj_in.
      + intros x y Hx Hy Hxy. apply filter_In in Hx, Hy.
        destruct Hx as [_ Hx], Hy as [_ Hy]. apply andb_true_iff in Hx, Hy.
        destruct Hx as [Hx _], Hy as [Hy _]. apply Nat.leb_le in Hx, Hy. lia.
      + apply NoDup_filter, NoDup_rev. auto.
    - intros e'. rewrite in_map_iff. split.
      + intros [x [<- Hx]]. apply filter_In in Hx. destruct Hx as [Hx Hb].
        apply andb_true_iff in Hb. destruct Hb as [Hge Hne].
        apply Nat.leb_le in Hge. apply negb_true_iff, Nat.eqb_neq in Hne.
        rewrite <- in_rev in Hx. apply H2 in Hx. replace (nV + (x - nV))%nat with x by lia. split; auto. lia.
      + intros [Hne Hr]. exists (nV + e')%nat. split. lia.
        apply filter_In. split. { rewrite <- in_rev. apply H2. auto. }
        apply andb_true_iff. split. apply Nat.leb_le; lia.
        apply negb_true_iff, Nat.eqb_neq. lia.
  Qed.

  (* ------------------------------------------- the docstring's definition *)
  Lemma node_path_lt v w : (v < nV)%nat -> node_path conn pos r2 v w -> (w < nV)%nat.
  Proof.
    intros Hv. induction 1; auto. destruct H0 as (e & _ & _ & Hb). apply nodes_lt in Hb. tauto.
  Qed.

  Theorem nodal_reach_is_node_path v w : (v < nV)%nat ->
    ((w < nV)%nat /\ reach (succ nV conn (near_node pos r2 v)) v w) <-> node_path conn pos r2 v w.
  Proof.
    intros Hv. split.
    - intros [Hw Hr].
      assert (forall x, reach (succ nV conn (near_node pos r2 v)) v x ->
                ((x < nV)%nat -> node_path conn pos r2 v x) /\
                ((nV <= x)%nat -> exists a, node_path conn pos r2 v a /\
                                            In a (nodes_of conn (x - nV)) /\ (x - nV < nE)%nat)) as Hgen.
      { induction 1 as [|x y Hxy IH Hy].
        - split; [constructor|lia].
        - destruct (Nat.lt_ge_cases x nV) as [Hx|Hx].
          + apply succ_node in Hy; auto. destruct Hy as [e [-> [He Hin]]]. split; [lia|].
            intros _. exists x. replace (nV + e - nV)%nat with e by lia. split; auto. apply IH; auto.
          + replace x with (nV + (x - nV))%nat in Hy by lia. apply succ_elem in Hy.
            destruct Hy as [Hin Hnear]. destruct (proj2 IH Hx) as (a & Ha & Hain & He).
            pose proof (nodes_lt _ _ Hin) as [Hy _]. split; [|lia]. intros _.
            eapply np_step; eauto. exists (x - nV)%nat. unfold Model.nE. auto. }
      apply Hgen; auto.
    - induction 1 as [|a b Hab IH Hsh Hnear].
      + split; auto. constructor.
      + destruct IH as [Ha IH]. destruct Hsh as (e & He & Hae & Hbe).
        pose proof (nodes_lt _ _ Hbe) as [Hb _]. split; auto.
        eapply reach_step with (x := (nV + e)%nat).
        * eapply reach_step; [exact IH|]. apply succ_node; auto. exists e. auto.
        * apply succ_elem. auto.
  Qed.

  Theorem elemental_reach_is_elem_path e e' : (e < nE)%nat ->
    reach (succ nV conn (near_elem conn pos r2 e)) (nV + e) (nV + e') <->
    elem_path conn pos r2 e e'.
  Proof.
    intros He. split.
    - intros Hr.
      assert (forall x, reach (succ nV conn (near_elem conn pos r2 e)) (nV + e) x ->
                ((nV <= x)%nat -> elem_path conn pos r2 e (x - nV)) /\
                ((x < nV)%nat -> near_elem conn pos r2 e x = true /\
                                 exists a, elem_path conn pos r2 e a /\ In x (nodes_of conn a))) as Hgen.
      { induction 1 as [|x y Hxy IH Hy].
        - split; [|lia]. intros _. replace (nV + e - nV)%nat with e by lia. constructor.
        - destruct (Nat.lt_ge_cases x nV) as [Hx|Hx].
          + apply succ_node in Hy; auto. destruct Hy as [b [-> [Hb Hin]]]. split; [|lia].
            intros _. replace (nV + b - nV)%nat with b by lia.
            destruct (proj2 IH Hx) as (Hnear & a & Ha & Hxa).
            eapply ep_step; eauto. exists x. auto.
          + replace x with (nV + (x - nV))%nat in Hy by lia. apply succ_elem in Hy.
            destruct Hy as [Hin Hnear]. pose proof (nodes_lt _ _ Hin) as [Hy _]. split; [lia|].
            intros _. split; auto. exists (x - nV)%nat. split; auto. apply IH; auto. }
      destruct (Hgen _ Hr) as [H _]. replace (nV + e' - nV)%nat with e' in H by lia. apply H. lia.
    - induction 1 as [|a b Hab IH Hb Hsh].
      + constructor.
      + destruct Hsh as (n & Hna & Hnb & Hnear).
        pose proof (nodes_lt _ _ Hna) as [Hn _].
        eapply reach_step with (x := n).
        * eapply reach_step; [exact IH|]. apply succ_elem. auto.
        * apply succ_node; auto. exists b. auto.
  Qed.
End HopProof.
