(* C16 — spatial searches return exactly what brute force returns.
   Statements only; proofs are in ProofsSort.v, ProofsKnn.v, ProofsHd.v, ProofsHop.v.
   All distances are squared Euclidean distances over Z (see Model.v). *)
From Coq Require Import ZArith List Bool Lia Permutation.
Import ListNotations.
From FV.C16 Require Import Model ProofsSort ProofsKnn.
Open Scope Z_scope.

(* possible_dist_min: the clamped distance is a lower bound for every point of the box *)
Theorem C16_box_lb_sound : forall q b p, inbox b p = true -> lb2 q b <= d2 q p.
Proof. exact box_lb_sound. Qed.
(* possible_dist_range hi / possible_dist_max_node are upper bounds *)
Theorem C16_box_hi_sound : forall q b p, inbox b p = true -> d2 q p <= hi2 q b.
Proof. exact box_hi_sound. Qed.
Theorem C16_box_ub_sound : forall a b p p', inbox a p = true -> inbox b p' = true -> d2 p p' <= ub2 a b.
Proof. exact box_ub_sound. Qed.

(* the key algebra of the k-slot result heap *)
Theorem C16_best_absorb : forall k a b, best k (best k a ++ b) = best k (a ++ b).
Proof. exact best_absorb. Qed.

(* k-nearest search, full statement: for every octree t that stores the target
   points under boxes containing them (validb, tree_of), every queue discipline
   `pick` that returns some element of the queue, every k >= 1 (beyond the number
   of targets included), every bound (Inf or finite, hit exactly or not), every
   query point, ties and duplicates included: the search terminates within
   size t + 1 steps and returns k entries whose distances are exactly the
   brute-force list (the within-bound distances ascending, padded with inf);
   every finite entry names a target at that distance within the bound, the
   named targets are pairwise distinct, padding entries are (inf, -1). *)
Theorem C16_knn_search_correct :
  forall pick fuel k bound q t targets,
    pick_ok pick -> validb t = true -> tree_of t targets -> (size t < fuel)%nat -> (1 <= k)%nat ->
    exists res,
      knn_with pick fuel k bound q t = Some res /\
      map fst res = knn_spec_dists k bound q targets /\
      length res = k /\
      (forall e, In e res ->
         e = pad \/ exists p, nth_pt targets (snd e) = Some p /\ fst e = Fin (d2 q p) /\
                              within bound q p = true) /\
      NoDup (map snd (filter finite res)).
Proof.
  intros pick fuel k bound q t targets Hp Hv Ht Hf _.
  exists (knn_spec k bound q targets). split. { apply knn_eq_spec; auto. }
  split. { apply knn_spec_fst. } split. { apply knn_spec_length. }
  split. { apply knn_spec_realised. } apply knn_spec_distinct.
Qed.

(* the code's queue (heappop = a minimal element) is one such discipline; with it
   the model also fixes the tie break: ascending distance, then descending index *)
Theorem C16_knn_code_queue :
  forall fuel k bound q t targets,
    validb t = true -> tree_of t targets -> (size t < fuel)%nat ->
    knn fuel k bound q t = Some (knn_spec k bound q targets).
Proof. intros. apply knn_eq_spec; auto. apply pop_min_ok. Qed.

(* offset vector and distance of a reported neighbour are consistent *)
Theorem C16_vectors_dists_consistent :
  forall x y z a b c, d2 (x, y, z) (a, b, c) = sq (a - x) + sq (b - y) + sq (c - z).
Proof. intros. exact (vectors_dists_consistent (x, y, z) (a, b, c)). Qed.

Print Assumptions C16_knn_search_correct.
Print Assumptions C16_knn_code_queue.
