(* C16 — spatial searches return exactly what brute force returns.
   Statements only; proofs are in ProofsSort.v, ProofsKnn.v, ProofsHd.v, ProofsHop.v, ProofsBuild.v,
   ProofsSnap.v, ProofsKnnCfg.v.
   All distances are squared Euclidean distances over Z (see Model.v). *)
From Coq Require Import ZArith List Bool Lia Permutation.
Import ListNotations.
From FV.C16 Require Import Model ModelSnap ModelHdCfg ProofsSort ProofsKnn ProofsKnnCfg ProofsHd ProofsHdCfg ProofsHop ProofsBuild ProofsScale ProofsSnap.
From FV.C16.gen Require Import Bounds KnnCfg HdCfg.
Open Scope Z_scope.

(* possible_dist_min: the clamped distance is a lower bound for every point of the box *)
Theorem C16_box_lb_sound : forall q b p, inbox b p = true -> lb2 q b <= d2 q p.
Proof. exact box_lb_sound. Qed.
(* possible_dist_range hi / possible_dist_max_node are upper bounds *)
Theorem C16_box_hi_sound : forall q b p, inbox b p = true -> d2 q p <= hi2 q b.
Proof. exact box_hi_sound. Qed.
Theorem C16_box_ub_sound : forall a b p p', inbox a p = true -> inbox b p' = true -> d2 p p' <= ub2 a b.
Proof. exact box_ub_sound. Qed.

(* the key algebra of the k-slot result heap *)
Theorem C16_best_absorb : forall k a b, best k (best k a ++ b) = best k (a ++ b).
Proof. exact best_absorb. Qed.

(* k-nearest search, full statement: for every octree t that stores the target
   points under boxes containing them (validb, tree_of), every queue discipline
   `pick` that returns some element of the queue, every k >= 1 (beyond the number
   of targets included), every bound (Inf or finite, hit exactly or not), every
   query point, ties and duplicates included: the search terminates within
   size t + 1 steps and returns k entries whose distances are exactly the
   brute-force list (the within-bound distances ascending, padded with inf);
   every finite entry names a target at that distance within the bound, the
   named targets are pairwise distinct, padding entries are (inf, -1). *)
Theorem C16_knn_search_correct :
  forall pick fuel k bound q t targets,
    pick_ok pick -> validb t = true -> tree_of t targets -> (size t < fuel)%nat -> (1 <= k)%nat ->
    exists res,
      knn_with pick fuel k bound q t = Some res /\
      map fst res = knn_spec_dists k bound q targets /\
      length res = k /\
      (forall e, In e res ->
         e = pad \/ exists p, nth_pt targets (snd e) = Some p /\ fst e = Fin (d2 q p) /\
                              within bound q p = true) /\
      NoDup (map snd (filter finite res)).
Proof.
  intros pick fuel k bound q t targets Hp Hv Ht Hf _.
  exists (knn_spec k bound q targets). split. { apply knn_eq_spec; auto. }
  split. { apply knn_spec_fst. } split. { apply knn_spec_length. }
  split. { apply knn_spec_realised. } apply knn_spec_distinct.
Qed.

(* the code's queue (heappop = a minimal element) is one such discipline; with it
   the model also fixes the tie break: ascending distance, then descending index *)
Theorem C16_knn_code_queue :
  forall fuel k bound q t targets,
    validb t = true -> tree_of t targets -> (size t < fuel)%nat ->
    knn fuel k bound q t = Some (knn_spec k bound q targets).
Proof. intros. apply knn_eq_spec; auto. apply pop_min_ok. Qed.

(* offset vector and distance of a reported neighbour are consistent *)
Theorem C16_vectors_dists_consistent :
  forall x y z a b c, d2 (x, y, z) (a, b, c) = sq (a - x) + sq (b - y) + sq (c - z).
Proof. intros. exact (vectors_dists_consistent (x, y, z) (a, b, c)). Qed.

(* Hausdorff distance of node sets, directed and symmetric, full statement: for
   all valid octrees of two non-empty point sets (any boxes, any shape), every
   queue discipline, including the upper-bound ordering of the leaves of A, the
   early `break`, the pruning `d > dist` and the `hi <= HD -> return 0`
   shortcut: the result is max_a min_b |a-b|^2 (symmetric: the max of both
   directions), evaluated exhaustively. *)
Theorem C16_hausdorff_correct :
  forall pick fuel directed tA tB A B,
    pick_ok pick ->
    validb tA = true -> validb tB = true -> tree_of tA A -> tree_of tB B -> A <> [] -> B <> [] ->
    (size tA < fuel)%nat -> (size tB < fuel)%nat ->
    hausdorff pick fuel directed tA tB =
      Some (if directed then hausdorff_directed_spec A B else hausdorff_spec A B).
Proof. exact hausdorff_correct. Qed.

(* the shortcut lemma on its own: calc_frm returns the exact nearest-neighbour
   distance, or (shortcut) a guarantee that it does not exceed the running HD *)
Theorem C16_hausdorff_shortcut_sound :
  forall pick, pick_ok pick -> forall HD a fuel t,
    validb t = true -> (size t < fuel)%nat ->
    exists r, nn_search pick fuel HD a [(0, t)] Inf = Some r /\
              match r with
              | Found d => d = nn_spec a (map snd (points t))
              | Short => Dleb (nn_spec a (map snd (points t))) HD = true
              end.
Proof.
  intros pick Hp HD a fuel t Hv Hf.
  destruct (nn_search_root pick Hp HD a fuel t Hv Hf) as [r [H1 H2]].
  exists r. split; auto. rewrite <- mind_spec. exact H2.
Qed.

(* hop graph, nodal mode: for every mesh connectivity whose entries are node
   indices, every node positions, every squared radius, every row v: the BFS
   kernel terminates within its fuel, lists no node twice, and lists exactly the
   nodes w <> v for which the docstring's definition holds: a sequence
   v = v_0, ..., v_n = w with every v_i within the radius of v and consecutive
   nodes sharing an element. *)
Theorem C16_hop_graph_nodal_correct :
  forall nV conn pos r2 v, conn_ok nV conn = true -> (v < nV)%nat ->
    exists row, hop_nodal_row nV conn pos r2 v = Some row /\ NoDup row /\
      forall w, In w row <-> w <> v /\ node_path conn pos r2 v w.
Proof.
  intros nV conn pos r2 v Hc Hv.
  destruct (hop_nodal_reach nV conn pos r2 Hc v Hv) as (row & H1 & H2 & H3).
  exists row. split; auto. split; auto. intros w. rewrite H3.
  rewrite <- (nodal_reach_is_node_path nV conn pos r2 Hc v w Hv). tauto.
Qed.

(* elemental mode: row e lists exactly the elements e' <> e reachable through a
   chain of elements in which consecutive elements share a node that lies within
   the radius of some vertex of e (= reachability in the radius-filtered
   bipartite node/element graph) *)
Theorem C16_hop_graph_elemental_correct :
  forall nV conn pos r2 e, conn_ok nV conn = true -> (e < length conn)%nat ->
    exists row, hop_elemental_row nV conn pos r2 e = Some row /\ NoDup row /\
      forall e', In e' row <-> e' <> e /\ elem_path conn pos r2 e e'.
Proof.
  intros nV conn pos r2 e Hc He.
  destruct (hop_elemental_reach nV conn pos r2 Hc e He) as (row & H1 & H2 & H3).
  exists row. split; auto. split; auto. intros e'. rewrite H3.
  rewrite (elemental_reach_is_elem_path nV conn pos r2 Hc e e' He). tauto.
Qed.

(* both are reachability in the bipartite graph the kernels walk *)
Theorem C16_hop_graph_bfs_is_reachability :
  forall nV conn pos r2, conn_ok nV conn = true ->
    (forall v, (v < nV)%nat ->
       exists row, hop_nodal_row nV conn pos r2 v = Some row /\
         forall w, In w row <->
           (w < nV)%nat /\ w <> v /\ reach (succ nV conn (near_node pos r2 v)) v w) /\
    (forall e, (e < length conn)%nat ->
       exists row, hop_elemental_row nV conn pos r2 e = Some row /\
         forall e', In e' row <->
           e' <> e /\ reach (succ nV conn (near_elem conn pos r2 e)) (nV + e) (nV + e')).
Proof.
  intros nV conn pos r2 Hc. split.
  - intros v Hv. destruct (hop_nodal_reach nV conn pos r2 Hc v Hv) as (row & H1 & _ & H3). eauto.
  - intros e He. destruct (hop_elemental_reach nV conn pos r2 Hc e He) as (row & H1 & _ & H3). eauto.
Qed.

(* Observation (not part of the property as fixed in DESIGN.md): the docstring's
   wording of the elemental mode -- dist(e, e_i) <= r for all i and consecutive
   elements share *some* node -- is weaker than what the kernel computes: the
   kernel's relation is contained in it, strictly on this mesh
   (e0 = {0,1}, e1 = {0,2}, e2 = {2,3}; node 3 is within r of node 1, node 2 is far). *)
Theorem C16_elemental_kernel_within_docstring :
  forall conn pos r2 e e', elem_path conn pos r2 e e' -> doc_elem_path conn pos r2 e e'.
Proof.
  induction 1 as [|a b Hab IH Hb (n & Hna & Hnb & Hnear)]. constructor.
  eapply dep_step; eauto. exists n; auto.
Qed.
Definition doc_conn : list (list nat) := [[0; 1]; [0; 2]; [2; 3]]%nat.
Definition doc_pos : list P := [(0, 0, 0); (10, 0, 0); (5, 50, 0); (10, 1, 0)].
Theorem C16_elemental_docstring_differs :
  doc_elem_path doc_conn doc_pos 1 0%nat 2%nat /\
  hop_elemental_row 4 doc_conn doc_pos 1 0%nat = Some [1%nat] /\
  ~ elem_path doc_conn doc_pos 1 0%nat 2%nat.
Proof.
  assert (hop_elemental_row 4 doc_conn doc_pos 1 0%nat = Some [1%nat]) as Hrow by (vm_compute; reflexivity).
  split; [|split; auto].
  - apply dep_step with (a := 1%nat).
    + apply dep_step with (a := 0%nat). constructor. vm_compute; lia.
      exists 0%nat. vm_compute. auto. exists 0%nat. vm_compute. auto.
    + vm_compute; lia.
    + exists 2%nat. vm_compute. auto.
    + exists 3%nat. vm_compute. auto.
  - intros Hp.
    destruct (C16_hop_graph_elemental_correct 4 doc_conn doc_pos 1 0%nat) as (row & H1 & _ & H3).
    reflexivity. vm_compute; lia.
    rewrite Hrow in H1. inversion H1; subst.
    assert (In 2%nat [1%nat]) as Hin by (apply H3; split; [lia|exact Hp]).
    destruct Hin as [Hc|[]]. discriminate.
Qed.

(* non-vacuity: the hypotheses are satisfied by the exact octree (depth 8, 289
   cells) of a point set with duplicates and ties, and by a small mesh *)
Definition ex_pts : list P := [(0,0,0); (2,0,0); (0,2,0); (0,0,2); (2,2,2); (2,2,2); (1,1,1)].
Definition ex_tree : tree := octree 8 ex_pts ex_pts.
Example C16_hypotheses_inhabited :
  validb ex_tree = true /\ tree_of ex_tree (map (scale_pt (octree_scale 8)) ex_pts) /\
  (100 < size ex_tree)%nat /\ pick_ok pop_min /\
  conn_ok 4 doc_conn = true.
Proof.
  split. { vm_compute. reflexivity. }
  split. { apply tree_of_by_sort. vm_compute. reflexivity. }
  split. { vm_compute. lia. }
  split. { exact pop_min_ok. } reflexivity.
Qed.

(* the octree construction carried out exactly (build_octree_node without
   rounding: coordinates pre-scaled so that 0.51 * extent and all halvings are
   integers) satisfies the hypotheses for EVERY point set: no point is lost and
   every point lies in the boxes above it.  In the implementation they can fail
   only through rounding of the cell bounds (open finding, notes/C16.md). *)
Theorem C16_exact_octree_valid :
  forall depth bpts pts, bpts <> [] -> incl pts bpts ->
    validb (octree depth bpts pts) = true /\
    tree_of (octree depth bpts pts) (map (scale_pt (octree_scale depth)) pts).
Proof. intros. apply octree_valid_complete; auto. Qed.

(* ... hence, end to end, search on the exact octree = brute force for every input *)
Theorem C16_knn_on_exact_octree :
  forall depth pts k bound q, pts <> [] ->
    let t := octree depth pts pts in
    knn (S (size t)) k bound q t =
      Some (knn_spec k bound q (map (scale_pt (octree_scale depth)) pts)).
Proof.
  intros depth pts k bound q Hne t.
  destruct (octree_valid_complete depth pts pts Hne (incl_refl _)) as [Hv Ht].
  apply knn_eq_spec; auto. apply pop_min_ok.
Qed.

Theorem C16_hausdorff_on_exact_octree :
  forall depth A B directed, A <> [] -> B <> [] ->
    let sc := map (scale_pt (octree_scale depth)) in
    let tA := octree depth (A ++ B) A in
    let tB := octree depth (A ++ B) B in
    hausdorff pop_min (S (size tA + size tB)) directed tA tB =
      Some (if directed then hausdorff_directed_spec (sc A) (sc B) else hausdorff_spec (sc A) (sc B)).
Proof.
  intros depth A B directed HA HB sc tA tB.
  assert (A ++ B <> []) as HAB by (destruct A; [congruence|discriminate]).
  destruct (octree_valid_complete depth (A ++ B) A HAB (incl_appl _ (incl_refl _))) as [HvA HtA].
  destruct (octree_valid_complete depth (A ++ B) B HAB (incl_appr _ (incl_refl _))) as [HvB HtB].
  apply hausdorff_correct; auto; try lia.
  - apply pop_min_ok.
  - unfold sc. destruct A; [congruence|discriminate].
  - unfold sc. destruct B; [congruence|discriminate].
Qed.

(* ---- the snapped root cell of build_octree_node as of /repo 7a2f8fc (ModelSnap.v, ProofsSnap.v):
   w0 = smallest power of two >= 0.51 * extent, centre = np.round((min + max) / 2 / leaf_w) * leaf_w
   with leaf_w = w0 / 2^depth.  For EVERY non-empty integer point set and every depth >= 5 (the
   code: 8) the root cell contains all points and its half width is divisible by 2^depth ... *)
Theorem C16_snapped_root_contains :
  forall depth bpts, (5 <= depth)%nat -> bpts <> [] ->
    (2 ^ Z.of_nat depth | width (snapped_box (snap_scale depth) bpts)) /\
    forall p, In p bpts -> inbox (snapped_box (snap_scale depth) bpts) (scale_pt (snap_scale depth) p) = true.
Proof. intros depth bpts Hd Hne. apply snapped_box_props; auto. Qed.

(* ... hence the octree below it, built without rounding, loses no point and keeps every point
   inside the cells above it (the hypotheses of the search theorems) ... *)
Theorem C16_snapped_octree_valid :
  forall depth bpts pts, (5 <= depth)%nat -> bpts <> [] -> incl pts bpts ->
    validb (snapped_octree depth bpts pts) = true /\
    tree_of (snapped_octree depth bpts pts) (map (scale_pt (snap_scale depth)) pts).
Proof. intros. apply snapped_octree_valid_complete; auto. Qed.

(* ... and the searches on it equal brute force, end to end, for every input *)
Theorem C16_knn_on_snapped_octree :
  forall depth pts k bound q, (5 <= depth)%nat -> pts <> [] ->
    let t := snapped_octree depth pts pts in
    knn (S (size t)) k bound q t =
      Some (knn_spec k bound q (map (scale_pt (snap_scale depth)) pts)).
Proof.
  intros depth pts k bound q Hd Hne t.
  destruct (snapped_octree_valid_complete depth pts pts Hd Hne (incl_refl _)) as [Hv Ht].
  apply knn_eq_spec; auto. apply pop_min_ok.
Qed.

Theorem C16_hausdorff_on_snapped_octree :
  forall depth A B directed, (5 <= depth)%nat -> A <> [] -> B <> [] ->
    let sc := map (scale_pt (snap_scale depth)) in
    let tA := snapped_octree depth (A ++ B) A in
    let tB := snapped_octree depth (A ++ B) B in
    hausdorff pop_min (S (size tA + size tB)) directed tA tB =
      Some (if directed then hausdorff_directed_spec (sc A) (sc B) else hausdorff_spec (sc A) (sc B)).
Proof.
  intros depth A B directed Hd HA HB sc tA tB.
  assert (A ++ B <> []) as HAB by (destruct A; [congruence|discriminate]).
  destruct (snapped_octree_valid_complete depth (A ++ B) A Hd HAB (incl_appl _ (incl_refl _))) as [HvA HtA].
  destruct (snapped_octree_valid_complete depth (A ++ B) B Hd HAB (incl_appr _ (incl_refl _))) as [HvB HtB].
  apply hausdorff_correct; auto; try lia.
  - apply pop_min_ok.
  - unfold sc. destruct A; [congruence|discriminate].
  - unfold sc. destruct B; [congruence|discriminate].
Qed.

(* Why the FLOAT construction agrees with the exact one on the snapped grid: centre and half width
   of every cell of the tree are integer multiples of one power of two u = 2^e (the leaf half
   width; in the code's units u = w0 / 2^depth) and every cell lies inside [-bnd, bnd]^3 with
   bnd = |root centre| + w0.  Integer multiples of a power of two u of magnitude < 2^53 * u are
   binary64 numbers, so as long as bnd / u < 2^53 the sums and differences cx +- w that
   build_octree_node forms are computed without rounding (this last step is the only part of
   the argument that is not machine-checked; the harness replays the binary64 descent). *)
Theorem C16_snapped_cells_on_grid :
  forall depth bpts pts, bpts <> [] ->
  exists e, 0 <= e /\
    let '(cx, cy, cz, w) := snapped_box (snap_scale depth) bpts in
    forall bx, In bx (boxes (snapped_octree depth bpts pts)) ->
      on_grid (2 ^ e) (Z.max (Z.abs cx) (Z.max (Z.abs cy) (Z.abs cz)) + w) bx.
Proof. intros. apply snapped_cells_on_grid; auto. Qed.

(* the two arithmetic helpers of the snapped grid mean what the numpy calls mean: snap_lw M is the
   smallest power of two >= 0.51 * M (2.0 ** np.ceil(np.log2(0.51 * M))), round_half_even n d is a
   nearest integer to n / d and the even one on a tie (np.round) *)
Theorem C16_snap_grid_spec :
  (forall M, 1 <= M -> exists e, 0 <= e /\ snap_lw M = 2 ^ e /\ 51 * M <= 100 * snap_lw M /\
      forall e', 0 <= e' -> 51 * M <= 100 * 2 ^ e' -> snap_lw M <= 2 ^ e') /\
  (forall n d, 0 < d -> let k := round_half_even n d in
      2 * d * k - d <= 2 * n <= 2 * d * k + d /\
      ((2 * n = 2 * d * k + d \/ 2 * n = 2 * d * k - d) -> Z.even k = true)).
Proof.
  split.
  - intros M HM. destruct (snap_lw_spec M HM) as (e & He & E1 & E2).
    exists e. repeat split; auto. intros e' He' H. apply snap_lw_smallest; auto.
  - intros n d Hd k. split. { apply round_half_even_near; auto. } apply round_half_even_tie; auto.
Qed.

(* non-vacuity: a point set far from the origin, with ties and a point on the root centre plane;
   extent 10 -> w0 = 8 = 2^3, scaled half width 256 * 8, 4 + 8 * 7 .. cells *)
Definition snap_pts : list P :=
  [(1000003, -7, 12); (1000013, -7, 12); (1000008, -2, 17); (1000008, -2, 17); (1000003, 3, 22); (1000010, -7, 13)].
Example C16_snapped_inhabited :
  snapped_box (snap_scale 8) snap_pts = (256 * 1000008, 256 * (-2), 256 * 17, 256 * 8) /\
  validb (snapped_octree 8 snap_pts snap_pts) = true /\
  (40 <? size (snapped_octree 8 snap_pts snap_pts))%nat = true /\
  forallb (box_on_grid 8 (256 * 1000008 + 256 * 8)) (boxes (snapped_octree 8 snap_pts snap_pts)) = true /\
  round_half_even 5 2 = 2 /\ round_half_even 7 2 = 4 /\ round_half_even (-5) 2 = -2 /\ snap_lw 1 = 1 /\
  snap_lw 3 = 2 /\ snap_lw 25600 = 16384.
Proof. vm_compute. repeat split; reflexivity. Qed.

(* Tie T for the control flow of the k-nearest search: gen/KnnCfg.v holds the
   decision points read off the current source (which comparison prunes a
   popped node against the k-th best and against the bound, or/and, whether
   empty children are skipped, which comparison drops a leaf point, heappushpop
   or heappush); translate/c16_loops.py accepts the kernel only if everything
   else matches, up to renaming of locals, the text the model mirrors.
   The search is proved correct for EVERY accepted configuration: the k-th test
   may be `>` or `>=` (that only moves the choice among equidistant targets),
   the other decisions must be the ones of the unchanged code. *)
Theorem C16_knn_cfg_search_correct :
  forall cfg, cfg_ok cfg = true ->
  forall pick fuel k bound q t targets,
    pick_ok pick -> validb t = true -> tree_of t targets -> (size t < fuel)%nat -> (1 <= k)%nat ->
    exists res,
      knn_cfg cfg pick fuel k bound q t = Some res /\
      map fst res = knn_spec_dists k bound q targets /\
      length res = k /\
      (forall e, In e res ->
         e = pad \/ exists p, nth_pt targets (snd e) = Some p /\ fst e = Fin (d2 q p) /\
                              within bound q p = true) /\
      NoDup (map snd (filter finite res)).
Proof. intros cfg Hok pick fuel k bound q t targets Hp Hv Ht Hf _. apply knn_cfg_correct; auto. Qed.

(* per-run obligation: the configuration translated from /repo is an accepted one *)
Theorem C16_gen_knn_cfg_ok : cfg_ok gen_cfg = true.
Proof. vm_compute. reflexivity. Qed.

Theorem C16_knn_translated_search_correct :
  forall pick fuel k bound q t targets,
    pick_ok pick -> validb t = true -> tree_of t targets -> (size t < fuel)%nat -> (1 <= k)%nat ->
    exists res,
      knn_cfg gen_cfg pick fuel k bound q t = Some res /\
      map fst res = knn_spec_dists k bound q targets /\
      length res = k /\
      (forall e, In e res ->
         e = pad \/ exists p, nth_pt targets (snd e) = Some p /\ fst e = Fin (d2 q p) /\
                              within bound q p = true) /\
      NoDup (map snd (filter finite res)).
Proof. exact (C16_knn_cfg_search_correct gen_cfg C16_gen_knn_cfg_ok). Qed.

(* with the decisions of the unchanged code the configurable search is the model `search` *)
Theorem C16_knn_cfg_code_is_model :
  forall pick k bound q fuel que res,
    search_cfg cfg_code pick k bound q fuel que res = search pick k bound q fuel que res.
Proof. exact search_cfg_code. Qed.

(* the specifications on the pre-scaled points (on which the exact octree is
   built) are the scaled specifications of the original points: scaling by s > 0
   multiplies every squared distance by s^2 and changes no comparison *)
Theorem C16_specs_scale :
  forall s, 0 < s ->
    (forall k bound q pts,
       knn_spec_dists k (scaleD (s * s) bound) (scale_pt s q) (map (scale_pt s) pts) =
       map (scaleD (s * s)) (knn_spec_dists k bound q pts)) /\
    (forall A B, hausdorff_directed_spec (map (scale_pt s) A) (map (scale_pt s) B) =
                 scaleD (s * s) (hausdorff_directed_spec A B)) /\
    (forall A B, hausdorff_spec (map (scale_pt s) A) (map (scale_pt s) B) =
                 scaleD (s * s) (hausdorff_spec A B)).
Proof.
  intros s Hs. split; [|split]; intros.
  - apply knn_spec_dists_scale; auto.
  - apply hausdorff_directed_spec_scale; auto.
  - apply hausdorff_spec_scale; auto.
Qed.

(* Tie T: gen/Bounds.v is re-translated from the source text of
   possible_dist_min / possible_dist_max_node / possible_dist_range on every run;
   the generated functions are the model's bounds, hence sound. *)
Ltac same_fn := first [ reflexivity
  | (cbv [gen_possible_dist_min gen_possible_dist_max_node gen_possible_dist_range lb2 hi2 ub2 clamp sq];
     rewrite ?Z.abs_square; f_equal; ring) ].
Theorem C16_gen_lb_is_model : forall b q, gen_possible_dist_min b q = lb2 q b.
Proof. intros [[[? ?] ?] ?] [[? ?] ?]. same_fn. Qed.
Theorem C16_gen_ub_is_model : forall a b, gen_possible_dist_max_node a b = ub2 a b.
Proof. intros [[[? ?] ?] ?] [[[? ?] ?] ?]. same_fn. Qed.
Theorem C16_gen_range_is_model : forall b q, gen_possible_dist_range b q = (lb2 q b, hi2 q b).
Proof. intros [[[? ?] ?] ?] [[? ?] ?]. same_fn. Qed.
Theorem C16_gen_bounds_sound :
  forall a b q p p', inbox b p = true -> inbox a p' = true ->
    gen_possible_dist_min b q <= d2 q p /\
    fst (gen_possible_dist_range b q) <= d2 q p <= snd (gen_possible_dist_range b q) /\
    d2 p' p <= gen_possible_dist_max_node a b.
Proof.
  intros a b q p p' Hb Ha. rewrite C16_gen_lb_is_model, C16_gen_range_is_model, C16_gen_ub_is_model.
  simpl. pose proof (box_lb_sound q b p Hb). pose proof (box_hi_sound q b p Hb).
  pose proof (box_ub_sound a b p' p Ha Hb). lia.
Qed.

(* Tie T for the control flow of the Hausdorff kernel: gen/HdCfg.v holds the five comparisons of
   _calc_directed_hausdorff_nodes read off the current source (skip of a popped cell and push
   filter in calc_frm_node; skip of a popped cell and the `hi <= HD -> return 0` shortcut in
   calc_frm; the break of the main loop); translate/c16_loops.py accepts the kernel only if
   everything else matches the text the model mirrors.  The directed and the symmetric distance
   are proved for EVERY accepted configuration: a cell of B may be skipped on `>` or `>=`, the
   shortcut and the break may fire on `<=` or `<`; the two comparisons of calc_frm_node are free
   (whatever is skipped there, the per-leaf value stays a valid upper bound). *)
Theorem C16_hausdorff_cfg_correct :
  forall cfg, hcfg_ok cfg = true ->
  forall pick fuel directed tA tB A B,
    pick_ok pick ->
    validb tA = true -> validb tB = true -> tree_of tA A -> tree_of tB B -> A <> [] -> B <> [] ->
    (size tA < fuel)%nat -> (size tB < fuel)%nat ->
    hausdorff_cfg cfg pick fuel directed tA tB =
      Some (if directed then hausdorff_directed_spec A B else hausdorff_spec A B).
Proof. intros. apply HdCfg.hausdorff_correct; auto. Qed.

(* per-run obligation: the configuration translated from /repo is an accepted one *)
Theorem C16_gen_hd_cfg_ok : hcfg_ok gen_hcfg = true.
Proof. vm_compute. reflexivity. Qed.

Theorem C16_hausdorff_translated_correct :
  forall pick fuel directed tA tB A B,
    pick_ok pick ->
    validb tA = true -> validb tB = true -> tree_of tA A -> tree_of tB B -> A <> [] -> B <> [] ->
    (size tA < fuel)%nat -> (size tB < fuel)%nat ->
    hausdorff_cfg gen_hcfg pick fuel directed tA tB =
      Some (if directed then hausdorff_directed_spec A B else hausdorff_spec A B).
Proof. intros. apply C16_hausdorff_cfg_correct; auto using C16_gen_hd_cfg_ok. Qed.

(* with the comparisons of the unchanged code the configured kernel IS the hand model *)
Theorem C16_hausdorff_cfg_code_is_model :
  forall pick fuel directed tA tB,
    hausdorff_cfg hcfg_code pick fuel directed tA tB = hausdorff pick fuel directed tA tB.
Proof. intros. apply hausdorff_code_is_model. Qed.

(* non-vacuity: four of the 3 * 2 * 2 * 6 * 6 accepted configurations differ from the code's and
   one that is not accepted (skip a cell of B on `<`) indeed computes a wrong distance *)
Definition hd_exA : list P := [(0,0,0); (9,0,0); (0,7,0)].
Definition hd_exB : list P := [(1,0,0); (8,1,0); (0,0,3); (5,5,5)].
Definition hd_bad : hcfg := {| ub_prune := Gt; ub_push := Lt; nn_prune := Lt; nn_short := Le; loop_break := Le |}.
Example C16_hausdorff_cfg_inhabited :
  hcfg_ok hcfg_code = true /\
  hcfg_ok {| ub_prune := Ge; ub_push := Le; nn_prune := Ge; nn_short := Lt; loop_break := Lt |} = true /\
  hcfg_ok {| ub_prune := Lt; ub_push := Gt; nn_prune := Gt; nn_short := Le; loop_break := Le |} = true /\
  hcfg_ok hd_bad = false /\
  (let tA := snapped_octree 8 (hd_exA ++ hd_exB) hd_exA in
   let tB := snapped_octree 8 (hd_exA ++ hd_exB) hd_exB in
   let sc := map (scale_pt (snap_scale 8)) in
   hausdorff_cfg {| ub_prune := Lt; ub_push := Gt; nn_prune := Ge; nn_short := Lt; loop_break := Lt |}
                 pop_min (S (size tA + size tB)) false tA tB = Some (hausdorff_spec (sc hd_exA) (sc hd_exB)) /\
   hausdorff_cfg hd_bad pop_min (S (size tA + size tB)) true tA tB
     <> Some (hausdorff_directed_spec (sc hd_exA) (sc hd_exB))).
Proof. vm_compute. repeat split; try reflexivity; try discriminate. Qed.

Print Assumptions C16_knn_search_correct.
Print Assumptions C16_knn_code_queue.
Print Assumptions C16_hausdorff_correct.
Print Assumptions C16_hop_graph_nodal_correct.
Print Assumptions C16_hop_graph_elemental_correct.
Print Assumptions C16_elemental_docstring_differs.
Print Assumptions C16_knn_on_exact_octree.
Print Assumptions C16_gen_bounds_sound.
Print Assumptions C16_knn_translated_search_correct.
Print Assumptions C16_knn_on_snapped_octree.
Print Assumptions C16_snapped_cells_on_grid.
Print Assumptions C16_snap_grid_spec.
Print Assumptions C16_hausdorff_cfg_correct.
Print Assumptions C16_hausdorff_translated_correct.
