#!/usr/bin/env python3
"""table of behaviour-preserving refactors (benign/) and whether the registered check stays quiet on them"""
import json, glob
rows = []
for f in sorted(glob.glob('/verif/benign/*/*/meta.json')):
    m = json.load(open(f))
    c = m.get('confirmed', {}); k = m.get('check', {}); r = m.get('recheck')
    first = 'QUIET' if k.get('quiet') else 'alarm'
    now = ('quiet' if r.get('quiet') else 'ALARM') if r else ('quiet' if k.get('quiet') else 'ALARM')
    outl = [l for l in ((r or k).get('output') or ['']) if l.startswith('VIOLATION')] or ['']
    rows.append((m['property'], m['slug'], m.get('kind', ''), 'yes' if c.get('equiv_exit') == 0 else 'NO', first, now, outl[0][:80]))
print('| property | refactor | kind | equiv confirmed | check as first run | check now | first line |\n|---|---|---|---|---|---|---|')
for r in rows:
    print('| ' + ' | '.join(str(x) for x in r) + ' |')
