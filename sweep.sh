#!/bin/bash
# ./sweep.sh "<seeds>" [jobs] [tier] — run every claimed check on /repo for each VERIF_SEED, N at a time; one summary line per (check, seed)
cd "$(dirname "$0")"
seeds="${1:-1 2 3 4 5}"; jobs="${2:-4}"; tier="${3:-quick}"
mkdir -p build/sweep
ids=$(python3 -c "import json; print(' '.join(c['property_id'] for c in json.load(open('MANIFEST.json'))['checks']))")
run1() { p=$1; sd=$2; t=$3; s=$(date +%s); VERIF_SEED=$sd flock build/.seed_$p.lock ./check $p --tier $t > build/sweep/${p}_$sd.log 2>&1; rc=$?; e=$(date +%s);
  echo "$p seed=$sd exit=$rc wall=$((e-s))s viol=$(grep -c '^VIOLATION' build/sweep/${p}_$sd.log) known=$(grep -c '^KNOWN-FINDING' build/sweep/${p}_$sd.log)"; }
export -f run1
for sd in $seeds; do for p in $ids; do echo "$p $sd $tier"; done; done | xargs -P "$jobs" -L 1 bash -c 'run1 $0 $1 $2' | sort
