"""Child process of the C06 check.  For every case of the spec (argv[1]):
build the mesh in memory, report what femio holds (nodes, blocks, nodal
variables with THEIR ids), let femio write the legacy VTK file and read it
back with MESHIO (independent reader).  All floats as exact integer ratios."""
import io
import json
import os
import sys
from fractions import Fraction

import numpy as np


def fl(x):
    f = Fraction(int(x[0]), int(x[1]))
    r = float(f)
    assert Fraction(r) == f, ('input not representable', x)
    return r


def ex(x):
    x = float(x)
    if x != x or x in (float('inf'), float('-inf')):
        return ['nan', 0]
    n, d = x.as_integer_ratio()
    return [n, d]


def rows_of(a):
    a = np.asarray(a)
    if a.ndim == 1:
        return [[ex(x)] for x in a]
    return [[ex(x) for x in np.ravel(r)] for r in a]


def run_case(c, femio, meshio, work):
    r = {'id': c['id']}
    if c.get('stream') == 'tables':
        from femio import config
        E = femio.FEMElementalAttribute
        r['table'] = [[k, v] for k, v in config.DICT_FEMIO_ELEMENT_TO_MESHIO_ELEMENT.items()]
        r['element_types'] = list(E.ELEMENT_TYPES)
        r['export'], r['import'], r['ranks'] = [], [], []
        for t, a in c['arity'].items():
            row = (np.arange(a, dtype=np.int64) * 3 + 7)[None, :]
            dummy = E('ELEMENT', {t: femio.FEMAttribute(t, np.array([1]), row)})
            out = dummy._to_meshio(t, dict.__getitem__(dummy, t))
            r['export'].append([t, [int(x) for x in row[0]], [int(x) for x in np.asarray(out)[0]]])
        for vt, a in c['vtk_arity'].items():
            row = (np.arange(a, dtype=np.int64) * 3 + 7)[None, :]
            fa = E._from_meshio(vt, row)
            r['import'].append([vt, [int(x) for x in row[0]], [int(x) - 1 for x in np.asarray(fa.data)[0]]])
        for rank in (1, 2, 3, 4):
            data = np.zeros((2,) + (2,) * (rank - 1))
            attrs = femio.FEMAttributes({'x': femio.FEMAttribute('x', np.array([5, 9]), data)})
            try:
                pd_ = attrs.to_meshio(np.array([5, 9]))
            except TypeError:
                pd_ = attrs.to_meshio()
            r['ranks'].append([rank, 'x' in pd_])
        return r
    if c.get('stream') == 'tet2perm':
        E = femio.FEMElementalAttribute
        x = np.array(c['rows'], dtype=np.int64)
        dummy = E('ELEMENT', {'tet2': femio.FEMAttribute('tet2', np.arange(len(x)) + 1, x)})
        to = dummy._to_meshio_tet2(x)
        back = E._from_meshio_tet2(to)
        frm = E._from_meshio_tet2(x)
        there = dummy._to_meshio_tet2(frm)
        r['to'] = [[int(v) for v in row] for row in to]
        r['from'] = [[int(v) for v in row] for row in frm]
        r['from_to'] = [[int(v) for v in row] for row in back]
        r['to_from'] = [[int(v) for v in row] for row in there]
        return r
    DT = {'float64': np.float64, 'float32': np.float32, 'int64': np.int64, 'int32': np.int32}
    nid = np.array(c['node_ids'], dtype=np.int64)
    xyz = np.array([[fl(x) for x in p] for p in c['points']], dtype=float).astype(
        DT[c.get('points_dtype', 'float64')])
    blocks = {}
    for b in c['blocks']:
        blocks[b['type']] = femio.FEMAttribute(
            b['type'], np.array(b['ids'], dtype=np.int64), np.array(b['conn'], dtype=np.int64))
    fd = femio.FEMData(nodes=femio.FEMAttribute('NODE', nid, xyz),
                       elements=femio.FEMElementalAttribute('ELEMENT', blocks))
    for v in c['variables']:
        data = np.array([fl(x) for x in v['flat']], dtype=float).reshape(v['shape']).astype(
            DT[v.get('dtype', 'float64')])
        vids = np.array(v['ids'], dtype=np.int64)
        if v.get('attr_name') is None:
            fd.nodal_data.update_data(vids, {v['name']: data})
        elif v.get('attr_how') == 'set_attribute_data':
            # documented option: the attribute's own name differs from the key it is stored under
            fd.nodal_data.set_attribute_data(v['name'], data, name=v['attr_name'])
        else:
            fd.nodal_data[v['name']] = femio.FEMAttribute(v['attr_name'], vids, data)
    # history: values of existing variables replaced through the public API
    for ow in c.get('overwrites', []):
        data = np.array([fl(x) for x in ow['flat']], dtype=float).reshape(ow['shape'])
        if ow['how'] == 'overwrite':
            fd.nodal_data.overwrite(ow['name'], data)
        elif ow['how'] == 'setter':
            fd.nodal_data[ow['name']].data = data
        else:
            fd.nodal_data.set_attribute_data(ow['name'], data)

    def table_ops(ops):
        # in-place edits through the public API of FEMAttribute
        for op in ops or []:
            attr = fd.nodes if op['target'] == 'NODE' else fd.nodal_data[op['target']]
            if op['op'] == 'put':
                tail = list(np.asarray(attr.data).shape[1:])
                vals = np.array([[fl(x) for x in row] for row in op['rows']], dtype=float).reshape(
                    [len(op['ids'])] + tail)
                attr.update(np.array(op['ids'], dtype=np.int64), vals, allow_overwrite=True)
            else:
                sg = {int(a): int(b) for a, b in op['sigma']}
                attr.ids = np.array([sg[int(i)] for i in attr.ids], dtype=np.int64)
    table_ops(c.get('pre_ops'))

    def export(tag):
        # what femio holds just before the export
        held = {'node_ids': [int(i) for i in fd.nodes.ids],
                'points': [[ex(x) for x in p] for p in fd.nodes.data],
                'blocks': [{'type': t, 'ids': [int(i) for i in a.ids],
                            'conn': [[int(x) for x in row] for row in a.data]}
                           for t, a in dict.items(fd.elements)],
                'variables': [{'name': k, 'rank': int(np.asarray(a.data).ndim),
                               'ids': [int(i) for i in a.ids], 'rows': rows_of(a.data)}
                              for k, a in fd.nodal_data.items()]}
        path = os.path.join(work, 'case_%d%s.vtk' % (c['id'], tag))
        if os.path.exists(path):
            os.remove(path)
        fd.write('vtk', path, overwrite=True)
        m = meshio.read(path)
        out = {'held': held,
               'points': [[ex(x) for x in p] for p in m.points],
               'cells': [{'type': cb.type, 'data': [[int(x) for x in row] for row in cb.data]}
                         for cb in m.cells],
               'point_data': {k: {'shape': list(v.shape), 'rows': rows_of(v)}
                              for k, v in m.point_data.items()},
               'cell_data_keys': sorted(m.cell_data.keys())}
        os.remove(path)
        return out
    r.update(export(''))
    # a second export from the SAME object after modifications through the public API
    th = c.get('then')
    if th:
        table_ops(th.get('ops'))
        if 'points' in th:
            new = np.array([[fl(x) for x in p] for p in th['points']], dtype=float)
            if th['points_how'] == 'setter':
                fd.nodes.data = new
            else:
                fd.nodes.data[...] = new
        if 'conn' in th:
            blk = dict.__getitem__(fd.elements, th['conn']['type'])
            newc = np.array(th['conn']['conn'], dtype=np.int64)
            if th['conn']['how'] == 'setter':
                blk.data = newc
            else:                       # the same array edited in place and assigned back
                cur = blk.data
                cur[...] = newc
                blk.data = cur
        for ow in th.get('overwrites', []):
            new = np.array([fl(x) for x in ow['flat']], dtype=float).reshape(ow['shape'])
            if ow.get('how') == 'inplace':
                fd.nodal_data[ow['name']].data[...] = new      # attr.data[i] = v
            else:
                fd.nodal_data.overwrite(ow['name'], new)
        if th.get('nodes') == 'remove_useless':
            # the node table changes in place (unreferenced nodes dropped, the rest re-ordered by
            # ascending id) while the elements stay as they are
            fd.remove_useless_nodes()
        r['second'] = export('_b')
    return r


def main():
    spec = json.loads(open(sys.argv[1]).read())
    real_stdout = sys.stdout
    sys.stdout = io.StringIO()
    import femio
    import meshio
    os.makedirs(spec['work'], exist_ok=True)
    results = []
    for c in spec['cases']:
        try:
            results.append(run_case(c, femio, meshio, spec['work']))
        except Exception as e:      # noqa
            results.append({'id': c['id'], 'error': type(e).__name__ + ': ' + str(e)[:300]})
        sys.stdout.seek(0)
        sys.stdout.truncate()
    sys.stdout = real_stdout
    with open(spec['out'], 'w') as f:
        json.dump(results, f)


if __name__ == '__main__':
    main()
