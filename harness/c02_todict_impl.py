"""Child process for the C02 to_dict stream: StringSeries.to_dict_fem_attributes(names,
component_nums, delimiter=' ') called directly on re-joined rows (incl. rows that are all too
short -> numpy clips the column slice; ragged rows -> None cells)."""
import json
import sys
from pathlib import Path

import numpy as np


def tok(x):
    x = float(x)
    for p in (0, 1, 2, 3, 5, 8, 12, 16):
        s = '%.*E' % (p, x)
        if float(s) == x:
            return s
    return '%.16E' % x


def main():
    spec = json.loads(sys.stdin.read())
    sys.stdout = open('/dev/null', 'w')
    from femio.util import string_parser as st
    out = []
    for c in spec['cases']:
        o = {'id': c['id']}
        try:
            ss = st.StringSeries.read_array(np.array(c['lines']))
            d = ss.to_dict_fem_attributes(c['names'], c['cn'], delimiter=' ')
            o['vars'] = [[k, [[int(i), [tok(x) for x in np.atleast_1d(row)]] for i, row in zip(v.ids, v.data)]]
                         for k, v in d.items()]
        except Exception as e:
            o['error'] = f'{type(e).__name__}: {e}'[:200]
        out.append(o)
    Path(spec['out']).write_text(json.dumps(out))


if __name__ == '__main__':
    main()
