"""Child process of the C16 check: runs femio's spatial searches on the calls
listed in the spec file (argv[1], JSON) and writes the raw results to
spec['out'].  All calls of one tier run in this one process (numba compiles
once, ~2 GB for the octree arrays).

Floats are reported exactly: [numerator, denominator] from
float.as_integer_ratio(), or the strings 'inf', '-inf', 'nan'."""
import json
import math
import sys
import time
import traceback


def fexact(x):
    x = float(x)
    if math.isnan(x):
        return 'nan'
    if math.isinf(x):
        return 'inf' if x > 0 else '-inf'
    n, d = x.as_integer_ratio()
    return [n, d]


def main():
    spec = json.loads(open(sys.argv[1]).read())
    import numpy as np
    from femio import FEMData, FEMAttribute, FEMElementalAttribute

    def mesh(m):
        if m.get('pts_hex'):
            pts = np.array([[float.fromhex(x) for x in p] for p in m['pts_hex']],
                           dtype=np.float64).reshape(-1, 3)
        else:
            pts = np.array(m['pts'], dtype=np.float64).reshape(-1, 3)
        if m.get('scale_exp'):
            pts = pts * (2.0 ** m['scale_exp'])          # exact: power of two
        if m.get('dtype'):
            pts = pts.astype(m['dtype'])
        ids = np.array(m.get('ids') or list(range(1, len(pts) + 1)), dtype=int)
        elements = None
        if m.get('elems'):
            blocks = {}
            for et, (eids, conn) in m['elems'].items():
                blocks[et] = FEMAttribute(et, np.array(eids, dtype=int), np.array(conn, dtype=int))
            elements = FEMElementalAttribute('ELEMENT', blocks)
        return FEMData(nodes=FEMAttribute('NODE', ids, pts), elements=elements)

    def run_history(c, A, B, once):
        """operations on the SAME objects before the measured call: an earlier search (fills
        whatever a search may memoise), in-place moves of the node coordinates"""
        for op in c.get('history') or []:
            tgt = A if op.get('target', 'B') == 'A' or B is None else B
            if op['op'] == 'search':
                once()
            elif op['op'] == 'translate':
                tgt.translation(*[float(v) for v in op['v']])
            elif op['op'] == 'assign':
                tgt.nodes.data[:] = np.array(op['pts'], dtype=np.float64).reshape(-1, 3)
            else:
                raise ValueError(op['op'])

    def final_pts(fd):
        return [[fexact(x) for x in row] for row in np.asarray(fd.nodes.data, dtype=np.float64)]

    out = []
    for c in spec['calls']:
        r = {'id': c['id']}
        t0 = time.time()
        try:
            if c['fn'] == 'knn':
                A = mesh(c['A'])
                B = A if c.get('B') is None else mesh(c['B'])
                bound = float('inf') if c['bound'] is None else float.fromhex(c['bound'])

                def once():
                    tgt = (A if c.get('same_object') else None) if c.get('B') is None else B
                    return A.nearest_neighbor_search_from_nodes_to_nodes(
                        c['k'], distance_upper_bound=bound, target_fem_data=tgt)
                run_history(c, A, None if c.get('B') is None else B, once)
                idx, vec, dist = once()
                if c.get('history'):
                    r['final'] = {'A': final_pts(A), 'B': final_pts(B)}
                r['shape'] = [list(idx.shape), list(vec.shape), list(dist.shape)]
                r['idx'] = [[int(x) for x in row] for row in idx]
                r['vec'] = [[[fexact(x) for x in v] for v in row] for row in vec]
                r['dist'] = [[fexact(x) for x in row] for row in dist]
            elif c['fn'] == 'hd':
                A = mesh(c['A'])
                B = mesh(c['B'])
                def once():
                    return A.calculate_hausdorff_distance_nodes(B, directed=bool(c['directed']))
                run_history(c, A, B, once)
                h = once()
                if c.get('history'):
                    r['final'] = {'A': final_pts(A), 'B': final_pts(B)}
                r['hd'] = fexact(h)
            elif c['fn'] == 'hop':
                A = mesh(c['A'])
                inc = A.calculate_incidence_matrix()
                inct = inc.T.tocsr()
                r['n_node'], r['n_elem'] = int(inc.shape[0]), int(inc.shape[1])
                r['conn'] = [[int(x) for x in inct.indices[inct.indptr[e]:inct.indptr[e + 1]]]
                             for e in range(inct.shape[0])]
                adj = A.calculate_euclidean_hop_graph(float.fromhex(c['r']), mode=c['mode'])
                adj = adj.tocoo()
                r['shape'] = list(adj.shape)
                r['pairs'] = sorted([int(i), int(j)] for i, j, v in zip(adj.row, adj.col, adj.data) if v)
                r['nnz_raw'] = int(adj.nnz)
            else:
                raise ValueError(c['fn'])
        except BaseException as e:  # noqa
            r['exc'] = type(e).__name__ + ': ' + str(e)[:300]
            r['tb'] = traceback.format_exc()[-800:]
        r['t'] = round(time.time() - t0, 3)
        out.append(r)
        if len(out) % 10 == 0:
            open(spec['out'] + '.progress', 'w').write(str(len(out)))
    open(spec['out'], 'w').write(json.dumps(out))


if __name__ == '__main__':
    main()
