"""Child process: runs femio's convert_nodal2elemental / convert_elemental2nodal
on the meshes/queries read from stdin (JSON); every float of the result is
reported exactly as [numerator, denominator] (float.as_integer_ratio).  A fresh
FEMData per query; cases marked `shared` run their whole step sequence (queries
and in-place modifications) on ONE object.  Elemental inputs are given keyed by element id and are put
into the order of fd.elements.ids here (that order is reported back)."""
import contextlib
import io
import json
import sys
import warnings

import numpy as np

sys.path.insert(0, __file__.rsplit('/', 1)[0])
from c13_impl import build, apply_mod  # noqa


def exact(arr):
    arr = np.asarray(arr, dtype=float)
    orig = list(arr.shape)
    if arr.ndim == 3:                     # calc_average=False: (n_element, n_node, width)
        arr = arr.reshape(arr.shape[0], -1)
    if arr.ndim == 1:
        arr = arr.reshape(-1, 1)
    if arr.ndim != 2:
        raise ValueError(f'unexpected result shape {arr.shape}')
    if not np.all(np.isfinite(arr)):
        return {'nonfinite': True, 'shape': list(arr.shape)}
    return {'rows': [[list(float(x).as_integer_ratio()) for x in row] for row in arr.tolist()],
            'shape': list(arr.shape), 'orig_shape': orig}


def run_query(fd, q):
    eids = [int(x) for x in fd.elements.ids]
    DT = {'float': float, 'int': np.int64, 'int32': np.int32, 'bool': bool}
    if q['kind'] == 'n2e':
        data = np.array(q['data'], dtype=DT[q.get('dtype', 'float')])
        # (one name per width and dtype: on a shared object an existing field cannot be
        # overwritten by one of another width — not this property's subject)
        name = 'verif_%s_%d' % (q.get('dtype', 'float'), data.shape[1] if data.ndim == 2 else 1)
        if not q.get('avg', True):
            if q.get('by_name'):
                fd.nodal_data.update_data(fd.nodes.ids, {name: data}, allow_overwrite=True)
                data = name
            return fd.convert_nodal2elemental(data, calc_average=False, ravel=q['ravel']), eids
        if q.get('by_name'):
            fd.nodal_data.update_data(fd.nodes.ids, {name: data}, allow_overwrite=True)
            data = name
        if 'ravel' in q:
            return fd.convert_nodal2elemental(data, calc_average=True, ravel=q['ravel']), eids
        return fd.convert_nodal2elemental(data, calc_average=True), eids
    v = np.array([q['values'][str(e)] for e in eids], dtype=DT[q.get('vdtype', 'float')])
    if q.get('drop_last'):
        v = v[:-1]
    omit = set(q.get('omit', []))
    kw = {}
    if 'mode' not in omit:
        kw['mode'] = q['mode']
    if 'order1' not in omit:
        kw['order1_only'] = q['order1']
    if 'raise_neg' in q and 'raise_neg' not in omit:
        kw['raise_negative_volume'] = q['raise_neg']
    if q['weight'] == 'false':
        kw['weight'] = False
    elif q['weight'] == 'explicit':
        kw['weight'] = np.array([[q['weights'][str(e)]] for e in eids],
                                dtype=DT[q.get('wdtype', 'float')])
    elif 'omit' in q and 'weight' not in omit:
        kw['weight'] = None
    inc = q.get('inc')
    if inc:
        if inc['kind'] == 'own':
            kw['incidence'] = fd.calculate_incidence_matrix(order1_only=inc['order1'])
        else:
            import scipy.sparse as sp
            kw['incidence'] = sp.csr_matrix(np.array(
                [[inc['cols'][str(e)][i] for e in eids] for i in range(inc['nrows'])],
                dtype=bool).reshape(inc['nrows'], len(eids)))
    return fd.convert_elemental2nodal(v, **kw), eids


def main():
    spec = json.loads(sys.stdin.read())
    out = []
    sink = io.StringIO()
    warnings.simplefilter('ignore')
    with contextlib.redirect_stdout(sink):
        for case in spec['cases']:
            res = []
            shared = None
            if case.get('shared'):
                try:
                    shared = build(case['mesh'])
                except Exception:  # noqa
                    shared = None
            for q in case['queries']:
                sink.seek(0)
                sink.truncate()
                r = {}
                try:
                    fd = shared if shared is not None else build(case['mesh'])
                    if q['kind'] == 'mod':
                        apply_mod(fd, q)
                        res.append({'mod': 'done'})
                        continue
                    r['elem_ids'] = [int(x) for x in fd.elements.ids]
                    val, _ = run_query(fd, q)
                    r.update(exact(val))
                except Exception as e:  # noqa
                    r.update({'exc': type(e).__name__, 'msg': str(e)[:200]})
                res.append(r)
            out.append({'id': case['id'], 'results': res})
    with open(spec['out'], 'w') as f:
        json.dump({'cases': out}, f)


if __name__ == '__main__':
    main()
