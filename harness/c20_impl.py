"""C20 child process: runs femio's mesh compressor on the jobs of a JSON file
and writes everything the Coq side needs (integers exactly, floats as exact
integer ratios) to another JSON file.  usage: c20_impl.py jobs.json out.json"""
import contextlib
import io
import json
import sys
import time
import traceback

import numpy as np


def ratio(x):
    n, d = float(x).as_integer_ratio()
    return [int(n), int(d)]


def decode_poly(arr):
    arr = [int(v) for v in arr]
    m = arr[0]
    L = 1
    faces = []
    for _ in range(m):
        k = arr[L]
        faces.append(arr[L + 1:L + 1 + k])
        L += k + 1
    return faces, L == len(arr)


def encode_poly(faces):
    out = [len(faces)]
    for f in faces:
        out.append(len(f))
        out += list(f)
    return out


def csr_of(polys):
    dat = []
    indptr = [0]
    for p in polys:
        dat += encode_poly(p)
        indptr.append(len(dat))
    return (np.array(indptr, np.int64), np.array(dat, np.int32))


def array_out(a):
    """numeric result -> {'shape':..., 'vals': [[n,d]...]} or a marker"""
    a = np.asarray(a)
    if a.dtype == object:
        return {'shape': list(a.shape), 'object': True}
    a = np.asarray(a, dtype=float)
    if not np.all(np.isfinite(a)):
        return {'shape': list(a.shape), 'nonfinite': True}
    return {'shape': list(a.shape), 'vals': [ratio(v) for v in a.ravel()]}


def main():
    jobs = json.loads(open(sys.argv[1]).read())
    res = {'merge': [], 'runs': [], 'edge': [], 'reindex': [], 'log': []}
    buf = io.StringIO()
    t0 = time.time()
    with contextlib.redirect_stdout(buf):
        import femio
        from femio import mesh_compressor as mcmod
        from femio.mesh_compressor import MeshCompressor

    # -------------------------------------------------- merge_polyhedrons
    for job in jobs.get('merge', []):
        out = {'id': job['id']}
        try:
            csr = csr_of(job['polys'])
            ids = np.array(job['ids'], np.int64)
            elem_conv = np.full(len(job['polys']), -1, np.int32)
            with contextlib.redirect_stdout(buf):
                nxt, polys, success = mcmod.merge_polyhedrons(csr, ids, elem_conv, 0)
            out['nxt'] = int(nxt)
            out['polys'] = [decode_poly(p)[0] for p in polys]
            out['success'] = [int(s) for s in success]
            out['elem_conv'] = [int(e) for e in elem_conv]
        except Exception as e:  # noqa
            out['error'] = type(e).__name__ + ': ' + str(e)[:200]
        res['merge'].append(out)

    # ------------------------------------------- reindex + recalc_node_pos
    for job in jobs.get('reindex', []):
        out = {'id': job['id']}
        try:
            indptr, dat = csr_of(job['polys'])
            conv = np.array(job['conv'], np.int32)
            pos = np.array(job['pos'], np.float64)
            with contextlib.redirect_stdout(buf):
                mcmod.reindex((indptr, dat), conv)
                newpos = mcmod.recalc_node_pos(pos, conv)
            out['polys'] = [decode_poly(dat[indptr[i]:indptr[i + 1]])[0] for i in range(len(indptr) - 1)]
            out['conv'] = [int(v) for v in conv]
            out['pos'] = [[ratio(c) for c in row] for row in newpos]
        except Exception as e:  # noqa
            out['error'] = type(e).__name__ + ': ' + str(e)[:200]
        res['reindex'].append(out)

    # -------------------------- remove_one_edge / remove_one_vertex (unit)
    for job in jobs.get('edge', []):
        out = {'id': job['id'], 'steps': []}
        try:
            import random as _random
            rr = _random.Random(job['seed'])
            cur = [list(f) for f in job['poly']]
            for step in range(job['steps']):
                if step == 0:
                    a, b = job['a'], job['b']
                else:
                    f = rr.choice(cur)
                    j = rr.randrange(len(f))
                    a, b = f[j - 1], f[j]
                    if rr.random() < 0.5:
                        a, b = b, a
                poly = np.array(encode_poly(cur), np.int32)
                with contextlib.redirect_stdout(buf):
                    ok, newp = mcmod.remove_one_edge_from_polyhedron(poly, a, b)
                newf = decode_poly(newp)[0]
                out['steps'].append({'a': int(a), 'b': int(b), 'ok': bool(ok), 'before': cur, 'after': newf})
                if ok:
                    cur = newf
        except Exception as e:  # noqa
            out['error'] = type(e).__name__ + ': ' + str(e)[:200]
        res['edge'].append(out)

    # ------------------------------------------------------- whole runs
    HEXFACES = ((4, 5, 6, 7), (5, 4, 0, 1), (6, 5, 1, 2), (7, 6, 2, 3), (4, 7, 3, 0), (3, 2, 1, 0))

    def build_mesh(job):
        """tet/hex/prism/pyr/hexpyr brick or thin tet plate with exact (integer / dyadic)
        coordinates; returns the femio mesh"""
        kind = job['kind']
        n = job['n']
        if kind == 'tetplate':
            # structured plate, every block cut into 6 tets sharing the block diagonal
            nx, ny, nz = n

            def nid(i, j, k):
                return (i * (ny + 1) + j) * (nz + 1) + k + 1
            lat = np.array([[i, j, k] for i in range(nx + 1) for j in range(ny + 1)
                            for k in range(nz + 1)], np.int64)
            old_ids = list(range(1, len(lat) + 1))
            split = [[0, 1, 2, 6], [0, 2, 3, 6], [0, 3, 7, 6], [0, 7, 4, 6], [0, 4, 5, 6], [0, 5, 1, 6]]
            conn = []
            for i in range(nx):
                for j in range(ny):
                    for k in range(nz):
                        h = [nid(i, j, k), nid(i + 1, j, k), nid(i + 1, j + 1, k), nid(i, j + 1, k),
                             nid(i, j, k + 1), nid(i + 1, j, k + 1), nid(i + 1, j + 1, k + 1),
                             nid(i, j + 1, k + 1)]
                        conn += [[h[a] for a in t] for t in split]
            conn = np.array(conn, np.int64)
            types = ['tet'] * len(conn)
        else:
            base = kind if kind in ('hex', 'tet') else 'hex'
            fd = femio.generate_brick(base, *n)
            lat = np.rint(fd.nodes.data * np.array(n)).astype(np.int64)
            old_ids = [int(i) for i in fd.nodes.ids]
            conn = np.array(fd.elements.data, np.int64)
            types = [base] * len(conn)
        st = job.get('stretch')
        if st:
            lat = lat * np.array(st, np.int64)
        cr = job.get('crease')
        if cr:
            # gently creased brick: z scaled by a piecewise linear function of x with its
            # kink on the grid line i0; every element face stays planar
            lat = np.stack([lat[:, 0] * cr['Dx'], lat[:, 1] * cr['Dy'],
                            lat[:, 2] * (cr['D'] + cr['s'] * np.abs(lat[:, 0] - cr['i0']))], axis=1)
        xyz = (lat @ np.array(job['M'], np.int64).T + np.array(job['t'], np.int64)).astype(np.float64)
        rows = [tuple(int(v) for v in r) for r in conn]
        if kind == 'prism':
            rows = [r for (a, b, c, d, e, f, g, h) in rows for r in ((a, b, c, e, f, g), (a, c, d, e, g, h))]
            types = ['prism'] * len(rows)
        elif kind in ('pyr', 'hexpyr'):
            # hex -> six pyramids on its faces, apex = new centre node (mean of the 8
            # corners: exact dyadic coordinates); hexpyr: every other hex stays a hex
            row_of = {i: k for k, i in enumerate(old_ids)}
            nxt = max(old_ids) + 1
            new_rows, types, centres = [], [], []
            for q, hexrow in enumerate(rows):
                if kind == 'hexpyr' and q % 2 == 0:
                    new_rows.append(hexrow)
                    types.append('hex')
                    continue
                m = nxt
                nxt += 1
                centres.append(xyz[[row_of[v] for v in hexrow]].sum(axis=0) / 8)
                for F in HEXFACES:
                    new_rows.append(tuple(hexrow[v] for v in reversed(F)) + (m,))
                    types.append('pyr')
                old_ids.append(m)
            rows = new_rows
            if centres:
                xyz = np.vstack([xyz, np.array(centres)])
        # drop cells (voids, several components, non-convex bodies, unreferenced nodes)
        drop = set(job.get('drop') or [])
        keep = [q for q in range(len(rows)) if q not in drop]
        rows = [rows[q] for q in keep]
        types = [types[q] for q in keep]
        xyz = xyz * float(job['scale'])
        cd = job.get('coord_dtype', 'float64')
        xyz = xyz.astype(cd)
        ids = np.array(job['node_ids'], np.int64) if job.get('node_ids') else np.array(old_ids, np.int64)
        idmap = dict(zip(old_ids, [int(i) for i in ids]))
        perm = np.array(job['node_perm'], np.int64) if job.get('node_perm') else np.arange(len(ids))
        eids = job.get('elem_ids') or list(range(1, len(rows) + 1))
        eids = eids[:len(rows)]
        blocks = {}
        for tp in sorted(set(types)):
            sel = [q for q in range(len(rows)) if types[q] == tp]
            blocks[tp] = femio.FEMAttribute(
                tp, np.array([eids[q] for q in sel], np.int64),
                np.array([[idmap[v] for v in rows[q]] for q in sel], np.int64))
        return femio.FEMData(nodes=femio.FEMAttribute('NODE', ids[perm], xyz[perm]),
                             elements=femio.FEMElementalAttribute('ELEMENT', blocks))

    def record_output(mc, out):
        o = mc.output_fem_data
        fdat = o.elemental_data['face']['polyhedron'].data
        dec = [decode_poly(p) for p in fdat]
        out['out_polys'] = [d[0] for d in dec]
        out['out_wellformed'] = all(d[1] for d in dec)
        out['out_pos'] = [[ratio(c) for c in row] for row in o.nodes.data]
        out['out_node_ids'] = [int(i) for i in o.nodes.ids]
        out['out_elem_ids'] = [int(i) for i in o.elements.ids]
        out['out_conn'] = [[int(v) for v in row] for row in o.elements.data]
        out['node_conv'] = [int(v) for v in mc.node_conv]
        out['elem_conv'] = [int(v) for v in mc.elem_conv]
        # the method the docstring names for obtaining the result
        o2 = mc.calculate_compressed_fem_data()
        out['recomputed_same_object'] = o2 is o
        return o

    def make_x(t, n_src):
        vals = np.array(t['x'][:n_src * t['ncomp']], np.float64)
        dt = t.get('dtype', 'float64')
        if dt == 'bool':
            vals = (vals.astype(np.int64) % 2 != 0) if t['xmode'] != 'const' else (vals * 0 + 1 != 0)
        else:
            vals = vals.astype(dt)
        return vals[:n_src] if t['shape'] == 'N' else vals.reshape(n_src, t['ncomp'])

    def run_transfers(mc, poly, o, tlist, N0, E0):
        tr = []
        for t in tlist:
            r = dict(t)
            n_src = None
            try:
                where = t['where']          # nodal | elemental
                direction = t['dir']        # compress | decompress
                n_src = {('nodal', 'compress'): N0, ('elemental', 'compress'): E0,
                         ('nodal', 'decompress'): len(o.nodes.data),
                         ('elemental', 'decompress'): len(o.elements.data)}[(where, direction)]
                x = make_x(t, n_src)
                x_before = np.array(x, copy=True)
                src = poly if direction == 'compress' else o
                dst = o if direction == 'compress' else poly
                name1, name2 = 'c20_src_%d' % t['tid'], 'c20_dst_%d' % t['tid']
                with contextlib.redirect_stdout(buf):
                    if where == 'nodal':
                        src.nodal_data.update_data(src.nodes.ids, {name1: x}, allow_overwrite=True)
                    else:
                        src.elemental_data.update_data(src.elements.ids, {name1: x}, allow_overwrite=True)
                    fn = getattr(mc, direction + '_' + where + '_data')
                    for _ in range(t.get('repeat', 1)):      # same query twice: same answer
                        fn(name_1=name1, name_2=name2 + '_r%d' % _, kind=t['kind'], knn=t['knn'])
                    y = (dst.nodal_data if where == 'nodal' else dst.elemental_data)[name2 + '_r0'].data
                    if t.get('repeat', 1) > 1:
                        y2 = (dst.nodal_data if where == 'nodal' else dst.elemental_data)[name2 + '_r1'].data
                        r['repeat_same'] = bool(np.array_equal(np.asarray(y, float), np.asarray(y2, float), equal_nan=True))
                    xs = (src.nodal_data if where == 'nodal' else src.elemental_data)[name1].data
                r['n_src'] = n_src
                r['x_used'] = [ratio(v) for v in np.asarray(x_before, float).ravel()]
                r['x_shape'] = list(np.asarray(x).shape)
                r['source_unchanged'] = bool(np.array_equal(np.asarray(xs, float).ravel(),
                                                            np.asarray(x_before, float).ravel()))
                r['y'] = array_out(y)
                r['y_dtype'] = str(np.asarray(y).dtype)
            except Exception as e:  # noqa
                r['error'] = type(e).__name__
                r['error_msg'] = str(e)[:200]
                r['n_src'] = n_src
            r.pop('x', None)
            tr.append(r)
        return tr

    def matrices(mc, knns):
        mats = {}
        for knn in knns:
            with contextlib.redirect_stdout(buf):
                mn = mc.calculate_conversion_matrix_nodal(knn)
                me = mc.calculate_conversion_matrix_elemental(knn)
            mats[str(knn)] = {
                'nodal': {'shape': list(mn.shape), 'rows': [[int(b) for b in r] for r in mn.toarray()]},
                'elemental': {'shape': list(me.shape), 'rows': [[int(b) for b in r] for r in me.toarray()]}}
        return mats

    other_mc = None
    for job in jobs.get('runs', []):
        out = {'id': job['id']}
        t1 = time.time()
        try:
            with contextlib.redirect_stdout(buf):
                mesh = build_mesh(job)
                poly = mesh.to_polyhedron()
            in_faces = [decode_poly(p)[0] for p in poly.elemental_data['face']['polyhedron'].data]
            out['in_polys'] = in_faces
            out['in_pos'] = [[ratio(c) for c in row] for row in np.asarray(poly.nodes.data, np.float64)]
            with contextlib.redirect_stdout(buf):
                mc = MeshCompressor(fem_data=poly)
                # the merge step alone, on copies (correspondence of merge_elements)
                K = max(len(mc.csr[0] - 1) // job['elem_num'], 1)
                ec = np.arange(len(in_faces), dtype=np.int32)
                indptr, dat = mcmod.merge_elements(
                    (mc.csr_raw[0].copy(), mc.csr_raw[1].copy()),
                    np.asarray(mc.node_pos, np.float64).copy(), ec, K)
            out['merge_K'] = int(K)
            out['merge_polys'] = [decode_poly(dat[indptr[i]:indptr[i + 1]])[0]
                                  for i in range(len(indptr) - 1)]
            out['merge_elem_conv'] = [int(e) for e in ec]
            # one pass of remove_edges on the merged cells (correspondence with the
            # driver model HarnessDriver.driver_pass)
            if job.get('driver_pass') and job['cos_thresh'] > 0:
                ec2 = ec.copy()
                with contextlib.redirect_stdout(buf):
                    ip2, d2 = mcmod.remove_edges((indptr.copy(), dat.copy()),
                                                 np.asarray(mc.node_pos, np.float64).copy(), ec2,
                                                 THRESH=job['cos_thresh'])
                out['drv_polys'] = [decode_poly(d2[ip2[i]:ip2[i + 1]])[0] for i in range(len(ip2) - 1)]
            # edge removals on real merged cells (geometry = the input node table):
            # correspondence with ModelEdge.remove_one_edge and instances of
            # C20_remove_one_edge_volume
            ge = job.get('geo_edges')
            if ge:
                import random as _random
                rr = _random.Random(ge['seed'])
                cand = [q for q, c in enumerate(out['merge_polys']) if len(c) >= 5]
                rr.shuffle(cand)
                geo = []
                for q in cand[:ge['cells']]:
                    cur = [list(f) for f in out['merge_polys'][q]]
                    for _ in range(ge['steps']):
                        f = rr.choice(cur)
                        j = rr.randrange(len(f))
                        a, b = f[j - 1], f[j]
                        if rr.random() < 0.5:
                            a, b = b, a
                        with contextlib.redirect_stdout(buf):
                            ok_e, newp = mcmod.remove_one_edge_from_polyhedron(
                                np.array(encode_poly(cur), np.int32), a, b)
                        newf = decode_poly(newp)[0]
                        geo.append({'cell': q, 'a': int(a), 'b': int(b), 'ok': bool(ok_e),
                                    'before': cur, 'after': newf})
                        if ok_e:
                            cur = newf
                out['geo_edges'] = geo
            with contextlib.redirect_stdout(buf):
                if job.get('interleave') and other_mc is None:
                    # a second live compressor on another mesh (class-level state would show)
                    other = femio.generate_brick('hex', 2, 1, 1).to_polyhedron()
                    other_mc = MeshCompressor(fem_data=other)
                ok = mc.compress(elem_num=job['elem_num'], cos_thresh=job['cos_thresh'],
                                 dist_thresh=job['dist_thresh'])
                if job.get('interleave'):
                    o_mc = MeshCompressor(fem_data=femio.generate_brick('hex', 2, 2, 1).to_polyhedron())
                    o_mc.compress(elem_num=1, cos_thresh=0.5, dist_thresh=0.0)
            out['ok'] = bool(ok)
            if ok:
                o = record_output(mc, out)
                N0 = len(poly.nodes.data)
                E0 = len(in_faces)
                out['mats'] = matrices(mc, job['knns'])
                out['transfers'] = run_transfers(mc, poly, o, job['transfers'], N0, E0)
            # ---- history: a second compress() on the same compressor
            sec = job.get('second')
            if sec:
                s2 = {}
                try:
                    with contextlib.redirect_stdout(buf):
                        ok2 = mc.compress(elem_num=sec['elem_num'], cos_thresh=sec['cos_thresh'],
                                          dist_thresh=sec['dist_thresh'])
                    s2['refused'] = False
                    s2['ok'] = bool(ok2)
                    if ok2:
                        o2 = record_output(mc, s2)
                        s2['mats'] = matrices(mc, sec['knns'])
                        s2['transfers'] = run_transfers(mc, poly, o2, sec['transfers'],
                                                        len(poly.nodes.data), len(in_faces))
                except AssertionError:
                    s2['refused'] = True
                except Exception as e:  # noqa
                    s2['refused'] = False
                    s2['error'] = type(e).__name__ + ': ' + str(e)[:300]
                out['second'] = s2
        except Exception as e:  # noqa
            out['error'] = type(e).__name__ + ': ' + str(e)[:300]
            out['trace'] = traceback.format_exc()[-1500:]
        out['secs'] = round(time.time() - t1, 2)
        res['runs'].append(out)
    res['secs'] = round(time.time() - t0, 2)
    open(sys.argv[2], 'w').write(json.dumps(res))


if __name__ == '__main__':
    main()
