"""C20 child process: runs femio's mesh compressor on the jobs of a JSON file
and writes everything the Coq side needs (integers exactly, floats as exact
integer ratios) to another JSON file.  usage: c20_impl.py jobs.json out.json"""
import contextlib
import io
import json
import sys
import time
import traceback

import numpy as np


def ratio(x):
    n, d = float(x).as_integer_ratio()
    return [int(n), int(d)]


def decode_poly(arr):
    arr = [int(v) for v in arr]
    m = arr[0]
    L = 1
    faces = []
    for _ in range(m):
        k = arr[L]
        faces.append(arr[L + 1:L + 1 + k])
        L += k + 1
    return faces, L == len(arr)


def encode_poly(faces):
    out = [len(faces)]
    for f in faces:
        out.append(len(f))
        out += list(f)
    return out


def csr_of(polys):
    dat = []
    indptr = [0]
    for p in polys:
        dat += encode_poly(p)
        indptr.append(len(dat))
    return (np.array(indptr, np.int64), np.array(dat, np.int32))


def array_out(a):
    """numeric result -> {'shape':..., 'vals': [[n,d]...]} or a marker"""
    a = np.asarray(a)
    if a.dtype == object:
        return {'shape': list(a.shape), 'object': True}
    a = np.asarray(a, dtype=float)
    if not np.all(np.isfinite(a)):
        return {'shape': list(a.shape), 'nonfinite': True}
    return {'shape': list(a.shape), 'vals': [ratio(v) for v in a.ravel()]}


def main():
    jobs = json.loads(open(sys.argv[1]).read())
    res = {'merge': [], 'runs': [], 'edge': [], 'reindex': [], 'log': []}
    buf = io.StringIO()
    t0 = time.time()
    with contextlib.redirect_stdout(buf):
        import femio
        from femio import mesh_compressor as mcmod
        from femio.mesh_compressor import MeshCompressor

    # -------------------------------------------------- merge_polyhedrons
    for job in jobs.get('merge', []):
        out = {'id': job['id']}
        try:
            csr = csr_of(job['polys'])
            ids = np.array(job['ids'], np.int64)
            elem_conv = np.full(len(job['polys']), -1, np.int32)
            with contextlib.redirect_stdout(buf):
                nxt, polys, success = mcmod.merge_polyhedrons(csr, ids, elem_conv, 0)
            out['nxt'] = int(nxt)
            out['polys'] = [decode_poly(p)[0] for p in polys]
            out['success'] = [int(s) for s in success]
            out['elem_conv'] = [int(e) for e in elem_conv]
        except Exception as e:  # noqa
            out['error'] = type(e).__name__ + ': ' + str(e)[:200]
        res['merge'].append(out)

    # ------------------------------------------- reindex + recalc_node_pos
    for job in jobs.get('reindex', []):
        out = {'id': job['id']}
        try:
            indptr, dat = csr_of(job['polys'])
            conv = np.array(job['conv'], np.int32)
            pos = np.array(job['pos'], np.float64)
            with contextlib.redirect_stdout(buf):
                mcmod.reindex((indptr, dat), conv)
                newpos = mcmod.recalc_node_pos(pos, conv)
            out['polys'] = [decode_poly(dat[indptr[i]:indptr[i + 1]])[0] for i in range(len(indptr) - 1)]
            out['conv'] = [int(v) for v in conv]
            out['pos'] = [[ratio(c) for c in row] for row in newpos]
        except Exception as e:  # noqa
            out['error'] = type(e).__name__ + ': ' + str(e)[:200]
        res['reindex'].append(out)

    # -------------------------- remove_one_edge / remove_one_vertex (unit)
    for job in jobs.get('edge', []):
        out = {'id': job['id'], 'steps': []}
        try:
            import random as _random
            rr = _random.Random(job['seed'])
            cur = [list(f) for f in job['poly']]
            for step in range(job['steps']):
                if step == 0:
                    a, b = job['a'], job['b']
                else:
                    f = rr.choice(cur)
                    j = rr.randrange(len(f))
                    a, b = f[j - 1], f[j]
                    if rr.random() < 0.5:
                        a, b = b, a
                poly = np.array(encode_poly(cur), np.int32)
                with contextlib.redirect_stdout(buf):
                    ok, newp = mcmod.remove_one_edge_from_polyhedron(poly, a, b)
                newf = decode_poly(newp)[0]
                out['steps'].append({'a': int(a), 'b': int(b), 'ok': bool(ok), 'before': cur, 'after': newf})
                if ok:
                    cur = newf
        except Exception as e:  # noqa
            out['error'] = type(e).__name__ + ': ' + str(e)[:200]
        res['edge'].append(out)

    # ------------------------------------------------------- whole runs
    for job in jobs.get('runs', []):
        out = {'id': job['id']}
        t1 = time.time()
        try:
            with contextlib.redirect_stdout(buf):
                base = job['kind'] if job['kind'] in ('hex', 'tet') else 'hex'
                fd = femio.generate_brick(base, *job['n'])
                lat = np.rint(fd.nodes.data * np.array(job['n'])).astype(np.int64)
                cr = job.get('crease')
                if cr:
                    # gently creased brick: z scaled by a piecewise linear function of x
                    # with its kink on the grid line i0; every element face stays planar
                    lat = np.stack([lat[:, 0] * cr['Dx'], lat[:, 1] * cr['Dy'],
                                    lat[:, 2] * (cr['D'] + cr['s'] * np.abs(lat[:, 0] - cr['i0']))],
                                   axis=1)
                xyz = (lat @ np.array(job['M'], np.int64).T + np.array(job['t'], np.int64))
                xyz = xyz.astype(np.float64)
                old_ids = [int(i) for i in fd.nodes.ids]
                conn = np.array(fd.elements.data, np.int64)
                etype = job['kind']
                if etype == 'prism':
                    # every hex (a..h) -> two prisms split along the same diagonal
                    conn = np.array([r for (a, b, c, d, e, f, g, h) in conn
                                     for r in ((a, b, c, e, f, g), (a, c, d, e, g, h))], np.int64)
                elif etype == 'pyr':
                    # every hex -> six pyramids on its faces, apex = new centre node
                    # (mean of the 8 corners: exact dyadic coordinates)
                    row_of = {i: k for k, i in enumerate(old_ids)}
                    nxt = max(old_ids) + 1
                    rows = []
                    centres = []
                    for (a, b, c, d, e, f, g, h) in conn:
                        m = nxt
                        nxt += 1
                        centres.append(xyz[[row_of[int(v)] for v in (a, b, c, d, e, f, g, h)]].sum(axis=0) / 8)
                        for F in ((e, f, g, h), (f, e, a, b), (g, f, b, c), (h, g, c, d), (e, h, d, a),
                                  (d, c, b, a)):
                            rows.append(tuple(reversed(F)) + (m,))
                        old_ids.append(m)
                    conn = np.array(rows, np.int64)
                    xyz = np.vstack([xyz, np.array(centres)])
                xyz = xyz * float(job['scale'])
                ids = np.array(job['node_ids'], np.int64) if job.get('node_ids') \
                    else np.array(old_ids, np.int64)
                # relabel nodes (ids need not be 1..n nor sorted in storage)
                idmap = dict(zip(old_ids, [int(i) for i in ids]))
                perm = np.array(job['node_perm'], np.int64) if job.get('node_perm') \
                    else np.arange(len(ids))
                new_conn = np.vectorize(idmap.get)(conn)
                mesh = femio.FEMData(
                    nodes=femio.FEMAttribute('NODE', ids[perm], xyz[perm]),
                    elements=femio.FEMElementalAttribute(
                        'ELEMENT', {etype: femio.FEMAttribute(
                            etype, np.arange(len(new_conn)) + 1, new_conn)}))
                poly = mesh.to_polyhedron()
            in_faces = [decode_poly(p)[0] for p in poly.elemental_data['face']['polyhedron'].data]
            out['in_polys'] = in_faces
            out['in_pos'] = [[ratio(c) for c in row] for row in poly.nodes.data]
            with contextlib.redirect_stdout(buf):
                mc = MeshCompressor(fem_data=poly)
                # the merge step alone, on copies (correspondence of merge_elements)
                K = max(len(mc.csr[0] - 1) // job['elem_num'], 1)
                ec = np.arange(len(in_faces), dtype=np.int32)
                indptr, dat = mcmod.merge_elements(
                    (mc.csr_raw[0].copy(), mc.csr_raw[1].copy()), mc.node_pos.copy(), ec, K)
            out['merge_K'] = int(K)
            out['merge_polys'] = [decode_poly(dat[indptr[i]:indptr[i + 1]])[0]
                                  for i in range(len(indptr) - 1)]
            out['merge_elem_conv'] = [int(e) for e in ec]
            with contextlib.redirect_stdout(buf):
                ok = mc.compress(elem_num=job['elem_num'], cos_thresh=job['cos_thresh'],
                                 dist_thresh=job['dist_thresh'])
            out['ok'] = bool(ok)
            if ok:
                o = mc.output_fem_data
                fdat = o.elemental_data['face']['polyhedron'].data
                dec = [decode_poly(p) for p in fdat]
                out['out_polys'] = [d[0] for d in dec]
                out['out_wellformed'] = all(d[1] for d in dec)
                out['out_pos'] = [[ratio(c) for c in row] for row in o.nodes.data]
                out['out_node_ids'] = [int(i) for i in o.nodes.ids]
                out['out_elem_ids'] = [int(i) for i in o.elements.ids]
                out['out_conn'] = [[int(v) for v in row] for row in o.elements.data]
                out['node_conv'] = [int(v) for v in mc.node_conv]
                out['elem_conv'] = [int(v) for v in mc.elem_conv]
                N0 = len(poly.nodes.data)
                E0 = len(in_faces)
                mats = {}
                for knn in job['knns']:
                    with contextlib.redirect_stdout(buf):
                        mn = mc.calculate_conversion_matrix_nodal(knn)
                        me = mc.calculate_conversion_matrix_elemental(knn)
                    mats[str(knn)] = {
                        'nodal': {'shape': list(mn.shape),
                                  'rows': [[int(b) for b in r] for r in mn.toarray()]},
                        'elemental': {'shape': list(me.shape),
                                      'rows': [[int(b) for b in r] for r in me.toarray()]}}
                out['mats'] = mats
                # ---- transfers
                tr = []
                for t in job['transfers']:
                    r = dict(t)
                    try:
                        where = t['where']          # nodal | elemental
                        direction = t['dir']        # compress | decompress
                        n_src = {('nodal', 'compress'): N0, ('elemental', 'compress'): E0,
                                 ('nodal', 'decompress'): len(o.nodes.data),
                                 ('elemental', 'decompress'): len(o.elements.data)}[(where, direction)]
                        vals = np.array(t['x'][:n_src * t['ncomp']], np.float64)
                        if t['shape'] == 'N':
                            x = vals[:n_src]
                        else:
                            x = vals.reshape(n_src, t['ncomp'])
                        src = poly if direction == 'compress' else o
                        dst = o if direction == 'compress' else poly
                        name1, name2 = 'c20_src_%d' % t['tid'], 'c20_dst_%d' % t['tid']
                        with contextlib.redirect_stdout(buf):
                            if where == 'nodal':
                                src.nodal_data.update_data(src.nodes.ids, {name1: x}, allow_overwrite=True)
                            else:
                                src.elemental_data.update_data(src.elements.ids, {name1: x},
                                                               allow_overwrite=True)
                            fn = getattr(mc, direction + '_' + where + '_data')
                            fn(name_1=name1, name_2=name2, kind=t['kind'], knn=t['knn'])
                            y = (dst.nodal_data if where == 'nodal' else dst.elemental_data)[name2].data
                        r['n_src'] = n_src
                        r['x_used'] = [ratio(v) for v in np.asarray(x, float).ravel()]
                        r['x_shape'] = list(np.asarray(x).shape)
                        r['y'] = array_out(y)
                    except Exception as e:  # noqa
                        r['error'] = type(e).__name__
                        r['error_msg'] = str(e)[:200]
                        r['n_src'] = n_src
                    r.pop('x', None)
                    tr.append(r)
                out['transfers'] = tr
        except Exception as e:  # noqa
            out['error'] = type(e).__name__ + ': ' + str(e)[:300]
            out['trace'] = traceback.format_exc()[-1500:]
        out['secs'] = round(time.time() - t1, 2)
        res['runs'].append(out)
    res['secs'] = round(time.time() - t0, 2)
    open(sys.argv[2], 'w').write(json.dumps(res))


if __name__ == '__main__':
    main()
