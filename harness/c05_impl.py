"""C05 child process: runs femio (tree under test on PYTHONPATH).

stdin: JSON spec; results are written to spec['out'] (femio prints a lot).

Histories: list of ops on one directory that holds source files
  ['R'] read_directory            ['RC', k] same, dying k file effects into the save
  ['S', j, mesh] objects[j].save  ['SC', j, mesh, k] same, dying after k file effects
A crash is produced in a forked process whose numpy.savez / numpy.save /
Path.touch / Path.unlink / os.remove are wrapped to count file effects and
os._exit at the k-th.  After every op the femio_* files of the directory are
listed with a content identity, and reads report which path was taken and the
identity of each component of the returned object.
"""
import contextlib
import hashlib
import io
import json
import os
import pathlib
import shutil
import sys
import traceback

import numpy as np

_real_stdout = sys.stdout
sys.stdout = open(os.devnull, 'w')

import femio  # noqa: E402
from femio import FEMData, FEMAttribute, FEMAttributes, FEMElementalAttribute  # noqa: E402

COMPS = ['nodes', 'elements', 'nodal_data', 'elemental_data', 'constraints', 'settings']
ARITY = {'line': 2, 'tri': 3, 'quad': 4, 'tet': 4, 'tet2': 10, 'pyr': 5, 'prism': 6, 'hex': 8,
         'hex2': 20, 'hexprism': 12, 'tri2': 6, 'quad2': 8, 'line2': 3, 'pyr2': 13, 'prism2': 15}


# ------------------------------------------------------------------ canonical digests
def H(x):
    return hashlib.sha256(json.dumps(x, sort_keys=True).encode()).hexdigest()[:20]


def canon(v):
    if isinstance(v, dict):
        return ['dict', sorted([[str(k), canon(x)] for k, x in v.items()])]
    if v is None:
        return ['none']
    a = v if isinstance(v, np.ndarray) else np.asarray(v)
    if a.dtype == object and a.shape == ():
        return canon(a.item())          # np.savez wraps dicts / None in a 0-d object array
    if a.dtype == object:
        flat = a.ravel().tolist()
        return ['obj', list(a.shape), [canon(x) for x in flat]]
    return [a.dtype.str, list(a.shape),
            hashlib.sha256(np.ascontiguousarray(a).tobytes()).hexdigest()[:20]]


def attr_digest(a):
    return [canon(a.ids), canon(a.data)]


def coll_digest(coll, skip=()):
    items = []
    for name, v in coll.items():
        if str(name) in skip:
            continue
        if isinstance(v, FEMElementalAttribute):
            d = ['E', sorted([[str(t), attr_digest(a)] for t, a in v.items()])]
        else:
            d = ['A', attr_digest(v)]
        items.append([str(name), d])
    return H(sorted(items))


def norm_settings(s):
    s = dict(s)
    st = s.get('solution_type')
    if isinstance(st, np.ndarray) and st.shape == ():
        st = st.item()
    if st is None or st == 'None':
        st = 'STATIC'
    s['solution_type'] = str(st)
    return s


def settings_digest(s):
    return H(sorted([[str(k), canon(v)] for k, v in norm_settings(s).items()]))


DEFAULT_SETTINGS = settings_digest({})


def settings_digest_exact(s):
    return H(sorted([[str(k), canon(v)] for k, v in dict(s).items()]))


def comp_digests(fd, mesh_only=False, exact_settings=False):
    out = {}
    out['nodes'] = H(attr_digest(fd.nodes))
    out['elements'] = H(sorted([[str(t), attr_digest(a)] for t, a in fd.elements.items()]))
    for m in ('nodal_data', 'elemental_data', 'constraints'):
        coll = getattr(fd, m)
        # nodal_data['NODE'] is a mirror of nodes inserted by FEMData.__init__:
        # it is not part of the nodal component
        skip = ('NODE',) if m == 'nodal_data' else ()
        if mesh_only and m == 'elemental_data':
            # read_npy_directory(read_mesh_only=True) keeps the polyhedral 'face'
            # attribute: it belongs to the mesh
            skip = ('face',)
        n = len([k for k in coll.keys() if str(k) not in skip])
        out[m] = None if n == 0 else coll_digest(coll, skip)
    if exact_settings:
        # no normalisation: a stored solution_type None must come back as None
        out['settings'] = settings_digest_exact(fd.settings)
        return out
    sd = settings_digest(fd.settings)
    out['settings'] = None if sd == DEFAULT_SETTINGS else sd
    return out


def file_digest(path, comp):
    """content identity of a cache file as np.load sees it"""
    try:
        if os.path.getsize(path) == 0:
            return 'B'
        z = np.load(path, allow_pickle=True)
        d = {k: z[k] for k in z.files}
    except Exception:
        return 'C'
    if comp == 'nodal_data':
        d = {k: v for k, v in d.items() if k.split('/')[0] != 'NODE'}
    if len(d) == 0:
        return 'B'
    if comp == 'settings':
        sd = settings_digest(d)
        return 'B' if sd == DEFAULT_SETTINGS else 'F' + sd
    return 'F' + H(sorted([[str(k), canon(v)] for k, v in d.items()]))


# ------------------------------------------------------------------ objects
def build(desc):
    rs = np.random.RandomState(desc['seed'])
    n = desc['n_nodes']
    mode = desc.get('id_mode', 'sparse')
    if mode == 'dense':
        node_ids = np.arange(1, n + 1)
    elif mode == 'large':
        node_ids = rs.choice(np.arange(2**31, 2**31 + 10 * n), n, replace=False)
    else:
        node_ids = rs.choice(np.arange(1, 20 * n), n, replace=False)
    nodes = FEMAttribute('NODE', node_ids, rs.randint(-40, 40, (n, 3)) / 4.0)
    el = {}
    eid_pool = list(rs.choice(np.arange(1, 50 * max(1, len(desc['types'])) * 10), 200, replace=False))
    all_eids = []
    for t in desc['types']:
        k = desc.get('n_per_type', 3)
        eids = np.array([eid_pool.pop() for _ in range(k)])
        if t == 'polyhedron':
            data = np.empty(k, dtype=object)
            for i in range(k):
                data[i] = [int(x) for x in rs.choice(node_ids, 4 + int(rs.randint(0, 4)), replace=False)]
        else:
            data = rs.choice(node_ids, (k, ARITY[t]))
        el[t] = FEMAttribute(t, eids, data)
        all_eids.append((t, eids))
    elements = FEMElementalAttribute('ELEMENT', el)
    settings = dict(desc.get('settings', {}))
    fd = FEMData(nodes=nodes, elements=elements, settings=settings)
    def values(k, dim, dtype=None):
        shape = (k,) if dim == 0 else ((k,) + tuple(dim) if isinstance(dim, list) else (k, dim))
        v = rs.randint(-9, 9, shape)
        if dtype == 'int':
            return v.astype(np.int64)
        if dtype == 'int32':
            return v.astype(np.int32)
        if dtype == 'bool':
            return v > 0
        if dtype == 'f32':
            return (v / 2.0).astype(np.float32)
        return v / 2.0

    for ent in desc.get('nodal', []):
        name, dim, ts = ent[0], ent[1], ent[2]
        dtype = ent[3] if len(ent) > 3 else None
        if ts:
            fd.nodal_data.update({name: FEMAttribute(
                name, node_ids, rs.randint(-9, 9, (ts, n, dim)) / 2.0, time_series=True)})
        else:
            fd.nodal_data.update({name: FEMAttribute(name, node_ids, values(n, dim, dtype))})
    for key, dim in desc.get('alias', []):
        # alias spellings (t_init -> INITIAL_TEMPERATURE, disp -> DISPLACEMENT ...)
        fd.nodal_data[key] = FEMAttribute(key, node_ids, values(n, dim))
    for kind, name in desc.get('mods', []):
        # partial / in-place updates before the save
        a = fd.nodal_data[name]
        sub = node_ids[rs.choice(n, max(1, n // 3), replace=False)]
        new = values(len(sub), list(a.data.shape[1:]) if a.data.ndim != 2 else a.data.shape[1]) \
            if a.data.ndim > 1 else values(len(sub), 0)
        if kind == 'update_data':
            fd.nodal_data.update_data(sub, {name: new}, allow_overwrite=True)
        elif kind == 'loc':
            a.loc[sub].data = new
        elif kind == 'inplace':
            if a.data.flags.writeable:
                a.data[int(rs.randint(0, n))] = 77.
        elif kind == 'overwrite':
            fd.nodal_data.overwrite(name, values(n, list(a.data.shape[1:]) if a.data.ndim != 2
                                                 else a.data.shape[1]) if a.data.ndim > 1 else values(n, 0))
        else:
            raise AssertionError(kind)
    for name, dim in desc.get('elemental', []):
        per = {}
        for t, eids in all_eids:
            if name == 'face':
                data = np.empty(len(eids), dtype=object)
                for i in range(len(eids)):
                    data[i] = [int(x) for x in rs.randint(1, 9, 3 + int(rs.randint(0, 5)))]
            else:
                data = values(len(eids), dim, desc.get('elemental_dtype'))
            per[t] = FEMAttribute(name, eids, data)
        fd.elemental_data.update({name: FEMElementalAttribute(name, per)})
    for key, name, dim in desc.get('nodal_alias', []):
        # stored under a key that differs from the attribute's own name
        fd.nodal_data.update({key: FEMAttribute(name, node_ids, rs.randint(-9, 9, (n, dim)) / 2.0)})
    for name, dim in desc.get('overwrite', []):
        fd.nodal_data.overwrite(name, rs.randint(-9, 9, (n, dim)) / 2.0)
    for name, dim in desc.get('constraints', []):
        k = max(1, n // 2)
        ids = rs.choice(node_ids, k, replace=False)
        fd.constraints.update({name: FEMAttribute(name, ids, rs.randint(-9, 9, (k, dim)) / 2.0)})
    return fd


# ------------------------------------------------------------------ fault injection
class Injected(OSError):
    pass


class Crash:
    ticks = 0
    limit = None
    inside = False
    mode = 'exit'          # 'exit': os._exit; 'raise': exception before the effect;
                           # 'raise-mid': the file is written half, then the exception
    saved = None


def tick(midfile=None):
    """called before every file effect; midfile: callable performing a
    truncated write (only for np.savez / np.save)"""
    if Crash.inside:
        return
    if Crash.limit is not None and Crash.ticks == Crash.limit:
        if Crash.mode == 'exit':
            os._exit(17)
        if Crash.mode == 'raise-mid' and midfile is not None:
            Crash.inside = True
            try:
                midfile()
            finally:
                Crash.inside = False
        Crash.limit = None
        raise Injected('injected write error')
    Crash.ticks += 1


def _npz_path(file):
    p = str(file)
    return p if p.endswith('.npz') else p + '.npz'


def install_crash(limit, mode='exit'):
    Crash.ticks = 0
    Crash.limit = limit
    Crash.mode = mode
    saved = []

    def patch(obj, name, f):
        saved.append((obj, name, getattr(obj, name)))
        setattr(obj, name, f)

    def wrap_always(mod, name, writes_file=False):
        orig = getattr(mod, name)

        def f(*a, **kw):
            def mid():
                orig(*a, **kw)
                p = _npz_path(a[0]) if name.startswith('savez') else str(a[0])
                if os.path.exists(p):
                    with open(p, 'r+b') as fh:
                        fh.truncate(max(1, os.path.getsize(p) // 2))
            tick(mid if writes_file else None)
            Crash.inside = True
            try:
                return orig(*a, **kw)
            finally:
                Crash.inside = False
        patch(mod, name, f)

    for nm in ('savez', 'save', 'savez_compressed', 'savetxt'):
        wrap_always(np, nm, writes_file=True)
    orig_touch = pathlib.Path.touch

    def touch(self, *a, **kw):
        tick()
        Crash.inside = True
        try:
            return orig_touch(self, *a, **kw)
        finally:
            Crash.inside = False
    patch(pathlib.Path, 'touch', touch)
    orig_unlink = pathlib.Path.unlink

    def unlink(self, missing_ok=False):
        if os.path.lexists(str(self)):
            tick()
        Crash.inside = True
        try:
            return orig_unlink(self, missing_ok=missing_ok)
        finally:
            Crash.inside = False
    patch(pathlib.Path, 'unlink', unlink)
    for nm in ('remove', 'unlink'):
        orig = getattr(os, nm)

        def rm(path, *a, _orig=orig, **kw):
            if not Crash.inside and os.path.lexists(path):
                tick()
            return _orig(path, *a, **kw)
        patch(os, nm, rm)
    for nm in ('rename', 'replace'):
        wrap_always(os, nm)
    Crash.saved = saved


def uninstall_crash():
    for obj, name, orig in reversed(Crash.saved or []):
        setattr(obj, name, orig)
    Crash.saved = None
    Crash.limit = None
    Crash.inside = False


# ------------------------------------------------------------------ reads
class Flags:
    loaded = False
    parsed = False


_orig_rnd = FEMData.read_npy_directory.__func__
_orig_rf = FEMData.read_files.__func__


def _rnd(cls, *a, **kw):
    Flags.loaded = True
    return _orig_rnd(cls, *a, **kw)


def _rf(cls, *a, **kw):
    Flags.parsed = True
    return _orig_rf(cls, *a, **kw)


FEMData.read_npy_directory = classmethod(_rnd)
FEMData.read_files = classmethod(_rf)


class World:
    def __init__(self, spec):
        self.spec = spec
        self.files = spec['files']                       # comp -> file name
        self.comp_of_file = {v: k for k, v in self.files.items()}
        self.work = pathlib.Path(spec['work'])
        self.objects = []                                # FEMData, sources first
        self.mem = {c: {} for c in COMPS}                # comp -> digest -> id
        self.fdig = {}                                   # (file digest) -> id
        self.snaps = []

    def register(self, fd):
        j = len(self.objects)
        self.objects.append(fd)
        dg = comp_digests(fd)
        snap = []
        for ci, c in enumerate(COMPS):
            if dg[c] is None:
                snap.append(None)
            else:
                ident = 10 * (j + 1) + ci
                self.mem[c].setdefault(dg[c], ident)
                snap.append(self.mem[c][dg[c]])
        self.snaps.append(snap)
        # file identities: save once into a clean directory
        tmp = self.work / f'_reg{j}'
        shutil.rmtree(tmp, ignore_errors=True)
        fd.save(tmp)
        for c, fn in self.files.items():
            p = tmp / fn
            if p.exists():
                d = file_digest(p, c)
                if d not in ('B', 'C'):
                    ci = COMPS.index(c)
                    self.fdig.setdefault((c, d), snap[ci] if snap[ci] is not None else -(10 * (j + 1) + ci))
        shutil.rmtree(tmp, ignore_errors=True)
        return j

    def ident(self, fd, mesh_only=False):
        dg = comp_digests(fd, mesh_only)
        out = []
        for ci, c in enumerate(COMPS):
            if dg[c] is None:
                out.append(None)
            else:
                out.append(self.mem[c].get(dg[c], -(ci + 1)))
        return out

    def listing(self, d):
        out = {}
        for p in sorted(pathlib.Path(d).glob('femio_*')):
            c = self.comp_of_file.get(p.name)
            dg = file_digest(p, c)
            if dg in ('B', 'C'):
                out[p.name] = dg
            else:
                out[p.name] = self.fdig.get((c, dg), -1)
        return out

    def read(self, ftype, d, mesh_only=False, read_npy=True, save=True):
        Flags.loaded = Flags.parsed = False
        try:
            kw = {}
            if not (read_npy and save):
                # the options are only spelled out when they differ from the defaults
                kw = {'read_npy': bool(read_npy), 'save': bool(save)}
            fd = FEMData.read_directory(ftype, d, read_mesh_only=bool(mesh_only), **kw)
        except Exception as e:
            kind = 'LE' if Flags.loaded and not Flags.parsed else 'PE'
            return [kind, type(e).__name__ + ': ' + str(e)[:120]]
        if Flags.loaded and not Flags.parsed:
            return ['L', self.ident(fd, mesh_only)]
        return ['P', self.ident(fd, mesh_only)]

    def run_op(self, op, ftype, d, resfile):
        k = op[0]
        if k == 'R':
            return self.read(ftype, d, op[1])
        if k == 'RF':       # read_directory(read_mesh_only=op[1], read_npy=op[2], save=op[3])
            return self.read(ftype, d, op[1], op[2], op[3])
        if k == 'S':
            self.objects[op[1]].save(d, save_mesh_only=bool(op[2]))
            return ['N']
        raise AssertionError(op)

    def run_fault_op(self, op, ftype, d):
        """the k-th file effect raises (same process, which then goes on):
        SX j mesh k / RX m k at a file boundary, SXM j mesh k in the middle of a file"""
        mode = 'raise-mid' if op[0] == 'SXM' else 'raise'
        install_crash(op[-1], mode)
        try:
            if op[0] == 'RX':
                res = self.read(ftype, d, op[1])
                if res[0] == 'PE' and 'injected' in res[1]:
                    return ['P', None], True
                return res, False
            try:
                self.objects[op[1]].save(d, save_mesh_only=bool(op[2]))
            except Injected:
                return ['N'], True
            return ['N'], False
        finally:
            uninstall_crash()

    def run_crash_op(self, op, ftype, d, resfile):
        """fork; the child dies at the chosen file effect"""
        if os.path.exists(resfile):
            os.remove(resfile)
        pid = os.fork()
        if pid == 0:
            code = 0
            try:
                install_crash(op[-1])
                if op[0] == 'RC':
                    res = self.read(ftype, d, op[1])
                elif op[0] == 'RFC':
                    res = self.read(ftype, d, op[1], op[2], op[3])
                else:
                    self.objects[op[1]].save(d, save_mesh_only=bool(op[2]))
                    res = ['N']
                with open(resfile, 'w') as f:
                    json.dump({'res': res, 'ticks': Crash.ticks}, f)
            except BaseException:
                code = 3
                with open(resfile, 'w') as f:
                    json.dump({'res': ['X', traceback.format_exc()[-300:]], 'ticks': Crash.ticks}, f)
            os._exit(code)
        _, status = os.waitpid(pid, 0)
        code = os.waitstatus_to_exitcode(status)
        if code == 17:
            return (['P', None] if op[0] in ('RC', 'RFC') else ['N']), True
        r = json.loads(open(resfile).read())
        return r['res'], False

    def history(self, h):
        src = self.spec['sources'][h['src']]
        d = self.work / f"h{h['id']}"
        shutil.rmtree(d, ignore_errors=True)
        shutil.copytree(src['path'], d)
        for fn, ident in h.get('plant', {}).items():
            # pre-existing cache files of an object (without sentinel)
            pass
        steps = []
        resfile = str(self.work / f"res{h['id']}.json")
        for op in h['ops']:
            died = False
            try:
                if op[0] in ('RC', 'SC', 'RFC'):
                    res, died = self.run_crash_op(op, src['ftype'], d, resfile)
                elif op[0] in ('SX', 'SXM', 'RX'):
                    res, died = self.run_fault_op(op, src['ftype'], d)
                else:
                    res = self.run_op(op, src['ftype'], d, resfile)
            except Exception:
                res = ['X', traceback.format_exc()[-300:]]
            steps.append({'res': res, 'died': died, 'ls': self.listing(d)})
        if not h.get('keep'):
            shutil.rmtree(d, ignore_errors=True)
        if os.path.exists(resfile):
            os.remove(resfile)
        return {'id': h['id'], 'steps': steps}

    def roundtrips(self, rts):
        """every object is built and saved into its own directory; then ALL are
        loaded; only then are they compared (several live objects)"""
        outs, live = [], []
        for rt in rts:
            d = self.work / f"rt{rt['id']}"
            shutil.rmtree(d, ignore_errors=True)
            out = {'id': rt['id'], 'diff': [], 'exc': None}
            outs.append(out)
            try:
                fd = build(rt['desc'])
            except Exception:
                out['build_error'] = traceback.format_exc()[-400:]
                live.append(None)
                continue
            try:
                fd.save(d)
                out['files'] = sorted(p.name for p in d.glob('femio_*'))
                live.append([fd, d, None])
                try:
                    out['shape'] = shape_of(fd)
                    out['file_keys'] = {p.name: [str(k) for k in np.load(p, allow_pickle=True).files]
                                        for p in d.glob('femio_*.npz')}
                except Exception:
                    out['shape_error'] = traceback.format_exc()[-300:]
            except Exception as e:
                out['exc'] = 'save: ' + type(e).__name__ + ': ' + str(e)[:160]
                live.append(None)
        for out, lv in zip(outs, live):
            if lv is None:
                continue
            try:
                lv[2] = FEMData.read_npy_directory(lv[1])
            except Exception as e:
                out['exc'] = type(e).__name__ + ': ' + str(e)[:160]
        for out, lv in zip(outs, live):
            if lv is None or lv[2] is None:
                continue
            before = comp_digests(lv[0], exact_settings=True)
            after = comp_digests(lv[2], exact_settings=True)
            out['diff'] = [c for c in COMPS if before[c] != after[c]]
            if 'settings' in out['diff']:
                out['settings'] = [repr(dict(lv[0].settings))[:200], repr(dict(lv[2].settings))[:200]]
            try:
                idx = {str(k): i for i, k in enumerate(lv[0].settings.keys())}
                out['settings_kinds'] = [
                    [[str(k), py_kind(v, idx[str(k)])] for k, v in lv[0].settings.items()],
                    [[str(k), loaded_kind(v, idx.get(str(k), -1))] for k, v in lv[2].settings.items()]]
            except Exception:
                out['settings_kinds_error'] = traceback.format_exc()[-300:]
            shutil.rmtree(lv[1], ignore_errors=True)
        return outs


def py_kind(v, idx):
    """SetModel.pyv of a Python value (idx: identity)"""
    if v is None:
        return ['none']
    if isinstance(v, str):
        return ['str', v]
    if isinstance(v, (bool, int, float, np.generic)):
        return ['num', idx]
    return ['seq', [int(x) for x in np.asanyarray(v).shape], idx]


def loaded_kind(v, idx):
    """SetModel.lv of a value found in the settings of a loaded object"""
    if isinstance(v, np.ndarray):
        if v.shape == () and v.dtype == object:
            inner = v.item()
            return ['arr', ['none'] if inner is None else
                    (['str', inner] if isinstance(inner, str) else ['seq', [], idx])]
        if v.shape == () and v.dtype.kind in 'US':
            return ['arr', ['str', str(v)]]
        if v.shape == ():
            return ['arr', ['num', idx]]
        return ['arr', ['seq', [int(x) for x in v.shape], idx]]
    return ['py', py_kind(v, idx)]


def shape_of(fd):
    """labels of the six components in iteration order (what ValModel.tagged_fem is built from)"""
    def coll(c):
        return [[str(k), bool(getattr(v, 'time_series', False))] for k, v in c.items()]
    elemental = []
    for k, v in fd.elemental_data.items():
        if not isinstance(v, FEMElementalAttribute):
            return None
        if any(bool(a.time_series) for a in v.values()):
            return None
        elemental.append([str(k), [str(t) for t, _ in v.items()]])
    if any(bool(a.time_series) for a in fd.elements.values()):
        return None
    return {'nodes_ts': bool(fd.nodes.time_series),
            'types': [str(t) for t, _ in fd.elements.items()],
            'nodal': coll(fd.nodal_data), 'elemental': elemental,
            'constraints': coll(fd.constraints), 'settings': [str(k) for k in fd.settings.keys()]}


def twice(w, tw):
    """read a source directory twice (parse, then served from the cache the
    first read wrote) and compare the six components"""
    d = w.work / f"tw{tw['id']}"
    shutil.rmtree(d, ignore_errors=True)
    d.mkdir(parents=True)
    for f in sorted(os.listdir(tw['path'])):
        if not f.startswith('femio_') and os.path.isfile(os.path.join(tw['path'], f)):
            shutil.copy(os.path.join(tw['path'], f), d / f)
    out = {'id': tw['id']}
    kw = {'time_series': True} if tw.get('time_series') else {}
    try:
        Flags.loaded = Flags.parsed = False
        fd1 = FEMData.read_directory(tw['ftype'], d, **kw)
        out['first'] = 'parsed' if Flags.parsed and not Flags.loaded else 'other'
        d1 = comp_digests(fd1, exact_settings=True)
        out['settings_first'] = repr(dict(fd1.settings))[:200]
    except Exception as e:
        out['first_exc'] = type(e).__name__ + ': ' + str(e)[:120]
        shutil.rmtree(d, ignore_errors=True)
        return out
    out['files'] = sorted(p.name for p in d.glob('femio_*'))
    try:
        Flags.loaded = Flags.parsed = False
        fd2 = FEMData.read_directory(tw['ftype'], d, **kw)
        out['second'] = 'loaded' if Flags.loaded and not Flags.parsed else 'other'
        d2 = comp_digests(fd2, exact_settings=True)
        out['settings_second'] = repr(dict(fd2.settings))[:200]
        out['diff'] = [c for c in COMPS if d1[c] != d2[c]]
        out['types'] = [str(t) for t in fd1.elements.keys()]
    except Exception as e:
        out['second_exc'] = type(e).__name__ + ': ' + str(e)[:160]
    shutil.rmtree(d, ignore_errors=True)
    return out


def keycase(kc):
    """to_dict / from_dict on objects with chosen names and element types; every
    attribute carries the tags (2i, 2i+1) in its ids / data"""
    cnt = [0]
    alias = kc.get('alias')

    def A(name):
        i = cnt[0]
        cnt[0] += 1
        if alias == 'distinct':
            name = f'internal{i}'
        elif alias == 'same':
            name = 'v'
        if kc.get('ts'):
            return FEMAttribute(name, np.array([1000 + 2 * i]), np.array([[[2 * i + 1]], [[2 * i + 1]]]),
                                silent=True, time_series=True)
        return FEMAttribute(name, np.array([1000 + 2 * i]), np.array([[2 * i + 1]]), silent=True)

    def dec_attr(a):
        return [int(np.ravel(a.ids)[0]) - 1000, int(np.ravel(a.data)[0]), bool(a.time_series)]

    def dec_elem(e):
        return [[str(t), dec_attr(a)] for t, a in e.items()]

    out = {'id': kc['id']}
    try:
        kind = kc['kind']
        if kind == 'attr':
            obj = A('x')
            d = obj.to_dict(prefix=kc['prefix'])
            load = lambda: dec_attr(FEMAttribute.from_dict('x', d))  # noqa: E731
        elif kind == 'elem':
            obj = FEMElementalAttribute('ELEMENT', {t: A(t) for t in kc['types']})
            d = obj.to_dict()
            load = lambda: dec_elem(FEMElementalAttribute.from_dict('ELEMENT', d))  # noqa: E731
        elif kind == 'attrs':
            obj = FEMAttributes({n: A(n) for n in kc['names']})
            d = obj.to_dict()
            load = lambda: [[str(n), dec_attr(a)] for n, a in FEMAttributes.from_dict(d).items()]  # noqa: E731
        elif kind == 'eattrs':
            obj = FEMAttributes({n: FEMElementalAttribute('v' if alias else n, {t: A(n) for t in ts})
                                 for n, ts in kc['items']}, is_elemental=True)
            d = obj.to_dict()
            load = lambda: [[str(n), dec_elem(e)] for n, e in  # noqa: E731
                            FEMAttributes.from_dict(d, is_elemental=True).items()]
        else:
            raise AssertionError(kind)
    except Exception:
        out['build_error'] = traceback.format_exc()[-400:]
        return out
    out['keys'] = [str(k) for k in d.keys()]
    try:
        out['ok'] = load()
    except Exception as e:
        out['exc'] = type(e).__name__
        out['msg'] = str(e)[:120]
    return out


def main():
    spec = json.loads(sys.stdin.read())
    w = World(spec)
    w.work.mkdir(parents=True, exist_ok=True)
    out = {'errors': []}
    for s in spec['sources']:
        tmp = w.work / '_src'
        shutil.rmtree(tmp, ignore_errors=True)
        shutil.copytree(s['path'], tmp)
        fd = FEMData.read_directory(s['ftype'], tmp, read_npy=False, save=False)
        w.register(fd)
        shutil.rmtree(tmp, ignore_errors=True)
    for desc in spec['pool']:
        w.register(build(desc))
    out['snaps'] = w.snaps
    out['classes'] = {m: type(getattr(w.objects[0], m)).__name__ for m in COMPS}
    out['histories'] = [w.history(h) for h in spec.get('histories', [])]
    out['fhistories'] = [w.history(h) for h in spec.get('fhistories', [])]
    out['roundtrips'] = w.roundtrips(spec.get('roundtrips', []))
    out['keycases'] = [keycase(kc) for kc in spec.get('keycases', [])]
    out['twice'] = [twice(w, tw) for tw in spec.get('twice', [])]
    pathlib.Path(spec['out']).write_text(json.dumps(out))


if __name__ == '__main__':
    main()
