"""C13 — mesh graph matrices equal their combinatorial definitions.

translate: none (tie H).  build proofs -> corpus -> correspondence (model's
`run_query` evaluated in Coq on the very meshes/queries the implementation
ran on, compared as sorted COO triples) -> the property itself as an exact
Python oracle on the implementation's matrices -> shrink -> violations.
"""
import copy
import json
import os
import re
import shutil
import subprocess
import sys
from pathlib import Path

sys.path.insert(0, str(Path(__file__).resolve().parent))
import lib  # noqa
import c13_gen as gen  # noqa
sys.path.insert(0, str(Path(__file__).resolve().parent.parent / 'translate'))
import c13_decisions as dec  # noqa

PID = 'C13'
MODEL_TYPES = ['line', 'line2', 'spring', 'tri', 'tri2', 'quad', 'quad2', 'polygon', 'tet',
               'tet2', 'pyr', 'pyr2', 'prism', 'prism2', 'hex', 'hex2', 'hexprism',
               'polyhedron', 'unknown']


# ------------------------------------------------------------------ impl
def run_impl(ctx, cases, tag='impl'):
    spec = {'out': str(ctx.scratch / f'{tag}_out.json'),
            'cases': [{'id': c['id'], 'mesh': c['mesh'], 'queries': c['queries'],
                       'shared': bool(c.get('shared'))} for c in cases]}
    r = subprocess.run([lib.PY, str(lib.VERIF / 'harness' / 'c13_impl.py')],
                       input=json.dumps(spec), text=True, capture_output=True,
                       env=lib.impl_env(), timeout=1500)
    if r.returncode != 0:
        raise RuntimeError('impl runner failed: ' + r.stderr[-2000:])
    res = json.loads(Path(spec['out']).read_text())
    return res['element_types'], {x['id']: x['results'] for x in res['cases']}


# ------------------------------------------- in-place modification histories
def mesh_at(c, qi):
    """the mesh the qi-th step of case c sees (histories with in-place
    modifications carry one mesh per state)"""
    q = c['queries'][qi]
    if 'meshes' in c and '_m' in q:
        return c['meshes'][q['_m']]
    return c['mesh']


def apply_mod_py(mesh, mod):
    """what the in-place modification does to the mesh (harness mirror; the
    queries that follow pin it through the correspondence)"""
    m = copy.deepcopy(mesh)
    if mod['op'] == 'set_conn':
        assert len(m['blocks']) == 1
        t, rows = m['blocks'][0]
        m['blocks'] = [[t, [[e, list(mod['rows'][str(e)])] for e, _ in rows]]]
    elif mod['op'] == 'remove_useless_nodes':
        used = set(n for _, rows in m['blocks'] for _, c in rows for n in c)
        if any(r[0] not in used for r in m['nodes']):
            # the surviving nodes are re-stored in ascending id order
            m['nodes'] = sorted(r for r in m['nodes'] if r[0] in used)
    return m


def new_connectivity(rng, mesh):
    """a different, valid connectivity for the (single) block"""
    t, rows = mesh['blocks'][0]
    how = rng.choice(['permute-rows', 'reverse-rows', 'rotate-rows', 'swap-node'])
    conns = [list(c) for _, c in rows]
    if how == 'permute-rows' and len(rows) > 1:
        k = rng.randint(1, len(rows) - 1)
        conns = conns[k:] + conns[:k]
    elif how == 'reverse-rows':
        conns = [c[::-1] for c in conns]
    elif how == 'rotate-rows':
        k = rng.randint(1, 3)
        conns = [c[k:] + c[:k] for c in conns]
    else:
        used = sorted(set(n for c in conns for n in c))
        unused = [r[0] for r in mesh['nodes'] if r[0] not in used]
        a = rng.choice(used)
        b2 = rng.choice(unused) if unused and rng.random() < 0.7 else rng.choice(used)
        sw = {a: b2, b2: a}
        conns = [[sw.get(n, n) for n in c] for c in conns]
    return {'kind': 'mod', 'op': 'set_conn', 'how': how, 'inplace': rng.random() < 0.5,
            'rows': {str(e): c for (e, _), c in zip(rows, conns)}}


def history_case(rng, base):
    """queries / in-place modification / the same queries again, on ONE object"""
    mesh = base['mesh']
    second = any('2' in t for t, _ in mesh['blocks'])
    probe = [{'kind': 'inc', 'order1': o} for o in ([False, True] if second else [False])]
    probe += [{'kind': 'adj', 'nodal': True, 'order1': second, 'via': 'direct'},
              {'kind': 'adj', 'nodal': False, 'order1': False, 'via': 'noarg'},
              {'kind': 'lap', 'nodal': rng.random() < 0.5, 'order1': second},
              {'kind': 'hop', 'nodal': True, 'n': 2, 'self_loop': True, 'order1': second},
              {'kind': 'grad', 'nodal': False, 'order1': second}]
    meshes = [mesh]
    steps = []

    def ask():
        qs = copy.deepcopy(probe)
        rng.shuffle(qs)
        for q in qs:
            q['_m'] = len(meshes) - 1
        steps.extend(qs)
    ask()
    mods = []
    if len(mesh['blocks']) == 1:
        mods.append('set_conn')
    mods.append('remove_useless_nodes')
    if len(mesh['blocks']) == 1 and rng.random() < 0.5:
        mods.append('set_conn')
    for op in mods:
        mod = new_connectivity(rng, meshes[-1]) if op == 'set_conn' else \
            {'kind': 'mod', 'op': 'remove_useless_nodes'}
        mod['_m'] = len(meshes) - 1
        steps.append(mod)
        meshes.append(apply_mod_py(meshes[-1], mod))
        ask()
    return {'mesh': mesh, 'meshes': meshes, 'queries': steps, 'shared': True, 'history': True}


# ------------------------------------------------- canonical form of results
def canon(q, r):
    """implementation result -> (shape, sorted triples) | 'error'.
    edge-gradient: the order of the edge rows inside one source vertex follows
    scipy's unsorted CSR product and is not part of the property: rows are
    sorted by their (column, value) lists."""
    if 'exc' in r or 'mod' in r:
        return None
    tr = [tuple(t) for t in r['triples']]
    if q['kind'] == 'grad':
        rows = {}
        for i, j, v in tr:
            rows.setdefault(i, []).append((j, v))
        keys = sorted(sorted(v) for v in rows.values())
        # rows without any entry cannot be represented: keep the count honest
        if len(rows) != r['shape'][0]:
            keys = keys + [[]] * (r['shape'][0] - len(rows))
        tr = sorted((k, j, v) for k, row in enumerate(keys) for j, v in row)
    return (tuple(r['shape']), tr)


# ------------------------------------------------------- the property (oracle)
def first_order_view(mesh, order1):
    """(row node ids, {eid: set(node ids)}) the matrices refer to"""
    nodes = [r[0] for r in mesh['nodes']]
    conn = {}
    second = any('2' in t for t, _ in mesh['blocks'])
    for t, rows in mesh['blocks']:
        for e, c in rows:
            if order1 and '2' in t:
                c = c[:{'tet2': 4, 'hex2': 8}[t]]
            conn[e] = list(c)
    if order1 and second:
        used = set(x for c in conn.values() for x in c)
        nodes = [n for n in nodes if n in used]
    return nodes, conn


def graph_of(mesh, nodal, order1, elem_ids):
    """vertex count and adjacency sets (with the self loops the definition
    'sharing a node / an element' implies)"""
    nodes, conn = first_order_view(mesh, order1)
    pos = {n: i for i, n in enumerate(nodes)}
    inc = [set(pos[x] for x in conn[e]) for e in elem_ids]
    if nodal:
        n = len(nodes)
        adj = [set() for _ in range(n)]
        for s in inc:
            for a in s:
                adj[a] |= s
    else:
        n = len(elem_ids)
        adj = [set(k for k in range(n) if inc[j] & inc[k]) for j in range(n)]
    return n, adj, inc, len(nodes)


def reach(adj, n_hop):
    n = len(adj)
    if n > 40 or n_hop > 6:
        import numpy as np
        A = np.zeros((n, n), dtype=np.int64)
        for i, s_ in enumerate(adj):
            for j in s_:
                A[i, j] = 1
        cur = A.copy()
        acc = A.copy()
        for _ in range(max(n_hop, 1) - 1):
            cur = ((cur @ A) > 0).astype(np.int64)      # entries <= n: exact
            acc |= cur
        return [set(np.nonzero(acc[i])[0].tolist()) for i in range(n)]
    out = []
    for i in range(n):
        cur = set(adj[i])
        acc = set(cur)
        for _ in range(max(n_hop, 1) - 1):
            cur = set(y for x in cur for y in adj[x])
            acc |= cur
        out.append(acc)
    return out


def sorted_elem_ids(mesh):
    ids = [(e, t) for t, rows in mesh['blocks'] for e, _ in rows]
    return ids


def oracle(mesh, q, r, elem_ids):
    """None if the implementation's matrix satisfies the property's definition,
    else a short description.  `elem_ids` = fd.elements.ids (the labelling of
    element positions the property refers to)."""
    k = q['kind']
    if 'exc' in r:
        if k == 'grad' and r['exc'] == 'ValueError':
            n, adj, _, _ = graph_of(mesh, q['nodal'], q.get('order1', False), elem_ids)
            if not any(j > i for i in range(n) for j in adj[i]):
                return 'no-edge-graph-ValueError'
        return 'raised ' + r['exc']
    shape, tr = tuple(r['shape']), [tuple(t) for t in r['triples']]
    ent = {(i, j): v for i, j, v in tr}
    if k == 'inc':
        nodes, conn = first_order_view(mesh, q['order1'])
        pos = {nid: i for i, nid in enumerate(nodes)}      # node ids are distinct
        exp = sorted((pos[nid], j, 1) for j, e in enumerate(elem_ids) for nid in set(conn[e])
                     if nid in pos)
        if shape != (len(nodes), len(elem_ids)):
            return f'shape {shape} != {(len(nodes), len(elem_ids))}'
        return None if exp == tr else 'incidence entries differ from membership'
    nodal = q['nodal']
    o1 = q.get('order1', False)
    if k == 'hop' and not nodal:
        o1 = False      # documented signature: order1_only is a nodal option
    if k == 'e2v':
        o1 = False
    if k == 'adj' and q.get('via') == 'dispatch' and not nodal:
        o1 = False      # calculate_adjacency_matrix: "Effective only when mode == 'nodal'"
    n, adj, inc, _ = graph_of(mesh, nodal, o1, elem_ids)
    if k == 'adj':
        exp = sorted((i, j, 1) for i in range(n) for j in adj[i])
        if shape != (n, n):
            return f'shape {shape}'
        return None if exp == tr else 'adjacency differs from "share a node/an element"'
    if k == 'hop':
        rc = reach(adj, q['n'])
        if q['self_loop']:
            exp = sorted((i, j, 1) for i in range(n) for j in rc[i])
        else:
            exp = sorted((i, j, 1) for i in range(n) for j in rc[i] if i != j)
        if shape != (n, n):
            return f'shape {shape}'
        if exp == tr:
            return None
        extra = sorted(set(tr) - set(exp))
        missing = sorted(set(exp) - set(tr))
        if not missing and all(i == j and v == -1 and not adj[i] for i, j, v in extra):
            return 'isolated-vertex-diagonal'
        return f'n-hop differs from reachability: extra {extra[:3]} missing {missing[:3]}'
    if k == 'lap':
        if shape != (n, n):
            return f'shape {shape}'
        rows = {}
        for (a, b_), v in ent.items():
            rows.setdefault(a, {})[b_] = v
        if any(a < 0 or a >= n for a in rows):
            return 'entry outside the shape'
        for i in range(n):
            row = rows.get(i, {})
            if sum(row.values()) != 0:
                return f'row {i} does not sum to zero'
            for j in sorted(set(row) | adj[i]):
                v = row.get(j, 0)
                if i != j and v != (1 if j in adj[i] else 0):
                    return f'off-diagonal ({i},{j}) = {v}'
            if row.get(i, 0) != -len(adj[i] - {i}):
                return f'diagonal {i} = {row.get(i, 0)} != -degree'
        return None
    if k == 'grad':
        edges = sorted((i, j) for i in range(n) for j in adj[i] if i < j)
        if shape != (len(edges), n):
            return f'shape {shape} != ({len(edges)}, {n})'
        rows = {}
        for i, j, v in tr:
            rows.setdefault(i, []).append((j, v))
        got = sorted(tuple(sorted(v)) for v in rows.values())
        exp = sorted(((a, 1), (b, -1)) for a, b in edges)
        return None if got == exp else 'rows are not one +1/-1 pair per undirected edge r<c'
    if k == 'e2v':
        if q['self_loop']:
            edges = [(i, j) for i in range(n) for j in sorted(adj[i])]
        else:
            edges = [(i, j) for i in range(n) for j in sorted(adj[i]) if i != j]
        cols = {}
        for i, j, v in tr:
            cols.setdefault(j, []).append((i, v))
        if shape[0] != n:
            return f'shape {shape}'
        if any(len(c) != 1 or c[0][1] != 1 for c in cols.values()) or len(cols) != shape[1]:
            return 'a column is not a single 1'
        got = sorted(c[0][0] for c in cols.values())
        exp = sorted(i for i, _ in edges)
        if got == exp:
            return None
        extra = list(got)
        for x in exp:
            if x in extra:
                extra.remove(x)
        if len(got) == len(exp) + len(extra) and all(not adj[i] for i in extra):
            return 'isolated-vertex-column'
        return 'columns are not one per directed edge'
    raise AssertionError(k)


# ------------------------------------------------------------- Coq side
# which of the two modelled behaviours (unchanged tree = False / repaired = True)
# the implementation follows at the three places where the unchanged code
# violates the property; decided by behaviour in evaluate()
VARIANT = {'hop_zero_diag': True, 'e2v_strict': True, 'grad_total': True}   # first guess: /repo >= cb6a4ac


def variant_class(q):
    if q['kind'] == 'hop' and not q['self_loop']:
        return 'hop_zero_diag'
    if q['kind'] == 'e2v' and not q['self_loop']:
        return 'e2v_strict'
    if q['kind'] == 'grad':
        return 'grad_total'
    return None


def q_to_coq(q):
    b = lambda x: 'true' if x else 'false'  # noqa
    k = q['kind']
    if k == 'inc':
        return f"QInc {b(q['order1'])}"
    if k == 'adj':
        o1 = q['order1'] and not (q.get('via') == 'dispatch' and not q['nodal'])
        return f"QAdj {b(q['nodal'])} {b(o1)}"
    if k == 'hop':
        return (f"QHop {b(q['nodal'])} {int(q['n'])} {b(q['self_loop'])} {b(q['order1'])} "
                f"{b(VARIANT['hop_zero_diag'])}")
    if k == 'lap':
        return f"QLap {b(q['nodal'])} {b(q['order1'])}"
    if k == 'grad':
        return f"QGrad {b(q['nodal'])} {b(q['order1'])} {b(VARIANT['grad_total'])}"
    if k == 'e2v':
        return f"QE2V {b(q['nodal'])} {b(q['self_loop'])} {b(VARIANT['e2v_strict'])}"
    raise AssertionError(k)


def res_to_coq(c):
    if c is None:
        return 'None'
    (r, cc), tr = c
    z = lambda n: f'({n})' if n < 0 else str(n)  # noqa
    return f"Some ({r}, {cc}, [{'; '.join(f'({i}, {j}, {z(v)})' for i, j, v in tr)}])"


HEADER = '''From Coq Require Import ZArith String List.
Import ListNotations.
From FV.C13 Require Import Model.
Open Scope string_scope.
Open Scope Z_scope.
Set Printing Width 100000.
Set Printing Depth 100000.
'''


def coq_check(ctx, cases, results, name):
    """-> {case id: [failing step indices]} (None = the file did not compile).
    A history case is cut into segments of consecutive queries on the same
    mesh state; every segment is one `check_case` on that state's mesh."""
    out = {}
    entries = []            # (case, [step indices], mesh)
    for c in cases:
        out[c['id']] = []
        if c.get('oracle_only'):
            continue
        cur, cur_mesh = [], None
        for qi, q in enumerate(c['queries']):
            if q['kind'] == 'mod':
                continue
            mk = q.get('_m', 0) if 'meshes' in c else 0
            if cur and mk != cur_mesh:
                entries.append((c, cur, mesh_at(c, cur[0])))
                cur = []
            cur_mesh = mk
            cur.append(qi)
        if cur:
            entries.append((c, cur, mesh_at(c, cur[0])))
    files, chunk, size = [], [], 0
    for e in entries:
        chunk.append(e)
        size += len(e[1])
        if size >= 400:
            files.append(chunk)
            chunk, size = [], 0
    if chunk:
        files.append(chunk)
    for fi, chunk in enumerate(files):
        items = []
        for k, (c, idx, mesh) in enumerate(chunk):
            qs = '; '.join(f"({q_to_coq(c['queries'][qi])}, "
                           f"{res_to_coq(canon(c['queries'][qi], results[c['id']][qi]))})"
                           for qi in idx)
            items.append(f"({k}%nat, check_case {gen.mesh_to_coq(mesh, lib)}\n   [{qs}])")
        txt = HEADER + 'Definition cases : list (nat * list nat) := [\n' + ';\n'.join(items) + '].\n'
        txt += 'Goal True. idtac "@@ failing". Abort.\n'
        txt += ('Eval vm_compute in filter (fun c => match snd c with [] => false | _ => true end) '
                'cases.\n')
        rc, o, err = ctx.coq_eval(f'{name}_{fi}', txt, timeout=900)
        if rc != 0:
            ctx.log('correspondence file failed to compile:', err[-600:])
            for c, _, _ in chunk:
                out[c['id']] = None
            continue
        t = lib.parse_marked(o).get('failing', '')
        t = t.split(': list')[0].replace('%nat', '')
        for m in re.finditer(r'\((\d+),\s*\[([0-9;\s]*)\]\)', t):
            c, idx, _ = chunk[int(m.group(1))]
            if out[c['id']] is not None:
                out[c['id']] += [idx[int(x)] for x in re.findall(r'\d+', m.group(2))]
    return out


# ------------------------------------------- stage-wise (graph-level) check
# Meshes too large for the in-Coq evaluation of mesh -> incidence -> adjacency
# (hub meshes: vertex degree >= 2^7, 2^8): the operators that FOLLOW the
# adjacency matrix are evaluated in Coq (`Model.run_gquery`) on the adjacency
# matrix the implementation returned for the same mesh, and compared with the
# implementation's Laplacian / gradient / e2v / n-hop.  `C13_stagewise_factor`
# proves that `run_query` is exactly this composition; the first stage is held
# against the exact Python oracle at these sizes (and against the model on
# every small mesh).
BIG_NODES = 60
STAGE_MAX_N = 300


def n_elements(mesh):
    return sum(len(rows) for _, rows in mesh['blocks'])


def is_big(mesh):
    return len(mesh['nodes']) > BIG_NODES or n_elements(mesh) > BIG_NODES


def mark_big(c):
    """cases whose mesh is too large for the full in-Coq model: property oracle
    + stage-wise Coq check instead (unless explicitly `full_model`)"""
    meshes = c.get('meshes') or [c['mesh']]
    if any(is_big(m) for m in meshes) and not c.get('full_model'):
        c.setdefault('oracle_only', True)
        c.setdefault('stagewise', not any(q['kind'] == 'mod' for q in c['queries']))
    return c


def gq_to_coq(q):
    b = lambda x: 'true' if x else 'false'  # noqa
    k = q['kind']
    if k == 'lap':
        return 'GLap'
    if k == 'grad':
        return f"GGrad {b(VARIANT['grad_total'])}"
    if k == 'e2v':
        return f"GE2V {b(q['self_loop'])} {b(VARIANT['e2v_strict'])}"
    if k == 'hop':
        return f"GHop {int(q['n'])} {b(q['self_loop'])} {b(VARIANT['hop_zero_diag'])}"
    raise AssertionError(k)


def dres_to_coq(c):
    """canonical (shape, triples) -> (rows, cols, [(column, value) pairs of every row])
    (the comparison form of Model.check_graph)"""
    if c is None:
        return 'None'
    (r, cc), tr = c
    rows = [[] for _ in range(r)]
    for i, j, v in tr:
        rows[i].append(f'({j},{v})' if v >= 0 else f'({j},({v}))')
    return f"Some ({r}, {cc}, [" + ';\n  '.join('[' + ';'.join(row) + ']' for row in rows) + '])'


def stage_adj_key(q):
    """(nodal, order1) of the adjacency matrix the query is built on"""
    k = q['kind']
    if k in ('lap', 'grad'):
        return (bool(q['nodal']), bool(q.get('order1')))
    if k == 'e2v':
        return (bool(q['nodal']), False)
    if k == 'hop':
        return (bool(q['nodal']), bool(q.get('order1')) if q['nodal'] else False)
    return None


def stage_affordable(q, n, nnz, tier):
    """cost limits of the dense in-Coq evaluation"""
    k = q['kind']
    if n > STAGE_MAX_N:
        return False
    if k == 'lap':
        return True
    if k == 'grad':
        return (nnz - n) // 2 <= 450
    if k == 'e2v':
        return nnz <= 450
    if k == 'hop':
        return q['n'] <= 3 and n <= (140 if tier == 'thorough' else 40)
    return False


def coq_check_stage(ctx, cases, results, name):
    """-> {case id: [failing step indices]} (None = did not compile) for the
    cases marked `stagewise`"""
    out = {}
    groups = []          # (case, A literal, [(qi, gquery, result)])
    for c in cases:
        if not c.get('stagewise'):
            continue
        out[c['id']] = []
        res = results[c['id']]
        adjs = {}
        for qi, q in enumerate(c['queries']):
            if q['kind'] == 'adj' and 'triples' in res[qi]:
                o1 = q['order1'] and not (q.get('via') == 'dispatch' and not q['nodal'])
                adjs.setdefault((bool(q['nodal']), bool(o1)), res[qi])
        per = {}
        for qi, q in enumerate(c['queries']):
            key = stage_adj_key(q) if q['kind'] != 'mod' else None
            if key is None:
                continue
            a = adjs.get(key)
            if a is None:
                ctx.count('stage:no-adjacency-query-in-the-case')
                continue
            n = a['shape'][0]
            if a['shape'][0] != a['shape'][1] or not stage_affordable(q, n, len(a['triples']),
                                                                      ctx.tier):
                ctx.count('stage:oracle-only (too large for the in-Coq operator)')
                continue
            if q['kind'] == 'e2v' and q['self_loop'] and res[qi].get('exc') == 'AttributeError':
                continue
            per.setdefault(key, []).append(qi)
        for key, idx in per.items():
            a = adjs[key]
            n = a['shape'][0]
            rows = [[] for _ in range(n)]
            for i, j, v in a['triples']:
                if v:
                    rows[i].append(str(j))
            lit = f"(bmat_of_rows {n} [" + ';\n '.join('[' + ';'.join(r) + ']' for r in rows) + '])'
            cost = len(a['triples']) + sum(len(res[qi].get('triples', ())) for qi in idx)
            groups.append((c, lit, idx, cost))
    # parsing budget (numerals handed to coqc): cheapest groups first
    budget = STAGE_BUDGET[ctx.tier]
    groups.sort(key=lambda g: g[3])
    kept = []
    for g in groups:
        if g[3] > budget:
            ctx.count('stage:oracle-only (in-Coq parsing budget of the tier)', len(g[2]))
            continue
        budget -= g[3]
        kept.append(g[:3])
    groups = kept
    files, chunk, size = [], [], 0
    for g in groups:
        chunk.append(g)
        size += len(g[2])
        if size >= 60:
            files.append(chunk)
            chunk, size = [], 0
    if chunk:
        files.append(chunk)
    for fi, chunk in enumerate(files):
        txt = HEADER
        items = []
        for k, (c, lit, idx) in enumerate(chunk):
            txt += f'Definition A_{k} : bmat := {lit}.\n'
            qs = ';\n '.join(f"({gq_to_coq(c['queries'][qi])}, "
                             f"{dres_to_coq(canon(c['queries'][qi], results[c['id']][qi]))})"
                             for qi in idx)
            items.append(f"({k}%nat, check_graph A_{k}\n   [{qs}])")
            ctx.count('stage:in-Coq operator on the implementation\'s adjacency', len(idx))
        txt += 'Definition cases : list (nat * list nat) := [\n' + ';\n'.join(items) + '].\n'
        txt += 'Goal True. idtac "@@ failing". Abort.\n'
        txt += ('Eval vm_compute in filter (fun c => match snd c with [] => false | _ => true end) '
                'cases.\n')
        rc, o, err = ctx.coq_eval(f'{name}_stage_{fi}', txt, timeout=900)
        if rc != 0:
            ctx.log('stage-wise correspondence file failed to compile:', err[-600:])
            for c, _, _ in chunk:
                out[c['id']] = None
            continue
        t = lib.parse_marked(o).get('failing', '')
        t = t.split(': list')[0].replace('%nat', '')
        for m in re.finditer(r'\((\d+),\s*\[([0-9;\s]*)\]\)', t):
            c, _, idx = chunk[int(m.group(1))]
            if out[c['id']] is not None:
                out[c['id']] += [idx[int(x)] for x in re.findall(r'\d+', m.group(2))]
    return out


# --------------------------------------------------------- case generation
def queries_for(rng, mesh, tier):
    second = any('2' in t for t, _ in mesh['blocks'])
    o1s = [False, True] if second else ([False, True] if rng.random() < 0.3 else [False])
    qs = []
    for o in o1s:
        qs.append({'kind': 'inc', 'order1': o})
        for nd in (True, False):
            qs.append({'kind': 'adj', 'nodal': nd, 'order1': o,
                       'via': rng.choice(['direct', 'dispatch'])})
    hops = [1, 2, 3, 4]
    rng.shuffle(hops)
    for i, n in enumerate(hops[:3 if tier == 'quick' else 4]):
        nd = rng.random() < 0.6
        qs.append({'kind': 'hop', 'nodal': nd, 'n': n, 'self_loop': i % 2 == 0,
                   'order1': rng.choice(o1s)})
    qs.append({'kind': 'hop', 'nodal': rng.random() < 0.5, 'n': rng.choice([1, 2, 3]),
               'self_loop': False, 'order1': False})
    for nd in (True, False):
        for o in (o1s if (second and not nd) else [rng.choice(o1s)]):
            qs.append({'kind': 'lap', 'nodal': nd, 'order1': o})
            qs.append({'kind': 'grad', 'nodal': nd, 'order1': o})
        qs.append({'kind': 'e2v', 'nodal': nd, 'self_loop': False})
    qs.append({'kind': 'e2v', 'nodal': rng.random() < 0.5, 'self_loop': True})
    # the theorem is for every hop count: many hops (walk counts exceed 2^63)
    if len(mesh['nodes']) <= 30:
        qs.append({'kind': 'hop', 'nodal': rng.random() < 0.6,
                   'n': rng.choice([6, 8, 12, 16, 20, 24, 32]),
                   'self_loop': rng.random() < 0.5, 'order1': False})
    # the flags spelled as 0/1, numpy bools, None
    for q in qs:
        if rng.random() < 0.25:
            q['flag_style'] = rng.choice(['int', 'numpy', 'none'])
    return qs


def big_hop_cases(rng, n_side=4, hops=(12, 16, 20, 32), n_cases=1):
    """hex block large enough for walk counts to overflow int64; too big for the
    in-Coq evaluation in the quick tier: the implementation is held against the
    reachability oracle only (`oracle_only`)"""
    out = []
    for _ in range(n_cases):
        b = gen.Builder()
        gen.grid3d(b, rng, n_side, n_side, n_side, 'hex')
        mesh = gen.label(b, rng, rng.choice(['seq', 'sparse']), n_unref=0,
                         node_order=rng.choice(gen.ORDERS), elem_order=rng.choice(gen.ORDERS))
        mesh['tags'] = {'kind': f'hex-block-{n_side}', 'ids': 'big', 'components': 1, 'unref': 0}
        qs = [{'kind': 'inc', 'order1': False}]
        for n in hops:
            for nd in (True, False):
                qs.append({'kind': 'hop', 'nodal': nd, 'n': n, 'self_loop': rng.random() < 0.5,
                           'order1': False})
        out.append({'mesh': mesh, 'queries': qs, 'oracle_only': True, 'stagewise': False})
    return out


def hub_queries(rng, nodal_only=False, hops=True):
    qs = [{'kind': 'inc', 'order1': False},
          {'kind': 'adj', 'nodal': True, 'order1': False, 'via': 'direct'}]
    modes = [True] if nodal_only else [True, False]
    if not nodal_only:
        qs.append({'kind': 'adj', 'nodal': False, 'order1': False, 'via': 'direct'})
    for nd in modes:
        qs.append({'kind': 'lap', 'nodal': nd, 'order1': False})
        qs.append({'kind': 'grad', 'nodal': nd, 'order1': False})
        qs.append({'kind': 'e2v', 'nodal': nd, 'self_loop': False})
        if hops:
            qs.append({'kind': 'hop', 'nodal': nd, 'n': rng.choice([2, 3]),
                       'self_loop': rng.random() < 0.5, 'order1': False})
    qs.append({'kind': 'e2v', 'nodal': True, 'self_loop': True})
    return qs


def hub_cases(rng, tier, extended=False):
    """magnitude dimension: a vertex of degree / a node pair of multiplicity
    beyond the narrow integer widths.  2^7 and 2^8: property oracle + stage-wise
    in-Coq operators (+ the full model on two meshes in the thorough tier);
    2^15 and 2^16: nodal graph of a star / polar cap, property oracle only."""
    out = []
    kinds = list(gen.HUBS)
    rng.shuffle(kinds)
    for kind in kinds:                               # degree crosses 2^7
        mesh = gen.gen_hub(rng, kind, rng.randint(129, 144))
        out.append({'mesh': mesh, 'queries': hub_queries(rng)})
    # the same queries once more on ONE object (cached adjacency shared by the
    # Laplacian / gradient / e2v / n-hop of a hub mesh)
    qs = [q for q in hub_queries(rng) if not (q['kind'] == 'e2v' and q['self_loop'])]
    rng.shuffle(qs)
    out.append({'mesh': out[0]['mesh'], 'queries': qs, 'shared': True})
    wide = tier == 'thorough' or extended
    for kind in (kinds if wide else kinds[:1]):      # 2^8
        mesh = gen.gen_hub(rng, kind, rng.randint(257, 272))
        out.append({'mesh': mesh, 'queries': hub_queries(rng)})
    big_kinds = ['star-line', 'cap-tri']
    rng.shuffle(big_kinds)
    bases = rng.sample([2 ** 15, 2 ** 16], 2)
    for kind, base in list(zip(big_kinds, bases))[:2 if wide else 1]:
        mesh = gen.gen_hub(rng, kind, base + rng.randint(1, 300))
        qs = hub_queries(rng, nodal_only=True, hops=False)
        if not wide:         # quick: incidence, adjacency, Laplacian, e2v
            qs = [q for q in qs if q['kind'] != 'grad' and not (q['kind'] == 'e2v' and q['self_loop'])]
        out.append({'mesh': mesh, 'queries': qs, 'oracle_only': True, 'stagewise': False})
    if tier == 'thorough':
        for kind in kinds[:1]:
            mesh = gen.gen_hub(rng, kind, rng.randint(129, 132), n_unref=0)
            out.append({'mesh': mesh, 'full_model': True,
                        'queries': [{'kind': 'lap', 'nodal': True, 'order1': False},
                                    {'kind': 'lap', 'nodal': False, 'order1': False}]})
    return out


def malformed(rng, mesh):
    """a separate small stream: dangling node reference / unsupported
    second-order type with order1_only"""
    m = copy.deepcopy(mesh)
    kind = rng.choice(['dangling', 'tri2-order1'])
    if kind == 'dangling':
        t, rows = m['blocks'][0]
        rows[0][1][0] = max(r[0] for r in m['nodes']) + 7
        qs = [{'kind': 'inc', 'order1': False}, {'kind': 'adj', 'nodal': True, 'order1': False}]
    else:
        ids = [r[0] for r in m['nodes']][:6]
        while len(ids) < 6:
            ids.append(ids[-1])
        m['blocks'] = [['tri2', [[1, ids]]]]
        qs = [{'kind': 'inc', 'order1': True}, {'kind': 'inc', 'order1': False}]
    m['tags'] = dict(m.get('tags', {}), malformed=kind)
    return m, qs


# exact-body tie on calculate_n_hop_adj: the bodies this check was built against
# (before and after /repo cb6a4ac).  Another body is NOT a violation by itself
# (the correspondence and the oracle decide), it triggers the extended search
# at sizes where integer walk counts overflow.
NHOP_BODIES = {'0b1e0586b19c73cf25798565a42257ee0085e1540cf89848c7ebc960f9faa5a5',
               '9e1b5eaed8287475aae355103f4260099c231d59ed637a34489bab3a4627687e'}


def nhop_body_hash():
    import ast
    try:
        src = (lib.REPO / 'femio' / 'graph_processor.py').read_text()
        for n in ast.walk(ast.parse(src)):
            if isinstance(n, ast.FunctionDef) and n.name == 'calculate_n_hop_adj':
                return lib.sha(ast.unparse(n))
    except (OSError, SyntaxError):
        pass
    return None


def degenerate(rng, mesh):
    """collapsed element (a hex used as a wedge, a quad as a triangle): one node
    id repeated inside one connectivity row -> duplicate (node, element) pairs in
    the incidence construction"""
    t, rows = rng.choice(mesh['blocks'])
    row = rng.choice(rows)[1]
    ncorner = {'tet2': 4, 'hex2': 8}.get(t, len(row))
    a, b_ = rng.sample(range(ncorner), 2)
    row[a] = row[b_]
    mesh['tags']['degenerate'] = True


SWEEP_ARITY = {'line': 2, 'line2': 3, 'spring': 2, 'tri': 3, 'tri2': 6, 'quad': 4, 'quad2': 8,
               'polygon': 5, 'tet': 4, 'tet2': 10, 'pyr': 5, 'pyr2': 13, 'prism': 6, 'prism2': 15,
               'hex': 8, 'hex2': 20, 'hexprism': 12, 'polyhedron': 7, 'unknown': 4}


def type_sweep_cases(rng, types=None):
    """every element type name of ELEMENT_TYPES on a two-element mesh (connectivity
    only), both order1_only values: the first-order table (`'2' in type`, tet2 -> 4,
    hex2 -> 8, other second-order types raise) exhaustively through the public path"""
    out = []
    for t in (types or MODEL_TYPES):
        a = SWEEP_ARITY[t]
        share = rng.randint(1, max(1, a - 1))
        ids = rng.sample(range(1, 40 * a), 2 * a - share + 1)
        e1 = ids[:a]
        e2 = ids[a - share:2 * a - share]
        rng.shuffle(e2)
        nodes = list(ids)
        rng.shuffle(nodes)
        eids = rng.sample(range(1, 100), 2)
        mesh = {'nodes': [[n, k, 0, 0] for k, n in enumerate(nodes)],
                'blocks': [[t, [[eids[0], e1], [eids[1], e2]]]],
                'tags': {'kind': 'type-sweep:' + t, 'ids': 'sparse', 'components': 1, 'unref': 1,
                         'node_order': 'shuffled', 'elem_order': 'shuffled', 'n_types': 1}}
        if '2' in t and t not in ('tet2', 'hex2'):
            mesh['tags']['malformed'] = 'second-order-type-without-first-order-rule'
        qs = [{'kind': 'inc', 'order1': False}, {'kind': 'inc', 'order1': True},
              {'kind': 'adj', 'nodal': True, 'order1': True, 'via': 'direct'},
              {'kind': 'lap', 'nodal': False, 'order1': True}]
        out.append({'mesh': mesh, 'queries': qs})
        if t in ('polygon', 'polyhedron'):
            # ragged rows: the block's data is an object array (the object-dtype
            # branch of FEMAttribute.ids2indices), alone and next to a regular block
            m2 = copy.deepcopy(mesh)
            rows = m2['blocks'][0][1]
            extra = [max(r[0] for r in m2['nodes']) + 3 + k for k in range(rng.randint(1, 3))]
            rows[rng.randrange(2)][1].extend(extra)
            for k, n in enumerate(extra):
                m2['nodes'].insert(rng.randrange(len(m2['nodes']) + 1), [n, 50 + k, 1, 0])
            if rng.random() < 0.5:
                m2['blocks'].insert(rng.randrange(2), ['tri', [[rng.randint(200, 300), rows[0][1][:3]]]])
            m2['tags'] = dict(m2['tags'], kind='type-sweep:' + t + ':ragged',
                              n_types=len(m2['blocks']))
            out.append({'mesh': m2, 'queries': qs + [
                {'kind': 'grad', 'nodal': True, 'order1': False},
                {'kind': 'hop', 'nodal': False, 'n': 2, 'self_loop': False, 'order1': False}]})
    return out


# body pins (ast.unparse sha at /repo 38049d8) of the functions whose derived
# integers can outgrow a narrowed dtype.  A changed body is NEVER a violation by
# itself: it widens the hub stream (all kinds at 2^8, both 2^15 and 2^16, larger
# in-Coq budget) so that a narrow defect is met in the quick tier as well.
GRAPH_BODIES = {
    'calculate_adjacency_matrix': '8e495659ee7cecd1d6da3b95ac4ccdc46adf0a17eadd559886e643111aaa26b0',
    'calculate_adjacency_matrix_element': '3e3d234dcb18a90a2e80806fcba649eba692ef4c0be4c8a4fb3a5648d6d8e1f5',
    'calculate_adjacency_matrix_node': 'c09b308991c15928a466355f17146f3637975d8764549c2c4c61a8f931f7137f',
    'calculate_incidence_matrix': '0ce7771579fbb5235d8a93a933a7854f67e08f5fe33eb68d14e4e35185c1cb59',
    'calculate_laplacian_matrix': '85588fcdcccd1f8d07ce2a3202aa236bf68c56bdfadecdd301c9e8be6eb30192',
    'calculate_edge_gradient_matrix': 'e6ef3cc33a5e3f9cdaf4794e07711b0dad4f0a97ab75fb344d8fbd7703668a86',
    'calculate_e2v_matrix': 'b96a799a94cfeb38bc8f2e9cd75c26d7230c7a9de51fde11745fb6e9beda6bac',
}


def changed_graph_bodies():
    import ast
    try:
        src = (lib.REPO / 'femio' / 'graph_processor.py').read_text()
        found = {n.name: lib.sha(ast.unparse(n)) for n in ast.walk(ast.parse(src))
                 if isinstance(n, ast.FunctionDef) and n.name in GRAPH_BODIES}
    except (OSError, SyntaxError):
        return sorted(GRAPH_BODIES)
    return sorted(k for k, v in GRAPH_BODIES.items() if found.get(k) != v)


STAGE_BUDGET = {'quick': 60000, 'thorough': 300000}


def gen_cases(ctx):
    n_mesh = 60 if ctx.tier == 'quick' else 360
    cases = []
    kinds = list(gen.KINDS) + list(gen.NONCONFORMING)
    for i in range(n_mesh):
        kind = kinds[i % len(kinds)] if i < 2 * len(kinds) else None
        mx = 26 if ctx.tier == 'quick' else ctx.rng.choice([26, 26, 40])
        if kind is None and ctx.rng.random() < 0.15:
            kind = ctx.rng.choice(gen.NONCONFORMING)
        mesh = gen.gen_mesh(ctx.rng, kind=kind, max_nodes=mx)
        if ctx.rng.random() < 0.12:
            degenerate(ctx.rng, mesh)
        cases.append({'id': len(cases), 'mesh': mesh,
                      'queries': queries_for(ctx.rng, mesh, ctx.tier)})
    # same-object stream: the whole (shuffled) query sequence of every third mesh
    # is repeated on ONE FEMData object, led by the 1-hop queries whose working
    # matrix aliases the cached adjacency
    for c in list(cases)[::3]:
        qs = [q for q in c['queries'] if not (q['kind'] == 'e2v' and q['self_loop'])]
        ctx.rng.shuffle(qs)
        lead = []
        for nd in ctx.rng.sample([True, False], 2):
            lead.append({'kind': 'hop', 'nodal': nd, 'n': 1, 'self_loop': False, 'order1': False})
            # the call form that hits the lru_cache entry n_hop filled
            lead.append({'kind': 'adj', 'nodal': nd, 'order1': False,
                         'via': 'direct' if nd else 'noarg'})
            lead.append({'kind': 'e2v', 'nodal': nd, 'self_loop': False})
            lead.append({'kind': 'hop', 'nodal': nd, 'n': 1, 'self_loop': True, 'order1': False})
        cases.append({'id': len(cases), 'mesh': c['mesh'], 'queries': lead + qs, 'shared': True})
    # many hops on a block where integer walk counts overflow (oracle only)
    h = nhop_body_hash()
    ctx.sources['graph_processor.py:calculate_n_hop_adj(ast)'] = h
    known_body = h in NHOP_BODIES
    ctx.notes['n_hop_body_known'] = known_body
    big = big_hop_cases(ctx.rng, 4, (12, 16, 20, 32), 1 if ctx.tier == 'quick' else 3)
    if not known_body:
        ctx.notes['n_hop_extended_search'] = 'body of calculate_n_hop_adj changed: more sizes/hops'
        big += big_hop_cases(ctx.rng, 4, (10, 14, 18, 24, 28, 40), 2)
        big += big_hop_cases(ctx.rng, 5, (16, 24, 32, 48), 1)
        big += big_hop_cases(ctx.rng, 3, (8, 16, 24, 32, 64), 2)
    for c in big:
        c['id'] = len(cases)
        cases.append(c)
    # every element type name, both order1_only values (first-order table)
    for c in type_sweep_cases(ctx.rng):
        c['id'] = len(cases)
        cases.append(c)
    # hub stream: vertex degrees / multiplicities beyond the narrow integer widths
    changed = changed_graph_bodies()
    ctx.notes['graph_bodies_changed'] = changed
    if changed and ctx.tier == 'quick':
        ctx.notes['hub_extended_search'] = 'bodies changed: ' + ', '.join(changed)
        STAGE_BUDGET['quick'] = 120000
    for c in hub_cases(ctx.rng, ctx.tier, extended=bool(changed)):
        c['id'] = len(cases)
        cases.append(c)
    # history stream: queries / in-place modification (connectivity assignment,
    # remove_useless_nodes) / the same queries again on ONE object; the model is
    # evaluated on the mesh as modified
    base = [c for c in cases if not c.get('shared') and not c.get('oracle_only')
            and not is_big(c['mesh']) and not c['mesh']['tags'].get('malformed')
            and not str(c['mesh']['tags'].get('kind')).startswith('type-sweep')]
    for c in base[1::4]:
        h = history_case(ctx.rng, c)
        h['id'] = len(cases)
        cases.append(h)
    for i in range(4 if ctx.tier == 'quick' else 20):
        mesh = gen.gen_mesh(ctx.rng, kind=ctx.rng.choice(['tri', 'tet', 'hex']), n_unref=0)
        m, qs = malformed(ctx.rng, mesh)
        cases.append({'id': len(cases), 'mesh': m, 'queries': qs})
    return cases


# ------------------------------------------------------------ evaluation
KNOWN_ORACLE = {'isolated-vertex-diagonal', 'isolated-vertex-column', 'no-edge-graph-ValueError'}


def evaluate(ctx, cases, name):
    """run implementation, oracle and model on the cases"""
    for c in cases:
        mark_big(c)
    types, results = run_impl(ctx, cases, tag=name)
    oracle_fail = {}
    for c in cases:
        fails = []
        if c['mesh'].get('tags', {}).get('malformed'):
            oracle_fail[c['id']] = fails
            continue
        elem_ids = None
        for r in results[c['id']]:
            if 'elem_ids' in r:
                elem_ids = r['elem_ids']
                break
        for qi, (q, r) in enumerate(zip(c['queries'], results[c['id']])):
            if q['kind'] == 'mod':
                if 'exc' in r:
                    fails.append((qi, 'in-place modification raised ' + r['exc']))
                continue
            if elem_ids is None:
                fails.append((qi, 'no element order available: ' + str(r.get('exc'))))
                continue
            d = oracle(mesh_at(c, qi), q, r, r.get('elem_ids', elem_ids))
            if d is not None:
                fails.append((qi, d))
        oracle_fail[c['id']] = fails
    corr = coq_check(ctx, cases, results, name)
    # behavioural choice of the modelled variant, per class of query: if fresh-
    # object queries of a class disagree, all queries of that class are
    # re-evaluated with the other variant, which is adopted only when all of
    # them then agree (so a repaired tree passes, a third behaviour does not)
    def fails(cr, classes, sel=cases):
        return [(c['id'], qi) for c in sel if not c.get('shared') and not c.get('oracle_only')
                for qi in (cr.get(c['id']) or []) if variant_class(c['queries'][qi]) in classes]

    def retry(classes):
        """re-evaluate only the queries of `classes` under the flipped variants;
        returns the corrected failure lists or None"""
        for k in classes:
            VARIANT[k] = not VARIANT[k]
        sub, back = [], {}
        for c in cases:
            if c.get('oracle_only'):
                continue
            idx = [qi for qi, q in enumerate(c['queries']) if variant_class(q) in classes]
            if idx and corr.get(c['id']) is not None:
                sub.append(dict({'id': c['id'], 'mesh': c['mesh'],
                                 'queries': [c['queries'][qi] for qi in idx]},
                                **({'meshes': c['meshes']} if 'meshes' in c else {})))
                back[c['id']] = idx
        res2 = {c['id']: [results[c['id']][qi] for qi in back[c['id']]] for c in sub}
        corr2 = coq_check(ctx, sub, res2, name + '_' + '_'.join(sorted(classes)))
        ok = all(corr2.get(c['id']) is not None for c in sub) and not any(
            corr2[c['id']] for c in sub if not next(x for x in cases if x['id'] == c['id']).get('shared'))
        if not ok:
            for k in classes:
                VARIANT[k] = not VARIANT[k]
            return None
        out = {}
        for c in sub:
            keep = [qi for qi in corr[c['id']] if qi not in back[c['id']]]
            out[c['id']] = sorted(keep + [back[c['id']][j] for j in corr2[c['id']]])
        return out

    failing = [k for k in VARIANT if fails(corr, {k})]
    if failing:
        upd = retry(set(failing))
        if upd is None and len(failing) > 1:
            for k in failing:
                u = retry({k})
                if u is not None:
                    corr.update(u)
                    ctx.notes['variant_by_behaviour:' + k] = VARIANT[k]
        elif upd is not None:
            corr.update(upd)
            for k in failing:
                ctx.notes['variant_by_behaviour:' + k] = VARIANT[k]
    # stage-wise check of the large cases, under the variants just decided
    st = coq_check_stage(ctx, cases, results, name)
    for cid, f in st.items():
        if f is None or corr.get(cid) is None:
            corr[cid] = None
        else:
            corr[cid] = sorted(set(corr[cid]) | set(f))
    return types, results, oracle_fail, corr


def drop_element(mesh, bi, ri):
    m = copy.deepcopy(mesh)
    del m['blocks'][bi][1][ri]
    if not m['blocks'][bi][1]:
        del m['blocks'][bi]
    return m


def drop_node(mesh, ni):
    m = copy.deepcopy(mesh)
    nid = m['nodes'][ni][0]
    if any(nid in c for _, rows in m['blocks'] for _, c in rows):
        return None
    del m['nodes'][ni]
    return m


def shrink(ctx, case, qi, pred, rounds=6):
    """greedy: drop elements / unreferenced nodes while `pred(types, results,
    oracle_fail, corr, id)` still holds for query qi"""
    cur = {'id': 0, 'mesh': case['mesh'], 'queries': [case['queries'][qi]]}
    if case.get('shared'):
        meshes, steps = rebuild_history(case['mesh'], case['queries'][:qi + 1])
        return {'id': 0, 'mesh': case['mesh'], 'meshes': meshes, 'queries': steps,
                'shared': True}
    big = is_big(case['mesh'])
    if big:
        rounds = min(rounds, 3)          # every candidate is a large mesh
    for rd in range(rounds):
        cands = []
        for bi, (t, rows) in enumerate(cur['mesh']['blocks']):
            for ri in range(len(rows)):
                if sum(len(r) for _, r in cur['mesh']['blocks']) > 1:
                    cands.append(drop_element(cur['mesh'], bi, ri))
        for ni in range(len(cur['mesh']['nodes'])):
            m = drop_node(cur['mesh'], ni)
            if m is not None:
                cands.append(m)
        cands = cands[:20 if big else 60]
        if not cands:
            break
        cs = [{'id': i, 'mesh': m, 'queries': cur['queries']} for i, m in enumerate(cands)]
        try:
            ev = evaluate(ctx, cs, f'shrink{rd}')
        except Exception as e:  # noqa
            ctx.log('shrink aborted:', e)
            break
        # keep dropping greedily: take the first candidate that still fails and
        # continue from it (several per round would need re-validation)
        nxt = None
        for c in cs:
            if pred(ev, c['id']):
                nxt = c
                break
        if nxt is None:
            break
        cur = {'id': 0, 'mesh': nxt['mesh'], 'queries': cur['queries']}
    return cur


def strip(q):
    return {k: v for k, v in q.items() if k != '_m'}


def rebuild_history(mesh, steps):
    """mesh states of a step list (queries and modifications) on one object"""
    meshes = [mesh]
    out = []
    for q in steps:
        q = dict(strip(q), _m=len(meshes) - 1)
        out.append(q)
        if q['kind'] == 'mod':
            meshes.append(apply_mod_py(meshes[-1], q))
    return meshes, out


def describe(mesh):
    return {'nodes': [r[0] for r in mesh['nodes']],
            'blocks': [[t, rows] for t, rows in mesh['blocks']]}


def report(ctx, cases, ev, do_shrink=True):
    types, results, oracle_fail, corr = ev
    n_oracle = n_corr = 0
    budget = 3
    for c in cases:
        for qi, d in oracle_fail[c['id']]:
            q = c['queries'][qi]
            r = results[c['id']][qi]
            n_oracle += 1
            if d in KNOWN_ORACLE:
                sig = {'fn': q['kind'], 'defect': d}
            elif q['kind'] == 'e2v' and q['self_loop'] and r.get('exc') == 'AttributeError':
                sig = {'fn': 'e2v', 'defect': 'include_self_loop-AttributeError'}
            else:
                sig = {'fn': q['kind'], 'defect': re.sub(r'[\d(:].*', '', d).strip()[:60],
                       'several_types': len(c['mesh']['blocks']) > 1}
            small = c
            sqi = qi
            is_known = any(f.get('property') == PID and f.get('status') == 'open' and
                           all(sig.get(k) == v for k, v in f.get('match', {}).items())
                           for f in ctx.findings)
            if do_shrink and not is_known and budget > 0 and json.dumps(sig, sort_keys=True) \
                    not in ctx._seen_sigs:
                budget -= 1
                want = d.split(':')[0]
                small = shrink(ctx, c, qi, lambda ev2, i: any(
                    x[1].split(':')[0] == want for x in ev2[2][i]))
                sqi = len(small['queries']) - 1 if small.get('shared') else 0
                r = run_impl(ctx, [small], tag='shrunk')[1][0][sqi]
            if c.get('shared'):
                sig = dict(sig, same_object_sequence=True)
            if c.get('history'):
                sig = dict(sig, after_in_place_modification=any(
                    x['kind'] == 'mod' for x in small['queries'][:sqi]))
            ctx.violation('impl-violation',
                          {'mesh': describe(small['mesh']), 'query': strip(small['queries'][sqi]),
                           'shared_object': bool(small.get('shared')),
                           'earlier_queries_on_the_same_object':
                               [strip(x) for x in small['queries'][:sqi]]
                               if small.get('shared') else []},
                          'matrix equals its combinatorial definition (' + d + ')',
                          {k: r.get(k) for k in ('shape', 'triples', 'exc', 'msg', 'elem_ids')},
                          'property oracle on the implementation / C13 theorems',
                          found_input=True, signature=sig,
                          what=f"{q['kind']} {q}: {d}")
        cf = corr[c['id']]
        if cf is None:
            n_corr += 1
            ctx.violation('correspondence', {'mesh': describe(c['mesh'])}, 'model evaluates', 'coqc failed',
                          'correspondence C13 (Model.run_query)', found_input=False,
                          signature={'kind': 'correspondence', 'defect': 'coq-eval-failed'})
            continue
        for qi in cf:
            q = c['queries'][qi]
            r = results[c['id']][qi]
            if q['kind'] == 'e2v' and q['self_loop'] and r.get('exc') == 'AttributeError':
                # the model describes the matrix this path would build from a COO
                # adjacency; the unchanged code crashes before (reported above
                # through the oracle as a finding), nothing to compare
                ctx.count('corr-skipped:e2v-self-loop-crash')
                continue
            n_corr += 1
            has_oracle = any(x == qi for x, _ in oracle_fail[c['id']])
            sig = {'kind': 'correspondence', 'fn': q['kind'],
                   'several_types': len(c['mesh']['blocks']) > 1,
                   'malformed': c['mesh']['tags'].get('malformed')}
            small, sqi = c, qi
            if do_shrink and budget > 0 and json.dumps(sig, sort_keys=True) not in ctx._seen_sigs:
                budget -= 1
                small = shrink(ctx, c, qi, lambda ev2, i: bool(ev2[3][i]) or ev2[3][i] is None)
                sqi = len(small['queries']) - 1 if small.get('shared') else 0
                r = run_impl(ctx, [small], tag='shrunk')[1][0][sqi]
            if c.get('shared'):
                sig = dict(sig, same_object_sequence=True)
            if c.get('history'):
                sig = dict(sig, after_in_place_modification=any(
                    x['kind'] == 'mod' for x in small['queries'][:sqi]))
            ctx.violation('correspondence',
                          {'mesh': describe(small['mesh']), 'query': strip(small['queries'][sqi]),
                           'shared_object': bool(small.get('shared')),
                           'earlier_queries_on_the_same_object':
                               [strip(x) for x in small['queries'][:sqi]]
                               if small.get('shared') else []},
                          'Model.run_query = implementation (sorted COO triples)',
                          {k: r.get(k) for k in ('shape', 'triples', 'exc', 'msg', 'elem_ids')},
                          'correspondence C13 (Model.run_query)',
                          found_input=has_oracle, signature=sig,
                          what=f"model and implementation differ on {q}")
    return n_oracle, n_corr


# ------------------------------------------------ decisions (tie T, PropsGen.v)
GEN_DECISIONS = lib.COQ / 'C13' / 'gen' / 'Decisions.v'
BASE_DECISIONS = lib.COQ / 'C13' / 'gen_baseline' / 'Decisions.v'


def run_probe(ctx):
    spec = {'probe': True, 'out': str(ctx.scratch / 'probe.json')}
    try:
        r = subprocess.run([lib.PY, str(lib.VERIF / 'harness' / 'c13_impl.py')],
                           input=json.dumps(spec), text=True, capture_output=True,
                           env=lib.impl_env(), timeout=300)
        if r.returncode != 0:
            return {'unavailable': r.stderr[-300:]}
        return json.loads(Path(spec['out']).read_text())
    except Exception as e:  # noqa
        return {'unavailable': str(e)[:200]}


def first_order_expected(d, t):
    """what the translated table says _to_first_order does with 25 columns"""
    if '2' not in t:
        return 25
    return dict(d['first_order']).get(t, 'raise')


def translate_decisions(ctx):
    """regenerate coq/C13/gen/Decisions.v from the source under test; validate the
    translation against the decisions observed on the running code.  Unreadable
    source or a translation the running code contradicts -> the committed baseline
    is the (hand) model of the region: tie H, never a violation by itself."""
    probe = run_probe(ctx)
    d = None
    try:
        d = dec.translate(lib.REPO)
        tie = 'T'
    except dec.Unreadable as e:
        tie = f'H (translator could not read the decisions: {e}; baseline model + correspondence streams)'
    if d is not None and 'unavailable' not in probe:
        got = [tuple(x) for x in probe['dispatch']]
        want = [tuple(x) for x in d['dispatch']]
        fo = {t: first_order_expected(d, t) for t in d['element_types']}
        bad = [x for x in want if x not in got] + \
              [t for t in fo if probe['first_order'].get(t) != fo[t]
               and not str(probe['first_order'].get(t)).startswith('unavailable')]
        ctx.notes['decisions_translator_validation'] = (
            f'{len(want)} dispatch rows + {len(fo)} type names: translation agrees with the '
            'decisions observed on the running code' if not bad else
            f'translation contradicted by the running code on {bad[:4]}')
        if bad:
            tie = ('H (translation contradicted by the decisions observed on the running code: '
                   f'{bad[:3]}; baseline model + correspondence streams)')
            d = None
    elif d is not None:
        ctx.notes['decisions_translator_validation'] = 'probe unavailable: ' + str(
            probe.get('unavailable'))[:200]
    text = dec.to_coq(d, 'femio/graph_processor.py, femio/fem_elemental_attribute.py') \
        if d is not None else BASE_DECISIONS.read_text()
    lib.write_if_changed(GEN_DECISIONS, text)
    ctx.notes['decisions_tie'] = tie
    for f in ('femio/graph_processor.py', 'femio/fem_elemental_attribute.py'):
        try:
            ctx.sources[f + ' (decisions read by translate/c13_decisions.py)'] = lib.sha(
                (lib.REPO / f).read_text())
        except OSError:
            pass
    return d, probe


def validate_decisions_in_coq(ctx, probe):
    """the GENERATED definitions evaluated inside Coq against the running code:
    `first_order_src` on every type name, `src_dispatch` row by row"""
    if 'unavailable' in probe:
        return None
    txt = ('From Coq Require Import ZArith String List.\nImport ListNotations.\n'
           'From FV.C13 Require Import Model PropsGen.\nFrom FV.C13.gen Require Import Decisions.\n'
           'Open Scope string_scope.\nSet Printing Width 100000.\n'
           'Goal True. idtac "@@ fo". Abort.\n'
           'Eval vm_compute in map (fun t => match first_order_src t (zseq 25) with '
           'Some l => Z.of_nat (length l) | None => (-1)%Z end) src_ELEMENT_TYPES.\n'
           'Goal True. idtac "@@ types". Abort.\nEval vm_compute in src_ELEMENT_TYPES.\n'
           'Goal True. idtac "@@ disp". Abort.\nEval vm_compute in src_dispatch.\n')
    rc, o, err = ctx.coq_eval('decisions_validation', txt, timeout=300)
    if rc != 0:
        return 'in-Coq evaluation failed: ' + err[-200:]
    parts = lib.parse_marked(o)
    fo = [int(x) for x in re.findall(r'-?\d+', parts.get('fo', '').split(': list')[0])]
    types = re.findall(r'"([^"]*)"', parts.get('types', ''))
    disp = [(f, a == 'true', b_ == 'true', c == 'true') for f, a, b_, c in
            re.findall(r'\("([^"]*)",\s*(true|false),\s*(true|false),\s*(true|false)\)',
                       parts.get('disp', ''))]
    want_fo = [(-1 if probe['first_order'].get(t) == 'raise' else probe['first_order'].get(t))
               for t in types]
    bad = []
    if len(fo) != len(types) or fo != want_fo:
        bad.append('first_order')
    if sorted(disp) != sorted(tuple(x) for x in probe['dispatch']):
        bad.append('dispatch')
    return ('generated definitions evaluated in Coq agree with the running code '
            f'({len(types)} type names, {len(disp)} dispatch rows)') if not bad else \
        'generated definitions evaluated in Coq DISAGREE with the running code on ' + ', '.join(bad)


def load_corpus():
    d = lib.VERIF / 'corpus' / PID
    out = []
    if d.exists():
        for f in sorted(d.glob('*.json')):
            j = json.loads(f.read_text())
            out.append({'mesh': j['mesh'], 'queries': j['queries'], 'corpus': f.name})
    return out


def main(ctx):
    ctx.rule = ('lattice meshes (tri, quad, tri+quad, tet, hex, hex+tet+prism+pyr, tet2, hex2, '
                'second-order mixed), 1-3 components, 0-2 unreferenced nodes, ids 1..n / sparse / '
                '>2^31, node and element storage order shuffled, block insertion order shuffled; '
                'per mesh ~20 queries (incidence, adjacency x2, n-hop 1..4 with/without self loop, '
                'laplacian, edge gradient, e2v; both order1_only values); hub meshes (star of '
                'lines, polar cap, tets around an edge, mixed cap) with a vertex of degree / a node '
                'pair of multiplicity beyond 2^7, 2^8 (oracle + in-Coq operators on the '
                'implementation\'s adjacency) and 2^15, 2^16 (nodal, oracle only); one case = one '
                '(mesh, query); non-trivial = the implementation returned a matrix with at least '
                'one entry; distinct = distinct (mesh, query)')
    ctx.trusted += [
        'translate/c13_decisions.py (ast reader of the mode/order1_only dispatch and of the '
        'first-order table -> coq/C13/gen/Decisions.v; validated on every run against the '
        'decisions observed on the running code, in Python and by in-Coq evaluation)',
        'hand model coq/C13/Model.v of graph_processor.py (tie H), pinned by the correspondence',
        'harness/c13_impl.py: scipy.sparse -> summed, zero-free, sorted COO triples; '
        'edge-gradient rows sorted (scipy CSR product order inside a row is not modelled)',
        'scipy.sparse semantics assumed by the model: bool products are or/and, results store no '
        'explicit zeros, CSR->COO is row-major (pinned by the correspondence only)',
        'harness/c13.py oracle (the property in Python, exact integers) is a search aid, not proof',
        'meshes with more than 60 nodes/elements: the first stage (mesh -> adjacency) is held '
        'against the Python oracle only; the following operators are evaluated in Coq on the '
        'implementation\'s adjacency (C13_stagewise_factor proves the model is this composition)',
    ]
    ctx.assumptions += ['queries on a freshly built FEMData, plus a same-object stream (query '
                        'sequences on one unmodified object must give the same answers); cache '
                        'staleness after mesh modification is C19',
                        'node ids distinct, element ids distinct over all blocks, block keys in '
                        'ELEMENT_TYPES (wf_mesh); duplicate ids are outside the model']
    ctx.scratch = ctx.scratch / f'run_{os.getpid()}'     # concurrent runs do not collide
    ctx.scratch.mkdir(parents=True, exist_ok=True)
    decisions, probe = translate_decisions(ctx)
    proof_ok, log = ctx.build_props('C13/Props.v')
    if not proof_ok:
        ctx.notes['build_log_tail'] = log[-1500:]
    gen_ok, glog = ctx.build_props('C13/PropsGen.v')
    if gen_ok:
        ctx.notes['decisions_in_coq_validation'] = validate_decisions_in_coq(ctx, probe)
    else:
        ctx.notes['gen_build_log_tail'] = glog[-1200:]
    model_ok = True
    if not proof_ok:
        model_ok, mlog, _ = lib.coq_make(['C13/Model.vo'])

    cases = []
    for c in load_corpus():
        c['id'] = len(cases)
        c['mesh'].setdefault('tags', {'kind': 'corpus'})
        cases.append(c)
    n_corpus = len(cases)
    for c in gen_cases(ctx):
        c['id'] = len(cases)
        cases.append(c)
    ev = evaluate(ctx, cases, 'corr')
    types, results, oracle_fail, corr = ev
    if types != MODEL_TYPES:
        ctx.violation('tie-broken', {'ELEMENT_TYPES': types}, MODEL_TYPES, types,
                      'Model.ELEMENT_TYPES', found_input=False,
                      signature={'kind': 'tie-broken', 'what': 'ELEMENT_TYPES'})
    nq = 0
    for c in cases:
        tg = c['mesh'].get('tags', {})
        ctx.count('mesh_kind:' + str(tg.get('kind')))
        ctx.count('ids:' + str(tg.get('ids')))
        ctx.count('n_types:' + str(len(c['mesh']['blocks'])))
        ctx.count('components:' + str(tg.get('components')))
        ctx.count('unreferenced_nodes:' + str(tg.get('unref')))
        ctx.count('collapsed_element(repeated node in a row):' + str(bool(tg.get('degenerate'))))
        ctx.count('object:' + ('one-shared-for-the-sequence' if c.get('shared') else 'fresh-per-query'))
        ctx.count('node_order:' + str(tg.get('node_order')))
        ctx.count('elem_order:' + str(tg.get('elem_order')))
        if c.get('stagewise'):
            ctx.count('tie:property oracle + stage-wise in-Coq operators (mesh too large for '
                      'the in-Coq first stage)')
        elif c.get('oracle_only'):
            ctx.count('tie:oracle-only (too large for in-Coq evaluation)')
        if tg.get('hub_elements'):
            he = tg['hub_elements']
            ctx.count('hub_degree:>=' + ('2^16' if he > 2 ** 16 else '2^15' if he > 2 ** 15 else
                                         '2^8' if he > 2 ** 8 else '2^7'))
        if tg.get('malformed'):
            ctx.count('malformed:' + tg['malformed'])
        if c.get('history'):
            ctx.count('object:history-with-in-place-modifications')
        for qi, (q, r) in enumerate(zip(c['queries'], results[c['id']])):
            if q['kind'] == 'mod':
                ctx.count('modification:' + q['op'] + (':' + q['how'] if 'how' in q else ''))
                continue
            nq += 1
            ctx.count('query:' + q['kind'])
            if q['kind'] == 'hop':
                ctx.count('hops:' + ('1-4' if q['n'] <= 4 else '5-12' if q['n'] <= 12 else '13-64'))
            if q.get('flag_style'):
                ctx.count('flag_style:' + q['flag_style'])
            ctx.count('impl:' + ('raised ' + r['exc'] if 'exc' in r else 'matrix'))
            ctx.case([describe(mesh_at(c, qi)), strip(q), qi if c.get('shared') else 0],
                     nontrivial=bool(r.get('triples')),
                     sample={'mesh': describe(mesh_at(c, qi)), 'query': strip(q),
                             'impl': {k: r.get(k) for k in ('shape', 'triples', 'exc')}}
                     if len(c['mesh']['nodes']) <= 8 else None)
    n_oracle, n_corr = report(ctx, cases, ev)
    ctx.corr = {'cases': nq, 'meshes': len(cases), 'corpus_meshes': n_corpus,
                'disagreements': n_corr}
    ctx.notes['search_evaluations'] = nq
    ctx.notes['impl_property_failures'] = n_oracle
    if not proof_ok and n_oracle == 0 and n_corr == 0:
        bad = [o['name'] for o in ctx.obligations if not o['discharged']]
        ctx.violation('proof-broken', {}, 'all theorems of C13/Props.v check', 'do not check',
                      ', '.join(bad), found_input=False, signature={'kind': 'proof-broken'})
    if not gen_ok and proof_ok and n_oracle == 0 and n_corr == 0:
        # the source was read (or the baseline used) and the decisions are NOT the
        # modelled ones, yet no stream found a failing input
        bad = [o['name'] for o in ctx.obligations if not o['discharged']]
        ctx.violation('tie-broken', {'decisions': decisions}, 'the translated decisions are the '
                      'modelled ones (C13/PropsGen.v checks)', 'PropsGen.v does not check',
                      ', '.join(bad), found_input=False,
                      signature={'kind': 'tie-broken', 'what': 'decisions'})
    ctx.notes['model_variants'] = dict(VARIANT)
    rc = ctx.finish()
    shutil.rmtree(ctx.scratch, ignore_errors=True)
    return rc


def replay(path):
    rp = json.loads(Path(path).read_text())
    c = rp['case']
    ctx = lib.Ctx(PID, 'quick')
    ctx.scratch = ctx.scratch / f'replay_{os.getpid()}'
    ctx.scratch.mkdir(parents=True, exist_ok=True)
    if 'mesh' not in c or 'query' not in c:
        print('nothing to replay on the implementation:', json.dumps(rp, indent=1)[:2000])
        return 1
    mesh = {'nodes': [[n, 0, 0, 0] for n in c['mesh']['nodes']], 'blocks': c['mesh']['blocks'],
            'tags': {'kind': 'replay'}}
    pre = c.get('earlier_queries_on_the_same_object', []) if c.get('shared_object') else []
    k = len(pre)
    tail = [c['query'], {'kind': 'inc', 'order1': False}]
    key = stage_adj_key(c['query']) if c['query']['kind'] not in ('inc', 'adj', 'mod') else None
    if key is not None and is_big(mesh) and not pre:
        # the stage-wise check needs the adjacency matrix the operator is built on
        tail.append({'kind': 'adj', 'nodal': key[0], 'order1': key[1], 'via': 'direct'})
    meshes, steps = rebuild_history(mesh, pre + tail)
    for m in meshes[1:]:
        m['tags'] = {'kind': 'replay'}
    case = {'id': 0, 'mesh': mesh, 'meshes': meshes, 'shared': bool(c.get('shared_object')),
            'queries': steps}
    lib.coq_make(['C13/Model.vo'])
    types, results, oracle_fail, corr = evaluate(ctx, [case], 'replay')
    print('implementation:', json.dumps(results[0][k]))
    print('property oracle:', oracle_fail[0] or 'holds')
    print('model agrees with implementation:', corr[0] == [] if corr[0] is not None else 'coq failed')
    bad = any(qi == k for qi, _ in oracle_fail[0]) or (corr[0] is None or k in corr[0])
    print('property/correspondence', 'VIOLATED' if bad else 'holds', 'on this input')
    return 1 if bad else 0


if __name__ == '__main__':
    if len(sys.argv) > 2 and sys.argv[1] == 'replay':
        sys.exit(replay(sys.argv[2]))
    tier = sys.argv[1] if len(sys.argv) > 1 else 'quick'
    sys.exit(main(lib.Ctx(PID, tier)))
