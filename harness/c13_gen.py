"""Mesh generators for C13/C14 (independent of femio's own generators).

A mesh is a dict
  {'nodes': [[id, x, y, z], ...]  (storage order),
   'blocks': [[type, [[eid, [node ids...]], ...]], ...]  (dict insertion order),
   'tags': [...]}
Coordinates are small integers (lattice, doubled so that cell centres are
integral); element node orderings follow the FrontISTR/femio conventions with
positive orientation (hex: (p1-p0)x(p3-p0).(p4-p0) > 0; tet:
(p1-p0)x(p2-p0).(p3-p0) > 0).
Every random choice comes from the `rng` handed in.
"""
import itertools

ARITY = {'tri': 3, 'quad': 4, 'tet': 4, 'tet2': 10, 'pyr': 5, 'prism': 6, 'hex': 8, 'hex2': 20,
         'line': 2}

# Kuhn subdivision of the unit cube into 6 positively oriented tets
# (cube corners indexed by (i,j,k) bits; path 000 -> +a -> +b -> 111)
_CORNER = {(0, 0, 0): 0, (1, 0, 0): 1, (1, 1, 0): 2, (0, 1, 0): 3,
           (0, 0, 1): 4, (1, 0, 1): 5, (1, 1, 1): 6, (0, 1, 1): 7}


def _det3(a, b, c):
    return (a[0] * (b[1] * c[2] - b[2] * c[1]) - a[1] * (b[0] * c[2] - b[2] * c[0])
            + a[2] * (b[0] * c[1] - b[1] * c[0]))


def _sub(a, b):
    return (a[0] - b[0], a[1] - b[1], a[2] - b[2])


def _kuhn():
    tets = []
    for perm in itertools.permutations(range(3)):
        p = [0, 0, 0]
        path = [tuple(p)]
        for ax in perm:
            p[ax] = 1
            path.append(tuple(p))
        a, b, c, d = path
        if _det3(_sub(b, a), _sub(c, a), _sub(d, a)) < 0:
            path = [a, c, b, d]
        tets.append([_CORNER[q] for q in path])
    return tets


KUHN = _kuhn()
TET_EDGES = [(0, 1), (1, 2), (0, 2), (0, 3), (1, 3), (2, 3)]
HEX_EDGES = [(0, 1), (1, 2), (2, 3), (3, 0), (4, 5), (5, 6), (6, 7), (7, 4),
             (0, 4), (1, 5), (2, 6), (3, 7)]


class Builder:
    """collects nodes by integer coordinate (doubled lattice) and cells"""

    def __init__(self):
        self.coord2n = {}
        self.coords = []
        self.cells = []          # (type, [node numbers])

    def node(self, xyz):
        xyz = tuple(int(v) for v in xyz)
        if xyz not in self.coord2n:
            self.coord2n[xyz] = len(self.coords)
            self.coords.append(xyz)
        return self.coord2n[xyz]

    def cell(self, t, ns):
        assert len(ns) == ARITY[t], (t, ns)
        self.cells.append((t, list(ns)))

    def compact(self):
        """drop nodes no cell uses"""
        used = sorted(set(n for _, ns in self.cells for n in ns))
        new = {n: i for i, n in enumerate(used)}
        self.coords = [self.coords[n] for n in used]
        self.coord2n = {c: i for i, c in enumerate(self.coords)}
        self.cells = [(t, [new[n] for n in ns]) for t, ns in self.cells]


def grid2d(b, rng, nx, ny, kind, origin=(0, 0, 0)):
    ox, oy, oz = origin
    for i in range(nx):
        for j in range(ny):
            c = [b.node((ox + 2 * (i + di), oy + 2 * (j + dj), oz)) for di, dj in
                 ((0, 0), (1, 0), (1, 1), (0, 1))]
            k = kind if kind != 'mixed2d' else rng.choice(['tri', 'quad'])
            if k == 'quad':
                b.cell('quad', c)
            else:
                if rng.random() < 0.5:
                    b.cell('tri', [c[0], c[1], c[2]])
                    b.cell('tri', [c[0], c[2], c[3]])
                else:
                    b.cell('tri', [c[0], c[1], c[3]])
                    b.cell('tri', [c[1], c[2], c[3]])


def grid3d(b, rng, nx, ny, nz, kind, origin=(0, 0, 0)):
    ox, oy, oz = origin
    for i in range(nx):
        for j in range(ny):
            for k in range(nz):
                def P(di, dj, dk):
                    return b.node((ox + 2 * (i + di), oy + 2 * (j + dj), oz + 2 * (k + dk)))
                c = [P(*q) for q in sorted(_CORNER, key=_CORNER.get)]
                kk = kind
                if kind == 'mixed3d':
                    kk = rng.choice(['hex', 'tet', 'prism', 'pyr'])
                elif kind == 'mixed3dv':       # only types with a femio volume kernel
                    kk = rng.choice(['hex', 'tet', 'prism'])
                if kk == 'hex':
                    b.cell('hex', c)
                elif kk == 'tet':
                    for t in KUHN:
                        b.cell('tet', [c[q] for q in t])
                elif kk == 'prism':
                    # femio/FrontISTR orientation: (p1-p0)x(p2-p0) points away from 3-5
                    b.cell('prism', [c[0], c[2], c[1], c[4], c[6], c[5]])
                    b.cell('prism', [c[0], c[3], c[2], c[4], c[7], c[6]])
                elif kk == 'pyr':
                    ctr = b.node((ox + 2 * i + 1, oy + 2 * j + 1, oz + 2 * k + 1))
                    # six pyramids, base seen from the centre is counter-clockwise?
                    # femio/FrontISTR: base 0-3 with apex on the positive side
                    for f in ([0, 3, 2, 1], [4, 5, 6, 7], [0, 1, 5, 4], [1, 2, 6, 5],
                              [2, 3, 7, 6], [3, 0, 4, 7]):
                        b.cell('pyr', [c[q] for q in f] + [ctr])


def to_second_order(b, rng, prob=1.0):
    """tet -> tet2, hex -> hex2 by inserting mid-edge nodes (coordinates are
    doubled lattice points, so mid points are integral); with prob < 1 only
    some cells are converted, so tet+tet2 / hex+hex2 coexist"""
    new = []
    for t, ns in b.cells:
        if t in ('tet', 'hex') and rng.random() < prob:
            edges = TET_EDGES if t == 'tet' else HEX_EDGES
            mids = []
            for a, c in edges:
                pa, pc = b.coords[ns[a]], b.coords[ns[c]]
                mids.append(b.node(tuple((u + v) // 2 for u, v in zip(pa, pc))))
            new.append((t + '2', ns + mids))
        else:
            new.append((t, ns))
    b.cells = new


ORDERS = ['shuffled', 'shuffled', 'shuffled', 'sorted', 'ends-fixed', 'swap2', 'move1', 'reversed']


def arrange(rng, seq, mode):
    """storage order of a list given in ascending-id order"""
    seq = list(seq)
    n = len(seq)
    if mode == 'shuffled':
        rng.shuffle(seq)
    elif mode == 'reversed':
        seq.reverse()
    elif mode == 'ends-fixed' and n > 3:      # first and last in place, interior shuffled
        mid = seq[1:-1]
        rng.shuffle(mid)
        seq = [seq[0]] + mid + [seq[-1]]
    elif mode == 'swap2' and n > 1:           # two neighbours swapped
        k = rng.randrange(n - 1)
        seq[k], seq[k + 1] = seq[k + 1], seq[k]
    elif mode == 'move1' and n > 2:           # one id moved elsewhere
        x = seq.pop(rng.randrange(n))
        seq.insert(rng.randrange(n), x)
    return seq


def label(b, rng, id_mode, shuffle_nodes=True, shuffle_elems=True, n_unref=0, block_order=None,
          node_order=None, elem_order=None, unref_at=None):
    """assign ids and storage orders -> mesh dict.
    id modes: seq (1..n), dense-offset (a..a+n-1), sparse, large (>= 2^31);
    storage orders: see ORDERS (relative to ascending id); unreferenced nodes get
    the smallest / middle / largest ids of a dense numbering (unref_at)."""
    n_ref = len(b.coords)
    for u in range(n_unref):
        b.node((1000 + 2 * u, 999, 777))
    n = len(b.coords)
    node_order = node_order or ('shuffled' if shuffle_nodes else 'sorted')
    elem_order = elem_order or ('shuffled' if shuffle_elems else 'sorted')
    if id_mode in ('seq', 'dense-offset'):
        a = 1 if id_mode == 'seq' else rng.choice([0, 2, 1000, 10 ** 6 + 1])
        idx = list(range(n_ref))
        un = list(range(n_ref, n))
        pos = {'first': 0, 'middle': n_ref // 2}.get(unref_at, n_ref)
        idx = idx[:pos] + un + idx[pos:]
        nid = [None] * n
        for k, q in enumerate(idx):
            nid[q] = a + k
    elif id_mode == 'sparse':
        nid = rng.sample(range(1, 20 * n + 50), n)
    else:  # large
        base = 2 ** 31 + rng.randrange(10 ** 6)
        nid = [base + v for v in rng.sample(range(0, 50 * n + 50), n)]
    order = arrange(rng, sorted(range(n), key=lambda q: nid[q]), node_order)
    nodes = [[nid[q]] + list(b.coords[q]) for q in order]
    ne = len(b.cells)
    if id_mode in ('seq', 'dense-offset'):
        a = 1 if id_mode == 'seq' else rng.choice([0, 5, 1000, 10 ** 6 + 1])
        eid = list(range(a, a + ne))
        if elem_order == 'shuffled':
            rng.shuffle(eid)      # ids are a permutation, scattered over the types
    elif id_mode == 'sparse':
        eid = rng.sample(range(1, 20 * ne + 50), ne)
    else:
        base = 2 ** 31 + rng.randrange(10 ** 6)
        eid = [base + v for v in rng.sample(range(0, 50 * ne + 50), ne)]
    blocks = {}
    for (t, ns), e in zip(b.cells, eid):
        blocks.setdefault(t, []).append([e, [nid[q] for q in ns]])
    keys = list(blocks)
    if block_order == 'shuffled':
        rng.shuffle(keys)
    out = []
    for t in keys:
        out.append([t, arrange(rng, sorted(blocks[t]), elem_order)])
    return {'nodes': nodes, 'blocks': out}


KINDS = ['tri', 'quad', 'mixed2d', 'tet', 'hex', 'mixed3d', 'tet2', 'hex2', 'mixed3d2',
         'prism', 'pyr']
# connectivity-only kinds (geometry is NOT consistent: graph matrices only):
# second-order elements that touch only at a mid-side node, and a first-order
# element hanging on a second-order edge
NONCONFORMING = ['nonconf_tet2', 'nonconf_hex2', 'hanging']


def gen_nonconforming(rng, kind):
    b = Builder()
    base = 'hex' if kind == 'nonconf_hex2' else 'tet'
    ncomp = 2 if base == 'hex' else rng.choice([2, 3])
    for comp in range(ncomp):
        n0 = len(b.cells)
        if kind == 'hanging' and comp == ncomp - 1:
            grid3d(b, rng, 1, 1, 1, rng.choice(['tet', 'hex']), (40 * comp, 0, 0))
        else:
            grid3d(b, rng, 1, 1, 1, base, (40 * comp, 0, 0))
        # keep the meshes small: one or two tets of the six per cell
        if len(b.cells) - n0 > 2:
            keep = rng.sample(range(n0, len(b.cells)), rng.randint(1, 2))
            b.cells = b.cells[:n0] + [b.cells[i] for i in sorted(keep)]
    b.compact()
    n_first = None
    if kind == 'hanging':
        # only the cells of the last component stay first order
        last = [i for i, (t, ns) in enumerate(b.cells)
                if all(b.coords[n][0] >= 40 * (ncomp - 1) for n in ns)]
        keep = set(last)
        cells = list(b.cells)
        b.cells = [c for i, c in enumerate(cells) if i not in keep]
        to_second_order(b, rng, 1.0)
        b.cells += [cells[i] for i in sorted(keep)]
    else:
        to_second_order(b, rng, 1.0)
    # components (by x range) and one glue step between consecutive ones:
    # identify a mid-side node of one with a mid-side node (or, for a
    # first-order cell, a corner) of the next -> they touch ONLY there
    def comp_of(cell):
        return b.coords[cell[1][0]][0] // 40
    ncorner = {'tet2': 4, 'hex2': 8}
    for comp in range(ncomp - 1):
        A = [c for c in b.cells if comp_of(c) == comp and c[0] in ncorner]
        B = [c for c in b.cells if comp_of(c) == comp + 1]
        if not A or not B:
            continue
        ca = rng.choice(A)
        a = rng.choice(ca[1][ncorner[ca[0]]:])
        cb = rng.choice(B)
        if cb[0] in ncorner:
            x = rng.choice(cb[1][ncorner[cb[0]]:])
        else:
            x = rng.choice(cb[1])
        for c in b.cells:
            if comp_of(c) == comp + 1:
                c[1][:] = [a if n == x else n for n in c[1]]
    return b




def gen_mesh(rng, kind=None, max_nodes=26, id_mode=None, components=None, n_unref=None):
    kind = kind or rng.choice(KINDS + ['mixed2d', 'mixed3d', 'mixed3d', 'mixed3d2'])
    id_mode = id_mode or rng.choice(['seq', 'seq', 'dense-offset', 'sparse', 'sparse', 'large'])
    node_order = rng.choice(ORDERS)
    elem_order = rng.choice(ORDERS)
    unref_at = rng.choice(['first', 'middle', 'last'])
    components = components if components is not None else rng.choice([1, 1, 1, 2, 3])
    if n_unref is None:
        n_unref = rng.choice([0, 0, 0, 1, 2])
    if kind in NONCONFORMING:
        b = gen_nonconforming(rng, kind)
        m = label(b, rng, id_mode, n_unref=0, block_order=rng.choice(['first-seen', 'shuffled']),
                  node_order=node_order, elem_order=elem_order)
        m['tags'] = {'kind': kind, 'ids': id_mode, 'components': 1, 'unref': 'glued-away',
                     'node_order': node_order, 'elem_order': elem_order,
                     'n_types': len(m['blocks'])}
        return m
    for _ in range(200):
        b = Builder()
        for comp in range(components):
            org = (20 * comp, 6 * comp, 0)
            lo = 2 if kind.startswith('mixed') and comp == 0 else 1
            if kind in ('prism', 'pyr'):
                lo = 1
            if kind in ('tri', 'quad', 'mixed2d'):
                grid2d(b, rng, rng.randint(lo, 3), rng.randint(1, 2), kind, org)
            else:
                base = {'tet': 'tet', 'hex': 'hex', 'mixed3d': 'mixed3d', 'tet2': 'tet',
                        'hex2': 'hex', 'mixed3d2': 'mixed3d', 'mixed3dv': 'mixed3dv',
                        'prism': 'prism', 'pyr': 'pyr'}[kind]
                grid3d(b, rng, rng.randint(lo, 2), rng.randint(1, 2), 1, base, org)
        if kind in ('tet2', 'hex2', 'mixed3d2'):
            to_second_order(b, rng, rng.choice([1.0, 1.0, 0.5]) if kind != 'mixed3d2' else
                            rng.choice([1.0, 0.5, 0.5]))
        if len(b.coords) + n_unref <= max_nodes:
            break
    else:
        b = Builder()
        if kind in ('tri', 'quad', 'mixed2d'):
            grid2d(b, rng, 1, 1, kind)
        else:
            grid3d(b, rng, 1, 1, 1, {'tet2': 'tet', 'hex2': 'hex', 'mixed3d2': 'mixed3d'}.get(kind, kind))
            if kind in ('tet2', 'hex2', 'mixed3d2'):
                to_second_order(b, rng)
    m = label(b, rng, id_mode, n_unref=n_unref, block_order=rng.choice(['first-seen', 'shuffled']),
              node_order=node_order, elem_order=elem_order, unref_at=unref_at)
    m['tags'] = {'kind': kind, 'ids': id_mode, 'components': components, 'unref': n_unref,
                 'node_order': node_order, 'elem_order': elem_order, 'unref_at': unref_at,
                 'n_types': len(m['blocks'])}
    return m


# ---------------------------------------------------------------- hub meshes
# Magnitude dimension: vertices of high degree / node pairs shared by many
# elements (pole of a lat-long sphere, apex of a cone, hub of a star of beams,
# fan of tets around an edge).  Degrees and multiplicities cross the widths of
# the narrow integer dtypes (2^7, 2^8, 2^15, 2^16).  Connectivity only: the
# coordinates are distinct lattice points, NOT a consistent geometry.
HUBS = ['star-line', 'cap-tri', 'fan-tet', 'cap-mixed']


def gen_hub(rng, kind, n, id_mode=None, closed=None, n_unref=None):
    """n elements around one hub vertex.
    star-line: n `line` elements hub-leaf (hub degree n; elemental graph complete)
    cap-tri:   polar cap, n triangles pole-ring (pole degree n, every pole-ring
               pair shared by two triangles)
    fan-tet:   n tets around the edge a-b (the pair a,b is shared by n tets)
    cap-mixed: polar cap of triangles and quads plus `line` spokes (several
               types, ids scattered over the types)"""
    b = Builder()
    closed = rng.random() < 0.7 if closed is None else closed

    def P(k, row=0):
        return b.node((2 * k, 2 * row, 0))
    if kind == 'star-line':
        hub = P(0, 1)
        for k in range(n):
            leaf = P(k, 0)
            b.cells.append(('line', [hub, leaf] if rng.random() < 0.5 else [leaf, hub]))
    elif kind == 'cap-tri':
        pole = P(0, 1)
        ring = [P(k, 0) for k in range(n if closed else n + 1)]
        for k in range(n):
            c = [pole, ring[k], ring[(k + 1) % len(ring)]]
            r = rng.randrange(3)
            b.cells.append(('tri', c[r:] + c[:r]))
    elif kind == 'fan-tet':
        a, a2 = P(0, 1), P(1, 1)
        ring = [P(k, 0) for k in range(n if closed else n + 1)]
        for k in range(n):
            c = [a, a2, ring[k], ring[(k + 1) % len(ring)]]
            r = rng.randrange(4)
            b.cells.append(('tet', c[r:] + c[:r]))
    elif kind == 'cap-mixed':
        pole = P(0, 1)
        k = 0
        ring = [P(0, 0)]
        while len(b.cells) < n:
            t = rng.choice(['tri', 'tri', 'quad', 'line'])
            if t == 'line':
                b.cells.append(('line', [pole, ring[-1]]))
            elif t == 'tri':
                k += 1
                ring.append(P(k, 0))
                b.cells.append(('tri', [pole, ring[-2], ring[-1]]))
            else:
                k += 2
                ring += [P(k - 1, 0), P(k, 0)]
                b.cells.append(('quad', [pole, ring[-3], ring[-2], ring[-1]]))
    else:
        raise AssertionError(kind)
    id_mode = id_mode or rng.choice(['seq', 'dense-offset', 'sparse', 'large'])
    node_order = rng.choice(ORDERS)
    elem_order = rng.choice(ORDERS)
    if n_unref is None:
        n_unref = rng.choice([0, 0, 1])
    m = label(b, rng, id_mode, n_unref=n_unref, block_order=rng.choice(['first-seen', 'shuffled']),
              node_order=node_order, elem_order=elem_order,
              unref_at=rng.choice(['first', 'middle', 'last']))
    m['tags'] = {'kind': 'hub-' + kind, 'ids': id_mode, 'components': 1, 'unref': n_unref,
                 'node_order': node_order, 'elem_order': elem_order, 'n_types': len(m['blocks']),
                 'hub_elements': n}
    return m


def mesh_to_coq(m, lib):
    nodes = lib.coq_list([lib.coq_Z(r[0]) for r in m['nodes']])
    blocks = lib.coq_list([
        '(' + lib.coq_str(t) + ', ' + lib.coq_list([
            '(' + lib.coq_Z(e) + ', ' + lib.coq_list([lib.coq_Z(x) for x in c]) + ')'
            for e, c in rows]) + ')'
        for t, rows in m['blocks']])
    return f'(mkmesh {nodes} {blocks})'
