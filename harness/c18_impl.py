"""Child process of harness/c18.py: runs to_polyhedron / resolve_degeneracy /
make_elements_positive of femio on the tasks on stdin (JSON); results go to the
file named in the spec.  Floats as float.hex()."""
import contextlib
import io
import json
import sys

import numpy as np


def fhex(x):
    return float(x).hex()


def build(mesh):
    from femio import FEMData, FEMAttribute, FEMElementalAttribute
    nodes = FEMAttribute('NODE', np.array(mesh['node_ids'], dtype=np.int64),
                         np.array(mesh['coords'], dtype=getattr(np, mesh.get('coord_dtype', 'float64'))))
    blocks = {}
    for ty, eids, conn in mesh['blocks']:
        blocks[ty] = FEMAttribute(ty, np.array(eids, dtype=np.int64), np.array(conn, dtype=np.int64))
    return FEMData(nodes=nodes, elements=FEMElementalAttribute('ELEMENT', blocks))


def vols(mesh_or_fd, mode, **kw):
    fd = build(mesh_or_fd) if isinstance(mesh_or_fd, dict) else mesh_or_fd
    try:
        v = fd.calculate_element_volumes(mode=mode, raise_negative_volume=False, **kw)
        return {'ids': [int(i) for i in fd.elements.ids], 'values': [fhex(x) for x in np.asarray(v)[:, 0]]}
    except Exception as ex:   # noqa
        return {'error': type(ex).__name__ + ': ' + str(ex)[:200]}


def blocks_of(fd):
    return [[t, [int(i) for i in a.ids], [[int(x) for x in row] for row in a.data]]
            for t, a in fd.elements.items()]


def run_task(t):
    kind = t['kind']
    mesh = t['mesh']
    if kind == 'poly':
        fd = build(mesh)
        try:
            p = fd.to_polyhedron()
        except (NotImplementedError, ValueError, IndexError) as ex:
            return {'error': type(ex).__name__, 'msg': str(ex)[:200]}
        faces = p.elemental_data['face']['polyhedron'].data
        res = {'ids': [int(i) for i in fd.elements.ids], 'types': [str(x) for x in fd.elements.types],
               'data': [[int(x) for x in row] for row in fd.elements.data],
               'poly_ids': [int(i) for i in p.elements.ids],
               'poly_type': str(p.elements.element_type),
               'poly_data': [[int(x) for x in row] for row in p.elements.data],
               'faces': [[int(x) for x in f] for f in faces],
               'node_ids_after': [int(i) for i in p.nodes.ids]}
        for mode in ('linear', 'centroid'):
            q = build(mesh).to_polyhedron()
            res['poly_vol_' + mode] = vols(q, mode)
            res['elem_vol_' + mode] = vols(mesh, mode)
        return res
    if kind == 'degen':
        fd = build(mesh)
        res = {'before_centroid': vols(mesh, 'centroid'), 'before_linear': vols(mesh, 'linear'),
               'before_blocks': blocks_of(fd)}
        try:
            r = fd.resolve_degeneracy()
        except ValueError as ex:
            res['error'] = 'ValueError'
            res['msg'] = str(ex)[:200]
            return res
        res['after_blocks'] = blocks_of(r)
        # the returned object itself, freshly evaluated (no memo slots on it yet)
        res['result_obj_centroid'] = vols(r, 'centroid')
        r2 = build(mesh).resolve_degeneracy()
        try:
            mt = r2.calculate_element_metrics(raise_negative_metric=False)
            res['result_obj_metrics'] = {'ids': [int(i) for i in r2.elements.ids],
                                         'values': [fhex(x) for x in np.asarray(mt)[:, 0]]}
        except Exception as ex:   # noqa
            res['result_obj_metrics'] = {'error': type(ex).__name__ + ': ' + str(ex)[:200]}
        after_mesh = {'node_ids': [int(i) for i in r.nodes.ids],
                      'coords': [[float(x) for x in row] for row in r.nodes.data],
                      'blocks': res['after_blocks']}
        res['after_centroid'] = vols(after_mesh, 'centroid')
        res['after_linear'] = vols(after_mesh, 'linear')
        res['nodes_same'] = after_mesh['node_ids'] == mesh['node_ids']
        return res
    if kind == 'positive':
        fd = build(mesh)
        res = {'before': vols(mesh, 'linear')}
        try:
            fd.make_elements_positive()
        except (NotImplementedError, ValueError) as ex:
            res['error'] = type(ex).__name__
            return res
        res['after_blocks'] = blocks_of(fd)
        after_mesh = {'node_ids': mesh['node_ids'], 'coords': mesh['coords'],
                      'blocks': res['after_blocks']}
        res['after'] = vols(after_mesh, 'linear')
        # what the same object reports after the call (fresh evaluation expected),
        # with the very options make_elements_positive used internally and with others
        res['after_same_object'] = vols(fd, 'linear')
        res['after_same_object_centroid'] = vols(fd, 'centroid')
        try:
            mt = fd.calculate_element_metrics(raise_negative_metric=False)
            res['after_same_object_metrics'] = {'ids': [int(i) for i in fd.elements.ids],
                                                'values': [fhex(x) for x in np.asarray(mt)[:, 0]]}
        except Exception as ex:   # noqa
            res['after_same_object_metrics'] = {'error': type(ex).__name__ + ': ' + str(ex)[:200]}
        try:
            fd.calculate_element_metrics()          # default: raises on a negative element
            res['default_metrics_raises'] = False
        except ValueError:
            res['default_metrics_raises'] = True
        # idempotence: a second call must not change anything
        try:
            fd.make_elements_positive()
            res['after_second_blocks'] = blocks_of(fd)
            res['after_second'] = vols({'node_ids': mesh['node_ids'], 'coords': mesh['coords'],
                                        'blocks': res['after_second_blocks']}, 'linear')
        except (NotImplementedError, ValueError) as ex:
            res['second_error'] = type(ex).__name__
        return res
    if kind == 'history':
        # a sequence of queries / repairs on ONE object; every step is recorded
        fd = build(mesh)
        steps = []
        for op in t['ops']:
            try:
                if op[0] == 'metric':
                    v = fd.calculate_element_metrics(raise_negative_metric=op[1], return_abs_metric=op[2])
                    steps.append({'values': [fhex(x) for x in np.asarray(v)[:, 0]]})
                elif op[0] == 'volume':
                    v = fd.calculate_element_volumes(mode=op[1], raise_negative_volume=op[2],
                                                     return_abs_volume=op[3])
                    steps.append({'values': [fhex(x) for x in np.asarray(v)[:, 0]]})
                elif op[0] == 'positive':
                    fd.make_elements_positive()
                    steps.append({'done': blocks_of(fd)})
                else:
                    raise AssertionError(op)
            except (ValueError, NotImplementedError) as ex:
                steps.append({'raise': type(ex).__name__, 'msg': str(ex)[:120]})
        return {'steps': steps, 'final_blocks': blocks_of(fd),
                'node_ids_after': [int(i) for i in fd.nodes.ids]}
    raise AssertionError(kind)


def main():
    spec = json.loads(sys.stdin.read())
    out = []
    buf = io.StringIO()
    for t in spec['tasks']:
        with contextlib.redirect_stdout(buf):
            try:
                r = run_task(t)
            except Exception as ex:   # noqa
                import traceback
                r = {'crash': type(ex).__name__ + ': ' + str(ex)[:300],
                     'tb': traceback.format_exc()[-800:]}
        r['id'] = t['id']
        out.append(r)
    with open(spec['out'], 'w') as f:
        json.dump(out, f)


if __name__ == '__main__':
    main()
