"""C02 — FrontISTR result files: every value lands on its id, variable, step."""
import json
import re
import subprocess
import sys
from pathlib import Path

sys.path.insert(0, str(Path(__file__).resolve().parent))
sys.path.insert(0, str(Path(__file__).resolve().parent.parent / 'translate'))
import lib  # noqa
import c02_cfg  # noqa

PID = 'C02'
ARITY = {'tet': 4, 'hex': 8, 'prism': 6, 'tet2': 10}
BASE_NAMES = ['displacement', 'Displacement', 'disp', 'DISPLACEMENT_', 'DISP', 'DISPLACEMENT', 'REACTION_FORCE', 'NodalSTRESS', 'NodalSTRAIN', 'NodalMISES', 'TEMPERATURE',
              'ElementalSTRAIN', 'ElementalSTRESS', 'ElementalMISES', 'VELOCITY', 'x', 'E1', 'GaussSTRAINE2',
              'a_b', 'Q9', 'ContactNFORCE', '*Aux']


def tok(x):
    """canonical E-format token of a float64: the shortest %.{p}E that reads back exactly
    (FrontISTR itself prints %.16E; the reader does not depend on the precision)"""
    x = float(x)
    for p in (0, 1, 2, 3, 5, 8, 12, 16):
        s = '%.*E' % (p, x)
        if float(s) == x:
            return s
    return '%.16E' % x


# --------------------------------------------------------- S-layout in Python
# (mirror of Model.render_res; every rendered file is checked against the Coq
#  definition by vm_compute before it counts)
def wrap(w, l):
    return [l[i:i + w] for i in range(0, len(l), w)]


def py_render_section(lay, s):
    pad = lay['pad']
    out = [' '.join(str(x) for x in g) + pad for g in wrap(lay['wc'], [n for _, n in s['vars']])]
    out += [nm for nm, _ in s['vars']]
    for i, vals in s['rows']:
        out.append(str(i) + pad)
        ls = [' '.join(g) for g in wrap(lay['w'], vals)]
        if ls:
            ls[-1] += pad
        out += ls
    return out


def py_render(lay, c):
    el = c['elemental']
    counts = [f"{len(c['nodal']['rows'])} {len(el['rows']) if el else lay['nelem']}",
              f"{len(c['nodal']['vars'])} {len(el['vars']) if el else 0}"]
    if lay['header'] == 'old':
        hd = ['*fstrresult'] + counts
    else:
        hd = ['*fstrresult 2.0', '*comment', lay['comment'], '*global', '1', '1 ', 'TOTALTIME',
              lay['totaltime'] + ' ', '*data'] + counts
    return hd + py_render_section(lay, c['nodal']) + (py_render_section(lay, el) if el else [])


def cut(s):
    """per variable: {id: [tokens]}"""
    out, cum = [], 0
    for nm, n in s['vars']:
        out.append((nm, {i: v[cum:cum + n] for i, v in s['rows']}))
        cum += n
    return out


# ------------------------------------------------------------------ generator
def gen_ids(rng, n, mode):
    if mode == 'seq':
        return list(range(1, n + 1))
    if mode == 'offset':
        a = rng.choice([2, 100, 9999, 2 ** 31 - 3])
        return list(range(a, a + n))
    if mode == 'sparse':
        return rng.sample(range(1, 5000), n)
    return rng.sample(range(10 ** 6, 2 * 10 ** 9), n) if rng.random() < 0.7 else \
        rng.sample(range(2 ** 31, 2 ** 31 + 10 ** 6), n)


def store_order(rng, ids):
    """storage order of an id list: shuffled, or almost sorted (ends in place + interior shuffled,
    two neighbours swapped, one id moved, reversed, sorted)"""
    ids = list(ids)
    k = rng.choice(['shuffle', 'shuffle', 'sorted', 'reversed', 'swap', 'move', 'ends'])
    if k == 'shuffle' or len(ids) < 3:
        rng.shuffle(ids)
        return ids
    ids.sort()
    if k == 'reversed':
        ids.reverse()
    elif k == 'swap':
        i = rng.randrange(len(ids) - 1)
        ids[i], ids[i + 1] = ids[i + 1], ids[i]
    elif k == 'move':
        x = ids.pop(rng.randrange(len(ids)))
        ids.insert(rng.randrange(len(ids) + 1), x)
    elif k == 'ends':
        mid = ids[1:-1]
        rng.shuffle(mid)
        ids = [ids[0]] + mid + [ids[-1]]
    return ids


def gen_value(rng):
    k = rng.random()
    if k < 0.15:
        return rng.choice([0.0, -0.0, 1.0, -1.0, 1e-300, -1e300, 5e-324, 1.7976931348623157e308, 0.1])
    if k < 0.3:
        return rng.uniform(-1, 1) * 10 ** rng.randint(-12, 12)
    if k < 0.7:
        return float('%.2E' % (rng.uniform(-9, 9) * 10 ** rng.randint(-9, 9)))
    return float(rng.randint(-1000, 1000)) / rng.choice([1, 3, 7, 64])


def gen_section(rng, ids, names_used, kind):
    nv = rng.choice([1, 1, 2, 2, 3, 4, 6]) if kind == 'nodal' else rng.choice([1, 1, 2, 3, 4])
    vars_ = []
    for _ in range(nv):
        while True:
            nm = rng.choice(BASE_NAMES) + rng.choice(['', '', '_2', 'X', '0'])
            if nm not in names_used:
                names_used.add(nm)
                break
        # 1..30 components, with emphasis on the one/two-digit border
        vars_.append([nm, rng.choice([1, 1, 2, 3, 3, 6, 7, 9, 9, 10, 10, 11, 12, 12, 20, rng.randint(1, 30)])])
    while sum(n for _, n in vars_) * len(ids) > 400 and len(vars_) > 1:   # keep the Coq literals small
        vars_.pop(0)
    tot = sum(n for _, n in vars_)
    order = store_order(rng, ids)
    return {'vars': vars_, 'rows': [[i, [tok(gen_value(rng)) for _ in range(tot)]] for i in order]}


POW10 = [9, 10, 11, 99, 100, 101, 999, 1000, 9999, 10000, 10001, 99999, 100000, 999999, 1000000, 9999999]


def gen_steps(rng, n):
    """distinct step numbers from 0 .. 10^7: small ones, neighbours of powers of ten, and random
    numbers of every digit count, so that numeric and (padded / plain) lexicographic orders differ"""
    out = set()
    while len(out) < n:
        k = rng.random()
        if k < 0.3:
            out.add(rng.choice([0, 1, 2, 3, 5, 7, 20, 25, 250, 40000, 12345]))
        elif k < 0.65:
            out.add(rng.choice(POW10))
        else:
            out.add(rng.randrange(10 ** rng.randint(0, 6), 10 ** 7))
    out = list(out)
    rng.shuffle(out)
    return out


def gen_case(rng, cid, focus=()):
    """focus: regions the translator could not read on this tree (their decisions are then
    drawn more often: baseline model + widened correspondence)"""
    c = {'id': cid}
    nt = rng.choice([1, 1, 2, 2, 3]) if 'element_types' not in focus else rng.choice([2, 2, 3, 3, 4])
    types = rng.sample(list(ARITY), nt)
    counts = [rng.choice([1, 1, 2, 3]) for _ in types]
    need = max(ARITY[t] for t in types)
    nn = rng.choice([need, need + 1, need + 3])
    nids = store_order(rng, gen_ids(rng, nn, rng.choice(['seq', 'offset', 'sparse', 'sparse', 'large'])))
    eids = gen_ids(rng, sum(counts), rng.choice(['seq', 'offset', 'sparse', 'sparse', 'large']))
    rng.shuffle(eids)                      # interleaves the ids across the type blocks
    elems, k, cursor = [], 0, 0
    for t, cnt in zip(types, counts):
        conn = []
        for _ in range(cnt):
            row = []
            while len(row) < ARITY[t]:
                cand = nids[cursor % nn]
                cursor += 1
                if cand not in row:
                    row.append(cand)
            conn.append(row)
        elems.append({'type': t, 'ids': store_order(rng, eids[k:k + cnt]), 'conn': conn})
        k += cnt
    # every node must be referenced (femio drops unreferenced nodes before reading results)
    used = {x for b in elems for r in b['conn'] for x in r}
    nids = [i for i in nids if i in used]
    nn = len(nids)
    c['mesh'] = {'node_ids': nids, 'xyz': [[rng.uniform(-1, 1) for _ in range(3)] for _ in nids],
                 'elems': elems}
    c['layout'] = {'header': rng.choice(['old', '2.0']), 'comment': rng.choice(['static_result', 'x y', 'heat']),
                   'totaltime': tok(rng.choice([1.0, 0.5, 10.0])), 'pad': rng.choice(['', ' ', ' ', '  ']),
                   'nelem': len(eids),
                   'wc': rng.choice([1, 2, 3, 10, 10]), 'w': rng.choice([1, 2, 3, 5, 5, 5, 8])}
    c['time_series'] = rng.random() < (0.5 if not focus else 0.65)
    # how the flag is passed: falsy / truthy non-bool values must behave like False / True
    c['ts_arg'] = rng.choice(['True', 'True', '1', 'np.True_']) if c['time_series'] else \
        rng.choice(['False', 'False', 'None', '0', 'np.False_', 'omitted'])
    c['read_twice'] = rng.random() < 0.25      # the same query twice on the same directory
    nsteps = rng.choice([1, 2, 2, 3, 4, 6]) if c['time_series'] else rng.choice([1, 2, 3, 4])
    if 'series_single_ok' in focus and c['time_series'] and rng.random() < 0.4:
        nsteps = 1
    steps = gen_steps(rng, nsteps)
    # entry point: read_directory (sorts the files by step) or FEMData.read_files handed the files
    # in the (shuffled) order of c['files'] -- there nothing sorts: time_steps and every slice
    # must come in the order given
    c['entry'] = 'read_files' if c['time_series'] and rng.random() < (0.3 if not focus else 0.4) else 'read_directory'
    used_names = set()
    has_el = rng.random() < 0.75
    proto_n = gen_section(rng, nids, used_names, 'nodal')
    proto_e = gen_section(rng, eids, used_names, 'elemental') if has_el else None
    files = []
    for s in steps:
        def fresh(p, reorder=False):
            tot = sum(n for _, n in p['vars'])
            ids_ = [i for i, _ in p['rows']]
            if reorder:
                # elemental rows are re-bound by id (C02_elemental_ids_row_order_free): every step may
                # list them in its own order.  Nodal rows keep one order per directory (stated premise
                # of C02_series_rows_on_their_ids; FrontISTR writes the same order in every step)
                ids_ = store_order(rng, ids_)
            return {'vars': p['vars'], 'rows': [[i, [tok(gen_value(rng)) for _ in range(tot)]] for i in ids_]}
        content = {'nodal': fresh(proto_n),
                   'elemental': fresh(proto_e, reorder=rng.random() < 0.5) if proto_e else None}
        files.append({'step': s, 'content': content, 'lines': py_render(c['layout'], content)})
    c['files'] = files          # in this (shuffled) order
    return c


# ------------------------------------------------------------------- oracle
def expected_single(c, f, types):
    """{'nodal': {name: {id: toks}}, 'elemental': {name: {id: (type, toks)}}}"""
    tmap = {i: t for t, ids in types for i in ids}
    nd = {nm: d for nm, d in cut(f['content']['nodal'])}
    ed = {}
    if f['content']['elemental']:
        for nm, d in cut(f['content']['elemental']):
            ed[nm] = {i: (tmap.get(i), v) for i, v in d.items() if i in tmap}
    return {'nodal': nd, 'elemental': ed}


def oracle(c, r):
    """differences between what the files say and what femio returned"""
    types = r['types']
    files = sorted(c['files'], key=lambda f: f['step']) if c.get('entry', 'read_directory') == 'read_directory' \
        else list(c['files'])
    diffs = []
    if not c['time_series']:
        exp = expected_single(c, files[-1], types)
        obs_n = {k: {i: v for i, v in tb} for k, tb in r['nodal']}
        obs_e = {k: {i: (t, v) for t, tb in blocks for i, v in tb} for k, blocks in r['elemental']}
        for sec, e, o in (('nodal', exp['nodal'], obs_n), ('elemental', exp['elemental'], obs_e)):
            if list(e) != list(o):
                diffs.append((sec, 'names', list(e), list(o)))
            for k in e:
                if k in o and e[k] != o[k]:
                    bad = [i for i in e[k] if o[k].get(i) != e[k][i]]
                    diffs.append((sec, k, 'ids', bad[:5]))
    else:
        if r.get('time_steps') != [f['step'] for f in files]:
            diffs.append(('steps', r.get('time_steps'), [f['step'] for f in files]))
        exps = [expected_single(c, f, types) for f in files]
        for sec, key in (('nodal', 'nodal'), ('elemental', 'elemental')):
            names = list(exps[0][key])
            obs = {x[0]: x for x in r[sec]}
            if names != list(obs):
                diffs.append((sec, 'names', names, list(obs)))
            for nm in names:
                if nm not in obs:
                    continue
                x = obs[nm]
                ids, frames = (x[1], x[2]) if sec == 'nodal' else (x[2], x[3])
                if len(frames) != len(files):
                    diffs.append((sec, nm, 'n_frames', len(frames)))
                    continue
                for k, fr in enumerate(frames):
                    for i, row in zip(ids, fr):
                        e = exps[k][key][nm].get(i)
                        e = e if sec == 'nodal' else (e[1] if e else None)
                        if e != row:
                            diffs.append((sec, nm, 'step', files[k]['step'], 'id', i))
                            break
    return diffs


# ------------------------------------------------------------- Coq literals
def cS(s):
    return '(S ' + lib.coq_str(s) + ')'


def coq_section(s):
    vs = lib.coq_list([f'({cS(nm)}, {n})' for nm, n in s['vars']])
    rows = lib.coq_list([f'({lib.coq_Z(i)}, {lib.coq_list([cS(t) for t in v])})' for i, v in s['rows']])
    return f'(Build_section {vs} {rows})'


def coq_content(c):
    el = f"(Some {coq_section(c['elemental'])})" if c['elemental'] else 'None'
    return f"(Build_content {coq_section(c['nodal'])} {el})"


def coq_layout(lay):
    h = 'HOld' if lay['header'] == 'old' else f"(H2 {cS(lay['comment'])} {cS(lay['totaltime'])})"
    return (f"{{| l_header := {h}; l_pad := {cS(lay['pad'])}; l_nelem := {lay['nelem']}; "
            f"l_wc := {lay['wc']}; l_w := {lay['w']} |}}")


def coq_lines(lines):
    return lib.coq_list([cS(l) for l in lines])


def coq_types(types):
    return lib.coq_list([f"({cS(t)}, {lib.coq_list([lib.coq_Z(i) for i in ids])})" for t, ids in types])


def coq_table(tb):
    return lib.coq_list([f'({lib.coq_Z(i)}, {lib.coq_list([cS(t) for t in v])})' for i, v in tb])


def coq_dir_result(c, r):
    if not c['time_series']:
        nd = lib.coq_list([f'({cS(k)}, {coq_table(tb)})' for k, tb in r['nodal']])
        ed = lib.coq_list([f"({cS(k)}, {lib.coq_list([f'({cS(t)}, {coq_table(tb)})' for t, tb in bl])})"
                           for k, bl in r['elemental']])
        return f'(Single (Build_parsed {nd} {ed}))'

    def fr(frames):
        return lib.coq_list([lib.coq_list([lib.coq_list([cS(t) for t in row]) for row in f]) for f in frames])
    nd = lib.coq_list([f"({cS(k)}, ({lib.coq_list([lib.coq_Z(i) for i in ids])}, {fr(frames)}))"
                       for k, ids, frames in r['nodal']])
    ed = lib.coq_list([f"({cS(k)}, ({lib.coq_list([lib.coq_Z(i) for i in ids])}, {fr(frames)}))"
                       for k, _ty, ids, frames in r['elemental']])
    steps = lib.coq_list([lib.coq_Z(s) for s in (r.get('time_steps') or [])])
    return f'(Series {steps} {nd} {ed})'


CFG_OK_V = """From Coq Require Import String List.
From FV.C02.gen Require Import ResCfg.
Theorem C02_series_single_ok : series_single_ok = true.
Proof. reflexivity. Qed.
"""
PAT_OK_V = """From Coq Require Import String List.
From FV.C02 Require Import Model Regex.
From FV.C02.gen Require Import ResRegex.
(* the patterns of the tree under test are the ones whose meaning Regex.v proves *)
Theorem C02_patterns_tie :
  name_re_split = name_re_expected /\\ name_re_parse = name_re_expected /\\ exp_re = exp_re_expected.
Proof. repeat split; reflexivity. Qed.
(* hence, on EVERY line, the tree's patterns decide the model's predicates *)
Theorem C02_patterns_decide :
  (forall l, re_search name_re_split l = is_name_line l)
  /\\ (forall l, re_search name_re_parse l = is_name_line l)
  /\\ (forall l, re_search exp_re l = has_exp l).
Proof.
  destruct C02_patterns_tie as [-> [-> ->]].
  repeat split; intros; first [apply name_re_is_name_line | apply exp_re_is_has_exp].
Qed.
Print Assumptions C02_patterns_decide.
"""


def patterns_tie(ctx, cfg, degraded):
    """(1) translator validation: the generated Coq regexes, evaluated in Coq, decide the same as
    Python's re.search with the pattern text of the source, on seeded strings; (2) per-run
    obligation C02_patterns_tie / C02_patterns_decide.  A tree whose patterns are not the registered
    ones is not a violation: the region falls back to H (widened correspondence)."""
    pats = cfg['patterns']
    rng = ctx.rng
    base = ['', ' ', 'E', 'E+', 'E-', 'E+-5', 'E-+5', 'E+5', 'E-5', 'E5', 'e+05', '1.0E+00', '1.0e+00', '-3.5E-01 2.0E+01',
            '*x', '*', ' abc', 'abc', 'Zz', '[', '`', '{', '@', 'A', 'z', '0', '9a', '+E5', 'EE5', 'E+E5', '1.0E', 'E +5',
            'DISPLACEMENT', 'ElementalSTRAIN', '3 6 1', '12', ' 7', 'TOTALTIME', '*data', '1.0E+', 'NaN', 'Infinity', '-E1']
    strs = list(base)
    alphabet = 'E+-0123456789eE.* aZ[`{@\\t'
    while len(strs) < 260:
        strs.append(''.join(rng.choice(alphabet) for _ in range(rng.randint(0, 7))))
    strs = [x for x in dict.fromkeys(strs) if all(32 <= ord(ch) < 127 or ch == '\t' for ch in x) and '\t' not in x]
    txt = list(HEADER) + ['From FV.C02 Require Import Regex.', 'From FV.C02.gen Require Import ResRegex.']
    n_bad_py = 0
    for k in ('name_re_split', 'name_re_parse', 'exp_re'):
        pat = pats[k][0]
        items = [f"({i}, Bool.eqb (re_search {k} {cS(x)}) {'true' if re.search(pat, x) else 'false'})"
                 for i, x in enumerate(strs)]
        txt.append(f'Definition v_{k} : list (nat * bool) := {lib.coq_list(items)}.')
        txt.append(f'Goal True. idtac "@@ {k}". Abort.')
        txt.append(f'Eval vm_compute in map fst (filter (fun c => negb (snd c)) v_{k}).')
    rc, out, err = ctx.coq_eval('PatVal', '\n'.join(txt) + '\n')
    val_bad = {}
    if rc != 0:
        val_bad = {'compile': err[-300:]}
    else:
        for k in ('name_re_split', 'name_re_parse', 'exp_re'):
            b = failing(out, k)
            if b:
                val_bad[k] = [strs[i] for i in b[:5]]
    ctx.notes['pattern_translator_validation'] = {'strings': len(strs), 'patterns': {k: pats[k][0] for k in pats},
                                                  'disagreements': val_bad}
    if val_bad:
        # the translator (or Regex.re_search) does not mean what Python's re means: a defect of the check
        ctx.violation('tie-broken', {'patterns': {k: pats[k][0] for k in pats}, 'disagree_on': val_bad},
                      'Regex.re_search of the generated pattern = re.search of the source pattern',
                      'differs', 'translator validation (patterns)', found_input=False,
                      signature={'kind': 'pattern-translator-validation'})
    if 'patterns' in degraded:
        ctx.obligations.append({'name': 'C02_patterns_tie', 'discharged': False, 'assumptions': [],
                                'note': 'tie of this region is H on this tree (translator could not read the '
                                        'patterns: ' + degraded['patterns'] + '); widened correspondence'})
        return False
    rc, out, err = ctx.coq_eval('PatOk', PAT_OK_V)
    ok = rc == 0 and 'Closed under the global context' in out
    note = ''
    if not ok:
        note = ('the patterns of the tree under test are not the registered ones ('
                + ', '.join(f'{k}={pats[k][0]!r}' for k in pats) + '); their meaning is tied by the widened '
                'correspondence only (H) on this tree')
        ctx.notes['patterns_tie'] = note
        ctx.log(note)
    for nm in ('C02_patterns_tie', 'C02_patterns_decide'):
        ctx.obligations.append({'name': nm, 'discharged': ok, 'assumptions': [], 'note': note})
    return ok


TOKEN_RE = re.compile(r'^-?\d(\.\d+)?E[+-]\d+$')

HEADER = ['From Coq Require Import ZArith String List. Import ListNotations.',
          'From FV.C04 Require Import Text Model Corr.', 'From FV.C02 Require Import Model Corr.',
          'From FV.C02.gen Require Import ResCfg.', 'Open Scope string_scope.', 'Set Printing Width 100000.']


def run_impl(ctx, cases):
    work = ctx.scratch / 'work'
    work.mkdir(exist_ok=True)
    spec = {'work': str(work), 'out': str(ctx.scratch / 'impl_out.json'), 'cases': cases}
    r = subprocess.run([lib.PY, str(lib.VERIF / 'harness' / 'c02_impl.py')], input=json.dumps(spec),
                       text=True, capture_output=True, env=lib.impl_env(), timeout=2400)
    if r.returncode != 0:
        raise RuntimeError('impl runner failed: ' + r.stderr[-2000:])
    return {x['id']: x for x in json.loads(Path(spec['out']).read_text())}


def failing(out, tag):
    t = lib.parse_marked(out).get(tag, '').split(':')[0]
    return [int(x) for x in re.findall(r'\d+', t)]


def coq_check(ctx, cases, res, tag, all_p=True):
    """R: python text = Coq render_res; D: model read_dir = femio; P: model's own round trip
    (P is what C02_res_roundtrip proves; with the proofs checked it is evaluated on every 4th case only)"""
    bad = {'R': [], 'D': [], 'P': []}
    chunk = 15
    jobs = []
    for k in range(0, len(cases), chunk):
        part = cases[k:k + chunk]
        txt = list(HEADER)
        L = {'R': [], 'D': [], 'P': []}
        for c in part:
            r = res[c['id']]
            if 'build_error' in r:
                continue
            lay = coq_layout(c['layout'])
            n = len(c['mesh']['node_ids'])
            e = sum(len(b['ids']) for b in c['mesh']['elems'])
            types = r.get('types') or [[b['type'], b['ids']] for b in c['mesh']['elems']]
            txt.append(f"Definition ty{c['id']} := {coq_types(types)}.")
            fl = []
            for j, f in enumerate(c['files']):
                txt.append(f"Definition c{c['id']}_{j} : content str := {coq_content(f['content'])}.")
                txt.append(f"Definition f{c['id']}_{j} : list str := {coq_lines(f['lines'])}.")
                L['R'].append(f"({c['id']}, agree_render {lay} c{c['id']}_{j} f{c['id']}_{j})")
                if all_p or c['id'] % 4 == 0:
                    L['P'].append(f"({c['id']}, model_roundtrip_ok {lay} {n} {e} ty{c['id']} c{c['id']}_{j})")
                fl.append(f"({lib.coq_Z(f['step'])}, f{c['id']}_{j})")
            ts = 'true' if c['time_series'] else 'false'
            x = 'None' if 'read_error' in r else f'(Some {coq_dir_result(c, r)})'
            if c.get('entry', 'read_directory') == 'read_files':
                L['D'].append(f"({c['id']}, agree_files series_single_ok element_types {n} {e} "
                              f"ty{c['id']} {lib.coq_list(fl)} {x})")
            else:
                L['D'].append(f"({c['id']}, agree_dir series_single_ok element_types {ts} {n} {e} "
                              f"ty{c['id']} {lib.coq_list(fl)} {x})")
        for nm in 'RDP':
            txt.append(f'Definition cases{nm} : list (nat * bool) := {lib.coq_list(L[nm])}.')
            txt.append(f'Goal True. idtac "@@ {nm}". Abort.')
            txt.append(f'Eval vm_compute in map fst (filter (fun c => negb (snd c)) cases{nm}).')
        jobs.append((part, f'Corr_{tag}_{k // chunk}', '\n'.join(txt) + '\n'))
    from concurrent.futures import ThreadPoolExecutor
    with ThreadPoolExecutor(max_workers=6) as ex:
        results = list(ex.map(lambda j: ctx.coq_eval(j[1], j[2], timeout=1200), jobs))
    for (part, _, _), (rc, out, err) in zip(jobs, results):
        if rc != 0:
            ctx.log('correspondence file failed to compile:', err[-800:])
            bad['D'] += [c['id'] for c in part]
            continue
        for nm in 'RDP':
            bad[nm] += failing(out, nm)
    return bad


# ------------------------------------------------- solver outputs (S cross-check)
def parse_real(lines):
    """independent reader of the S-layout that trusts the header counts"""
    if any('TOTALTIME' in l for l in lines):
        lay = {'header': '2.0', 'comment': lines[2], 'totaltime': lines[7].strip(), 'start': 11}
        if [l.strip() for l in lines[:9]] != ['*fstrresult 2.0', '*comment', lines[2].strip(), '*global', '1', '1',
                                              'TOTALTIME', lines[7].strip(), '*data']:
            return None
    else:
        lay = {'header': 'old', 'comment': '', 'totaltime': '', 'start': 3}
    st = lay['start']
    nn, ne = (int(x) for x in lines[st - 2].split())
    nvn, nve = (int(x) for x in lines[st - 1].split())
    pos = st
    wcs = set()
    regular = [True]

    def section(nv, nent):
        nonlocal pos
        counts = []
        per_line = []
        while len(counts) < nv:
            t = [int(x) for x in lines[pos].split()]
            wcs.add(len(t))
            per_line.append(len(t))
            counts += t
            pos += 1
        if any(x != 10 for x in per_line[:-1]) or per_line[-1] > 10:
            regular[0] = False      # hand-wrapped count lines: only the reader half is checked
        names = [l.strip() for l in lines[pos:pos + nv]]
        pos += nv
        tot = sum(counts)
        rows = []
        for _ in range(nent):
            i = int(lines[pos].strip())
            pos += 1
            vals = []
            while len(vals) < tot:
                vals += lines[pos].split()
                pos += 1
            rows.append([i, vals])
        return {'vars': [[a, b] for a, b in zip(names, counts)], 'rows': rows}
    nodal = section(nvn, nn)
    el = section(nve, ne) if nve > 0 and ne > 0 else None
    if pos != len(lines):
        return None
    lay.update({'pad': '', 'wc': max(wcs | {10}), 'w': 5, 'nelem': ne, 'regular': regular[0]})
    return lay, {'nodal': nodal, 'elemental': el}, nn, ne


def real_files(ctx):
    root = lib.REPO / 'tests' / 'data' / 'fistr'
    limit = 200 if ctx.tier == 'quick' else 1200
    out = []
    for p in sorted(root.glob('*/*.res.*')):
        try:
            lines = p.read_text().split('\n')
        except (OSError, UnicodeDecodeError):
            continue
        if lines and lines[-1] == '':
            lines.pop()
        if 5 < len(lines) <= limit and all(all(32 <= ord(ch) < 127 for ch in l) for l in lines):
            out.append((str(p.relative_to(lib.REPO)), lines))
    if ctx.tier == 'quick':
        out = out[::2][:30] + [x for x in out if 'multilines' in x[0]]
    return out


def check_real(ctx):
    files = real_files(ctx)
    items, txt, skipped, irregular = [], list(HEADER), 0, 0
    for k, (name, lines) in enumerate(files):
        try:
            pr = parse_real(lines)
        except (ValueError, IndexError):
            pr = None
        if pr is None:
            skipped += 1
            continue
        lay, content, nn, ne = pr
        eids = [i for i, _ in content['elemental']['rows']] if content['elemental'] else []
        txt.append(f"Definition rf{k} : list str := {coq_lines(lines)}.")
        txt.append(f"Definition rc{k} : content str := {coq_content(content)}.")
        fn = 'agree_real' if lay['regular'] else 'agree_real_parse_only'
        irregular += 0 if lay['regular'] else 1
        items.append(f"({k}, {fn} {coq_layout(lay)} {nn} {ne} {coq_types([['unknown', eids]])} rc{k} rf{k})")
    txt.append(f'Definition casesS : list (nat * bool) := {lib.coq_list(items)}.')
    txt.append('Goal True. idtac "@@ S". Abort.')
    txt.append('Eval vm_compute in map fst (filter (fun c => negb (snd c)) casesS).')
    rc, out, err = ctx.coq_eval('Real', '\n'.join(txt) + '\n', timeout=1500)
    if rc != 0:
        ctx.log('real-file check failed to compile:', err[-600:])
        return len(items), [n for n, _ in files], skipped
    bad = failing(out, 'S')
    return len(items), [files[k][0] for k in bad], skipped


# ----------------------------------------------------------------------- main
def case_for_replay(c):
    d = {k: c[k] for k in ('mesh', 'layout', 'time_series', 'files')}
    for k in ('ts_arg', 'read_twice', 'entry'):
        if k in c:
            d[k] = c[k]
    if c.get('path_key'):
        d['path_key'] = c['path_key']
        if c.get('_prev') is not None:
            d['preceded_by'] = c['_prev']     # read from the same directory just before, same process
    return d


def describe(c):
    return {'types': [b['type'] for b in c['mesh']['elems']], 'layout': c['layout'],
            'time_series': c['time_series'], 'steps': [f['step'] for f in c['files']],
            'entry': c.get('entry', 'read_directory'),
            'nodal_vars': c['files'][0]['content']['nodal']['vars'],
            'elemental_vars': (c['files'][0]['content']['elemental'] or {}).get('vars')}


def check_cases(ctx, cases, tag, tie_ok, cfg, all_p=True):
    last_shared = {}
    for c in cases:
        if c.get('path_key'):
            prev = last_shared.get(c['path_key'])
            c['_prev'] = {k: v for k, v in case_for_replay(prev).items() if k != 'preceded_by'} if prev else None
            last_shared[c['path_key']] = c
    res = run_impl(ctx, cases)
    ctx.log(f'{tag}: femio read {len(cases)} directories')
    oracle_bad = {}
    for c in cases:
        ctx.count('history:' + ('same-dir-rewrite' if c.get('_prev') else 'fresh-dir'))
        ctx.count('max_step_digits:%d' % len(str(max(f['step'] for f in c['files']))))
        ctx.count('max_components:%s' % ('>=10' if max(n for _, n in c['files'][0]['content']['nodal']['vars']
                                                       + ((c['files'][0]['content']['elemental'] or {}).get('vars') or [])) >= 10
                                         else '<10'))
        ctx.count('ts_arg:' + c.get('ts_arg', 'bool'))
        ctx.count('entry:' + c.get('entry', 'read_directory'))
        if c.get('entry') == 'read_files' and len(c['files']) > 1:
            st_ = [f['step'] for f in c['files']]
            ctx.count('read_files_order:' + ('ascending' if st_ == sorted(st_) else
                                             'descending' if st_ == sorted(st_, reverse=True) else 'other'))
        for f in c['files']:
            for sec in (f['content']['nodal'], f['content']['elemental']):
                for _, vals in (sec['rows'] if sec else []):
                    for tk in vals:
                        # the section hypotheses on value tokens, checked on every generated token
                        if not TOKEN_RE.match(tk) or 'T' in tk or tok(float(tk)) != tk:
                            ctx.count('token_hypothesis_failures')
    for c in cases:
        r = res[c['id']]
        outcome = 'build_error' if 'build_error' in r else 'read_error' if 'read_error' in r else 'ok'
        ctx.count('impl:' + outcome)
        ctx.count('header:' + c['layout']['header'])
        ctx.count('time_series' if c['time_series'] else 'single')
        ctx.count('n_files:%d' % len(c['files']))
        ctx.count('w:%d' % c['layout']['w'])
        ctx.count('elemental' if c['files'][0]['content']['elemental'] else 'no_elemental')
        ctx.count('n_types:%d' % len(c['mesh']['elems']))
        ctx.case(case_for_replay(c), nontrivial=outcome == 'ok',
                 sample={'case': describe(c), 'impl': outcome, 'first_lines': c['files'][0]['lines'][:6]})
        if outcome == 'build_error':
            ctx.log('build error (generator):', r['build_error'])
            continue
        if outcome == 'read_error':
            oracle_bad[c['id']] = [('raised', r['read_error'])]
        elif r.get('second_read_differs'):
            oracle_bad[c['id']] = [('second read of the same directory differs from the first',)]
        else:
            d = oracle(c, r)
            if d:
                oracle_bad[c['id']] = d
    bad = {'R': [], 'D': [], 'P': []}
    if tie_ok:
        bad = coq_check(ctx, cases, res, tag, all_p)
        ctx.log(f'{tag}: correspondence evaluated in Coq')
    ctx.corr['cases'] = ctx.corr.get('cases', 0) + len(cases)
    ctx.corr['disagreements'] = ctx.corr.get('disagreements', 0) + len(set(bad['D']))
    ctx.corr['render_mismatch'] = ctx.corr.get('render_mismatch', 0) + len(set(bad['R']))
    by_id = {c['id']: c for c in cases}
    for cid in sorted(set(bad['R'])):
        ctx.violation('correspondence', case_for_replay(by_id[cid]),
                      'the text fed to femio is Model.render_res of the content',
                      'python rendering differs from the Coq S-definition', 'Corr.agree_render',
                      found_input=False, signature={'kind': 'render-mismatch'})
    for cid in sorted(set(bad['P'])):
        ctx.violation('proof-broken', case_for_replay(by_id[cid]),
                      'parse_res (render_res c) = Ok (expected c)', 'differs (vm_compute)',
                      'C02_res_roundtrip evaluated on a case', found_input=cid in oracle_bad,
                      signature={'kind': 'model-roundtrip-false'})
    for cid in sorted(set(bad['D'])):
        c, r = by_id[cid], res[cid]
        ctx.violation('correspondence', case_for_replay(c), 'model read_dir = femio read_directory',
                      {'impl_error': r.get('read_error'), 'tb': r.get('tb')},
                      'correspondence C02 (Corr.agree_files)' if c.get('entry') == 'read_files' else
                      'correspondence C02 (Corr.agree_dir)', found_input=cid in oracle_bad,
                      signature={'kind': 'correspondence', 'time_series': c['time_series'],
                                 'entry': c.get('entry', 'read_directory'),
                                 'n_files': min(len(c['files']), 2), 'raised': 'read_error' in r,
                                 'history': 'same-dir-rewrite' if c.get('_prev') else 'fresh-dir'})
    for cid, d in sorted(oracle_bad.items()):
        c, r = by_id[cid], res[cid]
        sig = {'site': 'FrontISTRData.read_files', 'time_series': c['time_series'],
               'entry': c.get('entry', 'read_directory'),
               'n_files': len(c['files']) if len(c['files']) < 2 else 'several',
               'raised': (r.get('read_error') or '').split(':')[0] or None,
               'explained_by_model': bool(tie_ok and cid not in bad['D']),
               'history': 'same-dir-rewrite' if c.get('_prev') else 'fresh-dir'}
        ctx.violation('impl-violation', case_for_replay(c),
                      'every value read under the id / variable / step it was written for',
                      {'differences': d[:6], 'tb': r.get('tb')}, 'C02 oracle on implementation',
                      found_input=True, signature=sig,
                      what=f"{c.get('entry', 'read_directory')}('fistr', time_series={c['time_series']}) with "
                           f"{len(c['files'])} result file(s): {d[0]}")
    ctx.notes['search_evaluations'] = ctx.notes.get('search_evaluations', 0) + len(cases)
    ctx.notes['impl_property_failures'] = ctx.notes.get('impl_property_failures', 0) + len(oracle_bad)


def load_corpus():
    d = lib.VERIF / 'corpus' / PID
    return [json.loads(f.read_text()) for f in sorted(d.glob('*.json'))] if d.exists() else []


def main(ctx):
    ctx.rule = ('generated directories: mesh (1-3 element types of tet/hex/prism/pyr/tet2, interleaved sparse/large '
                'ids, all nodes referenced) written by femio, 1-6 result files rendered in the S-layout '
                '(old / 2.0 header, pad 0-2 blanks, 1-10 counts per line, 1-8 values per line, 1-6 nodal and 0-4 '
                'elemental variables of 1-9 components, rows in shuffled id order, shuffled step numbers from 0..10^7 '
                'incl. neighbours of powers of ten), read with and without time_series; every third directory is '
                'one shared path rewritten and re-read in the same process; non-trivial = femio read the directory; '
                'distinct = distinct full input.  Plus solver outputs of tests/data/fistr (S cross-check)')
    ctx.trusted += [
        'S-definition Model.render_res (layout FrontISTR writes); cross-checked against the solver outputs in '
        'tests/data/fistr: render_res(content) = file modulo trailing blanks and parse_res(file) = content',
        'section hypotheses: vparse (vprint v) = Some v; vprint v is a non-empty blank-free token that contains an '
        'E+dd / E-dd exponent, does not start with a letter or *, and has no letter T (float formatting %.16E / float())',
        'translator translate/c02_cfg.py (ELEMENT_TYPES, header skip constants by symbolic execution of _split_series, '
        'single-file time-series wrapper, the three patterns); a region it cannot read falls back to the registered '
        "tree's value and a widened correspondence (reported under `tie`)",
        'the mesh part (msh written and read by femio) and glob(); harness glue (Coq literals, %.16E <-> float)',
        'Regex.re_search as the meaning of re.search on the fragment the reader uses (anchor, classes, ? + *; \\d = ASCII '
        'digits); validated per run against Python re on seeded strings',
        'pandas / numpy primitives (Series slicing, str.contains, np.diff, np.concatenate, str.split) are represented by '
        'their list counterparts in Model.v / Clusters.v',
    ]
    ctx.assumptions += ['result files of one directory list the same variables; rows may come in any id order but '
                        'the same order in every step (update_time_series stacks positionally)',
                        'every node is referenced by an element (remove_useless_nodes runs before the results are read)',
                        'variable names start with a letter, contain no blank and not the text TOTALTIME',
                        'values are finite (no NaN / Infinity tokens, which would start with a letter)']
    tie_ok, cfg, degraded = True, None, {}
    try:
        cfg, consumed, degraded = c02_cfg.translate(str(lib.REPO))
        ctx.sources = consumed
        lib.write_if_changed(lib.COQ / 'C02' / 'gen' / 'ResCfg.v', c02_cfg.emit(cfg))
        lib.write_if_changed(lib.COQ / 'C02' / 'gen' / 'ResRegex.v', c02_cfg.emit_patterns(cfg['patterns']))
        for region, why in degraded.items():
            ctx.log(f'translator could not read {region}: {why} -> baseline model + widened correspondence')
    except (c02_cfg.TranslateError, SyntaxError, OSError) as e:
        tie_ok = False
        ctx.log('translator failed closed:', e)
        ctx.notes['translator_error'] = str(e)
    proof_ok = False
    if tie_ok:
        proof_ok, log = ctx.build_props('C02/Props.v', extra_targets=['C02/Corr.vo', 'C02/gen/ResRegex.vo',
                                                                      'C02/ToDict.vo'],
                                        scan_dirs=[lib.COQ / 'C02', lib.COQ / 'C04'])
        if not proof_ok:
            ctx.notes['build_log_tail'] = log[-1500:]
    else:
        for n in lib.theorem_names(lib.COQ / 'C02' / 'Props.v'):
            ctx.obligations.append({'name': n, 'discharged': False, 'assumptions': [],
                                    'note': 'translator failed closed'})
    if tie_ok and proof_ok and ctx.tier == 'thorough' and hasattr(ctx, 'coqchk'):
        ctx.coqchk('C02/Props.v')
    # per-run obligation: the time-series branch accepts a single result file
    single_ok = False
    if tie_ok and proof_ok:
        rc, out, err = ctx.coq_eval('CfgOk', CFG_OK_V)
        single_ok = rc == 0
        note = '' if single_ok else ('series_single_ok = false: read_files iterates over the lines of the only '
                                     'result file (see C02_single_file_series_refuted and the replayed input)')
        ctx.obligations.append({'name': 'C02_series_single_ok', 'discharged': single_ok, 'assumptions': [],
                                'note': note})
    model_ok = proof_ok
    if tie_ok and not proof_ok:
        # the proofs do not check: the model may still build (definitions only)
        model_ok, log, _ = lib.coq_make(['C02/Corr.vo', 'C02/gen/ResCfg.vo', 'C02/gen/ResRegex.vo', 'C02/ToDict.vo'])
        if not model_ok:
            ctx.log('model does not build:', log[-500:])
    # per-run obligation of the pattern tie + translator validation
    if tie_ok and model_ok:
        pat_ok = patterns_tie(ctx, cfg, degraded)
        if not pat_ok and 'patterns' not in degraded:
            degraded['patterns'] = ctx.notes.get('patterns_tie', 'patterns differ from the registered ones')
    ctx.notes['series_single_ok'] = cfg['series_single_ok'] if cfg else None
    # S cross-check on solver outputs (one long coqc: runs beside the generated directories)
    from concurrent.futures import ThreadPoolExecutor
    pool = ThreadPoolExecutor(max_workers=1)
    real_job = pool.submit(check_real, ctx) if model_ok else None

    def collect_real():
        if real_job is None:
            return
        n_real, bad_real, skipped = real_job.result()
        ctx.log(f'solver outputs cross-checked: {n_real}')
        ctx.notes['solver_outputs_checked'] = n_real
        ctx.notes['solver_outputs_not_in_S_layout'] = skipped
        ctx.notes['solver_outputs_disagreeing'] = bad_real
        for name in bad_real[:5]:
            ctx.violation('correspondence', {'file': name},
                          'render_res (content) = solver output modulo trailing blanks and parse_res(file) = content',
                          'differs', 'S-layout cross-check (Corr.agree_real)', found_input=False,
                          signature={'kind': 'S-layout', 'file': name})
    # generated directories
    cases = []
    for c in load_corpus():
        c['id'] = len(cases)
        cases.append(c)
    n = {'quick': 120, 'thorough': 1500}[ctx.tier]
    focus = frozenset(degraded)
    if focus:
        # T -> H: the regions the translator could not read are modelled by the values of the
        # registered tree; what they decide is now tied by a widened correspondence only
        n = {'quick': 300, 'thorough': 2500}[ctx.tier]
    for _ in range(n):
        c = gen_case(ctx.rng, len(cases), focus)
        if c['id'] % 3 == 0 or ('file_layer' in focus and c['id'] % 3 == 1):
            c['path_key'] = 'h'     # same-process history: one directory rewritten and re-read
        cases.append(c)
    ctx.notes['tie'] = 'T (translator read every region) + H (correspondence)' if not focus else \
        'H (' + '; '.join(f'translator could not read {k}: {v}' for k, v in sorted(degraded.items())) + \
        f'; baseline model + widened correspondence, {n} cases)'
    ctx.notes['translator_degraded'] = degraded
    step = 300
    for k in range(0, len(cases), step):
        check_cases(ctx, cases[k:k + step], f'g{k // step}', model_ok, cfg, all_p=not proof_ok)
    if model_ok:
        # ToDict.v: StringSeries.to_dict_fem_attributes called directly (full / too short / ragged tables)
        import c02_todict
        c02_todict.run(ctx, sys.modules[__name__], {'quick': 60, 'thorough': 400}[ctx.tier])
    collect_real()
    pool.shutdown()
    if not tie_ok:
        ctx.violation('tie-broken', {'translator_error': ctx.notes.get('translator_error')},
                      'translator accepts fistr.read_files / _split_series', 'fail-closed',
                      'translator c02_cfg', found_input=False, signature={'kind': 'tie-broken'})
    elif not proof_ok:
        bad = [o['name'] for o in ctx.obligations if not o['discharged']]
        ctx.violation('proof-broken', {'undischarged': bad}, 'all theorems of C02/Props.v check', 'do not check',
                      ', '.join(bad), found_input=False,
                      signature={'kind': 'proof-broken', 'theorems': ','.join(bad)})
    return ctx.finish()


def replay(path):
    rp = json.loads(Path(path).read_text())
    c = rp['case']
    if 'mesh' not in c:
        print('nothing to replay on the implementation:', json.dumps(rp, indent=1)[:2000])
        return 1
    try:
        ctx = lib.Ctx(PID, 'quick', clear_replays=False)
    except TypeError:
        ctx = lib.Ctx(PID, 'quick')
    c = dict(c)
    c['id'] = 0
    if c.get('preceded_by'):
        prev = dict(c['preceded_by'])
        prev['id'] = 0
        prev['path_key'] = c['path_key']
        c['id'] = 1
        print('history: first the preceding directory content is written to and read from the same path')
        r = run_impl(ctx, [prev, c])[1]
    else:
        r = run_impl(ctx, [c])[0]
    print('implementation:', json.dumps({k: r.get(k) for k in ('read_error', 'tb', 'time_steps', 'types', 'nodal',
                                                               'elemental')}, indent=1)[:5000])
    bad = [('raised', r['read_error'])] if 'read_error' in r else oracle(c, r)
    print('differences:', bad[:10])
    try:
        cfg, _, _ = c02_cfg.translate(str(lib.REPO))
        lib.write_if_changed(lib.COQ / 'C02' / 'gen' / 'ResCfg.v', c02_cfg.emit(cfg))
        lib.write_if_changed(lib.COQ / 'C02' / 'gen' / 'ResRegex.v', c02_cfg.emit_patterns(cfg['patterns']))
        ok, log, _ = lib.coq_make(['C02/Corr.vo', 'C02/gen/ResCfg.vo'])
    except c02_cfg.TranslateError as e:
        print('translator failed closed:', e)
        ok = False
    if ok:
        i = c['id']
        b = coq_check(ctx, [c], {i: r}, 'replay')
        print('model: rendering agrees:', i not in b['R'], '| read_dir agrees with femio:', i not in b['D'],
              '| model round trip holds:', i not in b['P'])
    print('property', 'VIOLATED' if bad else 'holds', 'on this input')
    return 1 if bad else 0


if __name__ == '__main__':
    if len(sys.argv) > 2 and sys.argv[1] == 'replay':
        sys.exit(replay(sys.argv[2]))
    tier = sys.argv[1] if len(sys.argv) > 1 else 'quick'
    sys.exit(main(lib.Ctx(PID, tier)))
