"""C01 — FrontISTR .msh write -> read is the identity on the mesh; FrontISTR
node ordering; reader insensitive to insignificant formatting."""
import json
import re
import sys
import time
from fractions import Fraction
from pathlib import Path

sys.path.insert(0, str(Path(__file__).resolve().parent))
sys.path.insert(0, str(Path(__file__).resolve().parent.parent / 'translate'))
import lib  # noqa
import c01_tables  # noqa
import c01_common as cm  # noqa

PID = 'C01'
COQ_HEAD = '\n'.join([
    'From Coq Require Import String List ZArith QArith Qabs.', 'Import ListNotations.',
    'From FV.C01 Require Import Str Dec Model Materials.', 'Open Scope string_scope.',
    'Set Printing Width 100000.', 'Set Printing Depth 100000.',
    'Definition dq s := match parse_dec s with Some d => d | None => dec_zero end.',
    'Definition dqf s := match parse_dec_free s with Some d => d | None => dec_zero end.', ''])
COQ_HEAD_ORIENT = COQ_HEAD + '\n'.join([
    'From FV.C01 Require Import Orient.',
    'Definition sgn (q : Q) : Z := Z.sgn (Qnum q).',
    'Definition close (a b : Q) : bool := Qle_bool (Qabs (a - b)) ((1#1000000) * (1 + Qabs b)).', ''])


# ------------------------------------------------------------------ variants
def is_header(l):
    return l.startswith('!')


def block_spans(lines):
    """[(header_index, first_row, end)] of the blocks of a written file"""
    idx = [i for i, l in enumerate(lines) if is_header(l)] + [len(lines)]
    return [(idx[k], idx[k] + 1, idx[k + 1]) for k in range(len(idx) - 1)]


BLANKS = ['', '   ', '\t', ' \t ']
HASHES = ['# comment', '#', '   # indented comment', '#!NODE', '# 1, 2, 3']
BANGS = ['!! comment', '!!', '!!  written by hand', '!! 1, 2, 3']


def v_blank_hash(rng, lines):
    out = []
    for l in lines:
        while rng.random() < 0.25:
            out.append(rng.choice(BLANKS + HASHES))
        out.append(l)
    while rng.random() < 0.5:
        out.append(rng.choice(BLANKS + HASHES))
    if len(out) == len(lines):
        out.insert(rng.randint(0, len(out)), '# comment')
    return out


def pad(rng):
    return ''.join(rng.choice([' ', ' ', '\t']) for _ in range(rng.choice([0, 1, 1, 2, 3])))


def v_pad(rng, lines):
    out = []
    changed = False
    for l in lines:
        if is_header(l) or l == 'Data written by femio':
            out.append(l)
            continue
        fs = l.split(',')
        new = ','.join(pad(rng) + f + pad(rng) for f in fs)
        changed = changed or new != l
        out.append(new)
    if not changed:
        for i, l in enumerate(out):
            if not is_header(l) and ',' in l:
                out[i] = ' ' + l.replace(',', ' ,\t')
                break
    return out


def v_split(rng, lines, keys=('!NODE', '!ELEMENT')):
    """split blocks whose header contains one of the keys into several blocks
    with the same header (adjacent)"""
    out = []
    n_split = 0
    for h, a, b in block_spans(lines):
        hdr = lines[h]
        rows = lines[a:b]
        out.append(hdr)
        if any(k in hdr for k in keys) and len(rows) >= 2 and rng.random() < 0.8:
            cuts = sorted(set(rng.sample(range(1, len(rows)), min(len(rows) - 1, rng.choice([1, 1, 2])))))
            prev = 0
            for c in cuts:
                out += rows[prev:c]
                out.append(hdr)
                prev = c
                n_split += 1
            out += rows[prev:]
        else:
            out += rows
    return out, n_split


def v_bang_before_headers(rng, lines):
    """`!!` comment lines only where the current reader tolerates them: right
    before a header line or at the end of the file"""
    out = []
    n = 0
    for l in lines:
        if is_header(l) and l != '!HEADER' and rng.random() < 0.5:
            out.append(rng.choice(BANGS))
            n += 1
        out.append(l)
    if n == 0:
        out.append('!! the end')
    return out


def v_bang_inside(rng, lines, keys=('!NODE', '!ELEMENT')):
    """a `!!` comment line between the data rows of a block"""
    spans = [(h, a, b) for h, a, b in block_spans(lines)
             if any(k in lines[h] for k in keys) and b - a >= 1]
    h, a, b = rng.choice(spans)
    pos = rng.randint(a, b - 1)      # at least one row follows the comment
    return lines[:pos] + [rng.choice(BANGS)] + lines[pos:], lines[h]


def make_variants(rng, lines, tier):
    vs = []
    vs.append(('blank-hash', v_blank_hash(rng, lines)))
    vs.append(('pad', v_pad(rng, lines)))
    sp, n = v_split(rng, lines)
    if n:
        vs.append(('split', sp))
    vs.append(('bang-before-header', v_bang_before_headers(rng, lines)))
    combo, _ = v_split(rng, v_pad(rng, lines))
    vs.append(('combo', v_blank_hash(rng, combo)))
    bi, hdr = v_bang_inside(rng, lines)
    vs.append(('bang-inside:' + ('node' if '!NODE' in hdr else 'element'), bi))
    # several ids per line in the !EGROUP blocks
    em, changed = [], False
    for h, a, b in block_spans(lines):
        rows = lines[a:b]
        em.append(lines[h])
        if '!EGROUP' in lines[h] and len(rows) >= 2 and len(rows) % 2 == 0:
            em += [rows[k] + ',' + rows[k + 1] for k in range(0, len(rows), 2)]
            changed = True
        else:
            em += rows
    if changed:
        vs.append(('egroup-multi', em))
    # a group / initial-condition block split into two blocks of the same name
    for key, tag in (('!EGROUP', 'split-egroup'), ('!INITIAL', 'split-initial')):
        sp, n = v_split(rng, lines, keys=(key,))
        if n:
            vs.append((tag, sp))
    return vs


# ------------------------------------------------------------------ oracles
def expected_roundtrip(mesh):
    """the property, evaluated independently of the Coq model: what a reader
    must return for this mesh (maps by id)"""
    ref = set(n for _, _, conn in mesh['elems'] for row in conn for n in row)
    coords = {i: [cm.f2dec(c) for c in row] for i, row in zip(mesh['node_ids'], mesh['coords'])
              if i in ref}
    elems = {i: (t, row) for t, ids, conn in mesh['elems'] for i, row in zip(ids, conn)}
    groups = {k: list(v) for k, v in mesh.get('egroups') or [] if k != 'ALL'}
    sections = [list(s) for s in mesh.get('sections') or []]
    temp = None
    if mesh.get('temp') is not None:
        temp = {i: cm.f2dec(v) for i, v in zip(*mesh['temp']) if i in ref}
    mats = [[n, cm.f2dec(e, 8), cm.f2dec(nu, 8)] for n, e, nu in mesh.get('materials') or []]
    assigned = {}
    if mats:
        mv = {n: (e, nu) for n, e, nu in mats}
        gm = dict((k, v) for k, v in mesh.get('egroups') or [])
        for mat, _, grp in sections:
            for e in gm[grp]:
                assigned[e] = mv[mat]
    return {'coords': coords, 'elems': elems, 'groups': groups, 'sections': sections, 'temp': temp,
            'materials': mats, 'assigned': assigned}


def observed_maps(r):
    coords = {i: [cm.f2dec(c) for c in row] for i, row in zip(r['node_ids'], r['coords'])}
    elems = {i: (t, row) for t, ids, conn in r['elems'] for i, row in zip(ids, conn)}
    groups = {k: list(v) for k, v in r['egroups'] if k != 'ALL'}
    allg = [v for k, v in r['egroups'] if k == 'ALL']
    temp = None
    for k, ids, rows in r['initial']:
        if k == 'TEMPERATURE':
            temp = {i: cm.f2dec(row[0]) for i, row in zip(ids, rows)}
    mats, assigned = [], {}
    if r.get('materials'):
        names = r['materials'][0][1]
        cols = [[cm.f2dec(row[0], 8) for row in rows] for _, _, rows in r['materials']]
        mats = [[n] + [c[k] for c in cols] for k, n in enumerate(names)]
    if r.get('elemental'):
        for bi, (t, ids, rows) in enumerate(r['elemental'][0][1]):
            for k, i in enumerate(ids):
                assigned[i] = tuple(cm.f2dec(p[1][bi][2][k][0], 8) for p in r['elemental'])
    return {'coords': coords, 'elems': elems, 'groups': groups, 'materials': mats, 'assigned': assigned,
            'sections': [list(s) for s in r['sections']], 'temp': temp,
            'all': sorted(allg[0]) if allg else None,
            'n_nodes': len(r['node_ids']), 'n_elems': sum(len(ids) for _, ids, _ in r['elems'])}


def roundtrip_diff(mesh, r):
    e = expected_roundtrip(mesh)
    o = observed_maps(r)
    bad = []
    if o['coords'] != e['coords'] or o['n_nodes'] != len(e['coords']):
        bad.append('nodes')
    if o['elems'] != e['elems'] or o['n_elems'] != len(e['elems']):
        bad.append('elements')
    if o['groups'] != e['groups'] or o['all'] != sorted(e['elems']):
        bad.append('element_groups')
    if o['sections'] != e['sections']:
        bad.append('sections')
    if o['temp'] != e['temp']:
        bad.append('initial_temperature')
    if o['materials'] != e['materials']:
        bad.append('materials')
    if o['assigned'] != e['assigned']:
        bad.append('material_assignment')
    return bad


# ------------------------------------------------------------------ orientation
REF = {
    'tet': [(0, 0, 0), (1, 0, 0), (0, 1, 0), (0, 0, 1)],
    # femio (VTK wedge) order: 0-1-2 clockwise seen from 3-4-5
    'prism': [(0, 0, 0), (0, 1, 0), (1, 0, 0), (0, 0, 1), (0, 1, 1), (1, 0, 1)],
    'hex': [(0, 0, 0), (1, 0, 0), (1, 1, 0), (0, 1, 0), (0, 0, 1), (1, 0, 1), (1, 1, 1), (0, 1, 1)],
}


def det3(a, b, c):
    return (a[0] * (b[1] * c[2] - b[2] * c[1]) - a[1] * (b[0] * c[2] - b[2] * c[0])
            + a[2] * (b[0] * c[1] - b[1] * c[0]))


def vsub(a, b):
    return tuple(x - y for x, y in zip(a, b))


def vsum(ps):
    return tuple(sum(p[k] for p in ps) for k in range(3))


def fistr_measure(ty, q):
    """S-definition of FrontISTR's orientation (exact integers), q = coordinates in the
    node order found in the .msh file"""
    if ty == 'tet':
        return det3(vsub(q[1], q[0]), vsub(q[2], q[0]), vsub(q[3], q[0]))
    if ty == 'prism':
        return det3(vsub(q[1], q[0]), vsub(q[2], q[0]), vsub(vsum(q[3:6]), vsum(q[0:3])))
    return det3(vsub(q[2], q[0]), vsub(q[3], q[1]), vsub(vsum(q[4:8]), vsum(q[0:4])))


def gen_large(seed, nn=70001):
    """deterministic mesh with a node table and a temperature table of more than 65 536 rows;
    the elements reference the rows next to the 2^16 boundary and the ends of both tables"""
    import random
    rng = random.Random(f'C01-large:{seed}')
    ids = list(range(1, nn + 1))
    rng.shuffle(ids)
    return {'node_ids': ids,
            'coords': [[float(rng.randint(-10 ** 6, 10 ** 6) / 8.0).hex() for _ in range(3)] for _ in ids],
            'elems': [['tet', [3, 1, 2], [[ids[65535], ids[65536], ids[0], ids[-1]],
                                          [ids[nn - 65536], ids[nn - 65537], ids[65534], ids[65537]],
                                          rng.sample(ids, 4)]]],
            'temp': [list(reversed(ids)), [float(i % 977).hex() for i in ids]],
            'meta': {'types': ['tet'], 'n_unref': nn - 12, 'temp': 'permuted', 'size': 'large-table'}}


def gen_orient_cases(rng, n):
    cases = []
    for k in range(n):
        ty = ['tet', 'prism', 'hex'][k % 3]
        while True:
            M = [[rng.randint(-3, 3) for _ in range(3)] for _ in range(3)]
            d = det3(*M)
            if d != 0:
                break
        t = [rng.randint(-5, 5) for _ in range(3)]
        pts = [tuple(sum(M[r][c] * p[c] for c in range(3)) + t[r] for r in range(3)) for p in REF[ty]]
        affine = k < 2 * n // 3
        if not affine:   # general position: kernel correspondence only
            pts = [tuple(x + rng.randint(-1, 1) for x in p) for p in pts]
        ids = rng.sample(range(1, 500), len(pts))
        cases.append({'type': ty, 'coords': [list(p) for p in pts], 'node_ids': ids, 'conn': ids,
                      'affine': affine, 'det': d})
    return cases


def coq_qpts(pts):
    return lib.coq_list(['(' + ', '.join(f'({x}#1)' for x in p) + ')' for p in pts])


# ------------------------------------------------------------------ Coq evaluation
# The correspondence files are compiled against a PRIVATE build of the model (build/C01/snap):
# coq/C01/gen/Tables.v is shared with the C03 check (same translator), and a C03 run against
# another tree may replace it and rebuild the shared .vo files while this run is evaluating.
SNAP_CORE = ['Str', 'Dec', 'gen/Tables', 'Model', 'Materials']
SNAP_ORIENT = ['ProofsLines', 'ProofsHeaders', 'ProofsAux', 'ProofsText', 'Orient']
SNAP = {'dir': None}


def build_snapshot(ctx, tables_text):
    """-> (model_ok, orient_ok, log): private copies of the model sources + the tables of THIS
    run, compiled in build/C01/snap; reused when nothing changed since the last run"""
    import hashlib
    import shutil
    import subprocess
    snap = ctx.scratch / 'snap'
    srcs = {}
    for f in SNAP_CORE + SNAP_ORIENT:
        srcs[f] = tables_text if f == 'gen/Tables' else (lib.COQ / 'C01' / (f + '.v')).read_text()
    key = hashlib.sha256(json.dumps(srcs, sort_keys=True).encode()).hexdigest()
    stamp = snap / 'key.json'
    if stamp.exists():
        try:
            old = json.loads(stamp.read_text())
            if old.get('key') == key:
                SNAP['dir'] = snap
                return old['model_ok'], old['orient_ok'], 'snapshot reused'
        except (ValueError, KeyError):
            pass
    shutil.rmtree(snap, ignore_errors=True)
    (snap / 'C01' / 'gen').mkdir(parents=True)
    for f, txt in srcs.items():
        (snap / 'C01' / (f + '.v')).write_text(txt)
    log = []

    def compile_all(files):
        for f in files:
            try:
                r = subprocess.run(['coqc', '-q', '-Q', str(snap), 'FV', str(snap / 'C01' / (f + '.v'))],
                                   capture_output=True, text=True, timeout=900, cwd=snap)
            except subprocess.TimeoutExpired:
                log.append(f'{f}: timeout')
                return False
            if r.returncode != 0:
                log.append(f'{f}: ' + r.stderr[-600:])
                return False
        return True
    model_ok = compile_all(SNAP_CORE)
    orient_ok = model_ok and compile_all(SNAP_ORIENT)
    SNAP['dir'] = snap
    stamp.write_text(json.dumps({'key': key, 'model_ok': model_ok, 'orient_ok': orient_ok}))
    return model_ok, orient_ok, '\n'.join(log)


def snap_eval(ctx, name, text, timeout=600):
    """compile a scratch file against the private snapshot -> (rc, stdout, stderr)"""
    import subprocess
    if SNAP['dir'] is None:
        return ctx.coq_eval(name, text, timeout=timeout)
    f = ctx.scratch / f'{name}.v'
    f.write_text(text)
    try:
        r = subprocess.run(['coqc', '-q', '-Q', str(SNAP['dir']), 'FV', str(f)],
                           capture_output=True, text=True, timeout=timeout, cwd=ctx.scratch)
    except subprocess.TimeoutExpired:
        return 124, '', 'timeout'
    return r.returncode, r.stdout, r.stderr


def coq_failing(ctx, name, items, timeout=900, chunk_bytes=70000, head=None):
    """items: list of (id, coq boolean expression).  Returns the ids whose
    expression evaluates to false, or None when a file does not compile.
    The cases are spread over scratch files compiled in parallel (elaborating
    the string literals dominates the cost)."""
    from concurrent.futures import ThreadPoolExecutor
    files, cur, size = [], [], 0
    for it in items:
        cur.append(it)
        size += len(it[1])
        if size > chunk_bytes:
            files.append(cur)
            cur, size = [], 0
    if cur:
        files.append(cur)

    def one(k):
        chunk = files[k]
        txt = [head or COQ_HEAD, 'Definition cases : list (Z * bool) := [']
        txt.append(';\n'.join(f'({i}%Z, {e})' for i, e in chunk) + '].')
        txt.append('Goal True. idtac "@@ failing". Abort.')
        txt.append('Eval vm_compute in map fst (filter (fun c => negb (snd c)) cases).')
        return snap_eval(ctx, f'{name}_{k}', '\n'.join(txt) + '\n', timeout=timeout)

    with ThreadPoolExecutor(max_workers=12) as ex:
        results = list(ex.map(one, range(len(files))))
    bad = []
    for k, (rc, out, err) in enumerate(results):
        if rc != 0:
            ctx.log(f'{name}_{k}.v failed to compile:', err[-800:])
            return None
        t = lib.parse_marked(out).get('failing', '')
        t = t.split(':')[0]
        bad += [int(x) for x in re.findall(r'\d+', t)]
    return bad


def coq_show(ctx, name, expr):
    """evaluate an expression of type list string in Coq and return the lines"""
    txt = [COQ_HEAD, 'Goal True. idtac "@@ value". Abort.',
           f'Eval vm_compute in ({expr}).']
    rc, out, err = snap_eval(ctx, name, '\n'.join(txt) + '\n')
    if rc != 0:
        return ['<coq error> ' + err[-300:]]
    t = lib.parse_marked(out).get('value', '')
    return re.findall(r'"((?:[^"]|"")*)"', t.split('\n     : ')[0])


# ------------------------------------------------------------------ main
def sig_roundtrip(mesh, comps):
    m = mesh['meta']
    if m.get('over_existing'):
        return {'oracle': 'roundtrip', 'component': ','.join(comps), 'over_existing_file': True}
    return {'oracle': 'roundtrip', 'component': ','.join(comps),
            'unreferenced_nodes': m['n_unref'] > 0,
            'temperature_order': m['temp']}


def main(ctx):
    tier = ctx.tier
    ctx.rule = ('random meshes (1-8 of the writer\'s element types, dense/sparse/large ids in shuffled '
                'storage order, unreferenced nodes, element groups incl. ALL / singleton groups, '
                'SOLID/SHELL sections, initial temperatures in node or permuted order) x '
                '{written text, read-back, formatting variants}; a case is non-trivial when the '
                'mesh has >= 1 element; distinct = distinct (mesh, variant kind, variant text)')
    ctx.trusted += [
        'translator translate/c01_tables.py (fail-closed Python-ast; tables, permutations, formats, '
        'ignore pattern)',
        'harness glue: file <-> list of lines (split at newline), float -> 13-digit decimal by '
        'Python decimal (exact, round-half-even), canonical dump of the FEMData read back '
        '(harness/c01_impl.py dump, c01_common.show_read)',
        'binary64 <-> decimal text conversion of libc/NumPy (strtod, printf) is trusted; the '
        'correspondence checks printf against the exact decimal on every coordinate',
        'S-definitions of FrontISTR node ordering (coq/C01/Orient.v)',
    ]
    ctx.assumptions += [
        'node ids < 2^53 (the reader parses node ids through float64), ids positive',
        'element group names / material names are \\w+ words; element groups non-empty',
        'materials (values), node groups and EGRP= in !ELEMENT headers are outside the model',
    ]
    # ---------------------------------------------------------------- 1. translate
    tie_ok = True
    degraded = {}
    tables_text = None
    try:
        tables, consumed, degraded = c01_tables.translate_degrading(str(lib.REPO))
        ctx.sources = consumed
        tables_text = c01_tables.emit(tables)
        lib.write_if_changed(lib.COQ / 'C01' / 'gen' / 'Tables.v', tables_text)
        if degraded:
            # policy T -> H: the regions the translator could not read are taken from the
            # committed translation of the registered tree (translate/c01_baseline.json); what
            # they decide is decided below by a widened correspondence / oracle instead
            for k, why in degraded.items():
                ctx.log(f'translator could not read region {k}: {why} -> baseline model + widened correspondence')
            ctx.notes['degraded_regions'] = degraded
        ctx.notes['translated_tables'] = {k: tables[k] for k in (
            'prism_perm_write', 'prism_write_codes', 'prism_perm_read', 'prism_read_type',
            'frac_digits', 'ignore_pats', 'ignore_src', 'rebind_by_id', 'merge_egroups',
            'merge_initial', 'merge_ngroups', 'msh_truncated')}
    except (c01_tables.TranslateError, SyntaxError, OSError) as e:
        tie_ok = False
        tables = None
        ctx.log('translator failed closed:', e)
        ctx.notes['translator_error'] = str(e)

    # ---------------------------------------------------------------- 2. proofs
    proof_ok = False
    cfg_ok = False
    props = lib.COQ / 'C01' / 'Props.v'
    if tie_ok and props.exists():
        proof_ok, log = ctx.build_props('C01/Props.v')
        # coq/C01/gen/Tables.v is also written by the C03 check (same translator); if a C03
        # run against another tree replaced it in between, write ours again and rebuild
        for _ in range(2):
            tv = lib.COQ / 'C01' / 'gen' / 'Tables.v'
            if tv.read_text() == tables_text:
                break
            ctx.log('gen/Tables.v was replaced by a concurrent run: regenerating and rebuilding')
            lib.write_if_changed(tv, tables_text)
            ctx.obligations.clear()
            proof_ok, log = ctx.build_props('C01/Props.v')
        if not proof_ok:
            ctx.notes['build_log_tail'] = log[-2500:]
        if (lib.COQ / 'C01' / 'PropsCfg.v').exists():
            n0 = len(ctx.obligations)
            cfg_ok, log2 = ctx.build_props('C01/PropsCfg.v')
            if not cfg_ok:
                ctx.notes['cfg_build_log_tail'] = log2[-1500:]
    elif props.exists():
        for f in ('Props.v', 'PropsCfg.v'):
            if (lib.COQ / 'C01' / f).exists():
                for n in lib.theorem_names(lib.COQ / 'C01' / f):
                    ctx.obligations.append({'name': n, 'discharged': False, 'assumptions': [],
                                            'note': 'translator failed closed'})
    model_ok = tie_ok
    orient_ok = proof_ok
    if tie_ok:
        t0 = time.time()
        model_ok, orient_ok, slog = build_snapshot(ctx, tables_text)
        ctx.log(f'private model snapshot for the correspondence (build/C01/snap): model_ok={model_ok} '
                f'orient_ok={orient_ok} ({time.time() - t0:.1f}s) {slog[:300]}')
        if not model_ok:
            ctx.notes['model_build_log_tail'] = slog[-1500:]

    # ---------------------------------------------------------------- 3. cases
    n_mesh = {'quick': 40, 'thorough': 600}.get(tier, 40)
    n_extra = 0
    if degraded and tier != 'thorough':
        n_mesh = 64          # widened correspondence (text + read + variants inside Coq)
        n_extra = 200        # + implementation-side oracle only (round trip, rewrite, variants)
    meshes = []
    corpus = sorted((lib.VERIF / 'corpus' / 'C01').glob('*.json')) \
        if (lib.VERIF / 'corpus' / 'C01').exists() else []
    for p in corpus:
        c = json.loads(p.read_text())
        c['meta']['corpus'] = p.name
        meshes.append(c)
    # directed: every type alone, all eight together
    for t in cm.WRITER_TYPES:
        meshes.append(cm.gen_mesh(ctx.rng, types=[t]))
    meshes.append(cm.gen_mesh(ctx.rng, size='large', types=list(cm.WRITER_TYPES)))
    meshes.append(cm.gen_mesh(ctx.rng, types=['tet', 'prism'],
                              features={'n_unref': 2, 'temp': 'permuted', 'groups': 'singletons'}))
    if degraded:
        # every writer type alone once more, with groups / sections / temperatures / unreferenced
        # nodes, and the pairs with a prism: what the translated tables and flags decide
        for t in cm.WRITER_TYPES:
            meshes.append(cm.gen_mesh(ctx.rng, types=[t], features={
                'n_unref': 1, 'temp': 'permuted', 'groups': 'some', 'sections': 'some'}))
        for t in ('tet', 'hex', 'tri'):
            meshes.append(cm.gen_mesh(ctx.rng, types=['prism', t]))
    while len(meshes) < n_mesh + len(corpus):
        meshes.append(cm.gen_mesh(ctx.rng, size='small' if ctx.rng.random() < 0.8 else 'large'))
    n_coq = len(meshes)
    for _ in range(n_extra):
        meshes.append(cm.gen_mesh(ctx.rng, size='small' if ctx.rng.random() < 0.7 else 'large'))
    work = ctx.scratch / 'work'
    jobs = [{'op': 'write_read', 'id': i, 'dir': str(work / f'm{i}'), 'mesh': cm.child_mesh(ctx.rng, m),
             'msh_only': True} for i, m in enumerate(meshes)]
    # every second mesh is written with overwrite=True over an earlier export of a different mesh
    for i, j in enumerate(jobs):
        if i % 2 == 1:
            pre = dict(meshes[i - 1])
            j['pre_mesh'] = pre
            meshes[i]['meta']['over_existing'] = True
        else:
            meshes[i]['meta']['over_existing'] = False
    t0 = time.time()
    res1 = cm.run_child(ctx, jobs, 'phase1')
    ctx.log(f'phase 1 (write + read back) on {len(meshes)} meshes: {time.time() - t0:.1f}s')

    # variants
    vjobs = []
    vinfo = {}
    for i, m in enumerate(meshes):
        r = res1[i]
        for k, v in m['meta'].items():
            if k != 'types':
                ctx.count(f'{k}:{v}')
        for t in m['meta']['types']:
            ctx.count('type:' + t)
        ctx.count('n_types:%d' % len(m['meta']['types']))
        if 'msh' not in r:
            ctx.count('write_error')
            continue
        lines = r['msh'].split('\n')
        if lines and lines[-1] == '':
            lines = lines[:-1]
        r['lines'] = lines
        variants = make_variants(ctx.rng, lines, tier)
        if i >= n_coq:
            variants = ctx.rng.sample(variants, min(2, len(variants)))
        for kind, vl in variants:
            vid = len(vjobs)
            vinfo[vid] = (i, kind, vl)
            vjobs.append({'op': 'read', 'id': vid, 'dir': str(work / f'v{vid}'),
                          'files': {'mesh.msh': '\n'.join(vl) + '\n'}, 'read': ['mesh.msh']})
            ctx.count('variant:' + kind.split(':')[0])
    t0 = time.time()
    res2 = cm.run_child(ctx, vjobs, 'phase2')
    ctx.log(f'phase 2 (read {len(vjobs)} formatting variants): {time.time() - t0:.1f}s')

    def shown(r):
        return cm.show_read(r['read']) if 'read' in r else ['ERROR']

    # orientation: single affine (and a few general) tets / prisms / hexes with integer coordinates
    ocases = gen_orient_cases(ctx.rng, {'quick': 36, 'thorough': 300}.get(tier, 36))
    ojobs = [{'op': 'volumes', 'id': 'vol', 'mode': 'linear',
              'cases': [{'type': c['type'], 'coords': [[float(x).hex() for x in p] for p in c['coords']],
                         'node_ids': c['node_ids'], 'conn': c['conn']} for c in ocases]}]
    for k, c in enumerate(ocases):
        ojobs.append({'op': 'write_read', 'id': k, 'dir': str(work / f'o{k}'), 'msh_only': True,
                      'mesh': {'node_ids': c['node_ids'],
                               'coords': [[float(x).hex() for x in p] for p in c['coords']],
                               'elems': [[c['type'], [1], [c['conn']]]]}})
    t0 = time.time()
    res3 = cm.run_child(ctx, ojobs, 'phase3')
    ctx.log(f'phase 3 (orientation: {len(ocases)} single elements written, femio volumes): '
            f'{time.time() - t0:.1f}s')
    orient_items = []
    orient_bad = []
    for k, c in enumerate(ocases):
        ctx.count('orient:' + c['type'] + (':affine' if c['affine'] else ':general'))
        vol = res3['vol']['volumes'][k]
        r = res3[k]
        ctx.case(['orient', c['type'], c['coords'], c['node_ids']], nontrivial=True)
        if vol.startswith('error') or 'msh' not in r:
            orient_bad.append((k, 'femio raised: ' + str(vol) + str(r.get('write_error'))))
            continue
        v = float.fromhex(vol)
        num, den = v.as_integer_ratio()
        orient_items.append((k, f'match q6_of {lib.coq_str(c["type"])} {coq_qpts(c["coords"])} with '
                                f'Some m => close (6 * ({num}#{den})) m | None => false end'))
        if c['affine']:
            orient_items.append((1000 + k,
                                 f'match q6_of {lib.coq_str(c["type"])} {coq_qpts(c["coords"])}, '
                                 f'qfistr_of {lib.coq_str(c["type"])} {coq_qpts(c["coords"])} with '
                                 f'Some a, Some b => Z.eqb (sgn a) (sgn b) && negb (Z.eqb (sgn a) 0) '
                                 f'| _, _ => false end'))
            # the property on the implementation: orientation (S-definition, exact integers) of
            # the node order found in the written file vs the sign of femio's volume
            lines = r['msh'].split('\n')
            i0 = [i for i, l in enumerate(lines) if l.startswith('!ELEMENT')][0]
            conn = [int(x) for x in lines[i0 + 1].split(',')][1:]
            xyz = dict(zip(c['node_ids'], [tuple(p) for p in c['coords']]))
            meas = fistr_measure(c['type'], [xyz[n] for n in conn])
            if (meas > 0) != (v > 0):
                orient_bad.append((k, f'femio volume {v}, FrontISTR orientation measure of the written '
                                      f'order {meas}'))

    # ---------------------------------------------------------------- 4. correspondence
    text_items, read_items = [], []
    for i, m in enumerate(meshes[:n_coq]):
        r = res1[i]
        exp = r['lines'] if 'lines' in r else ['ERROR']
        text_items.append((i, f'lines_eqb (show_lines (write_msh_mat {cm.coq_mesh(m)} {cm.coq_mats(m)})) '
                              f'{cm.coq_lines(exp)}'))
        if 'lines' in r:
            read_items.append((i, f'lines_eqb (show_full {cm.coq_lines(r["lines"])}) '
                                  f'{cm.coq_lines(shown(r))}'))
    for vid, (i, kind, vl) in vinfo.items():
        if i < n_coq:
            read_items.append((100000 + vid, f'lines_eqb (show_full {cm.coq_lines(vl)}) '
                                             f'{cm.coq_lines(shown(res2[vid]))}'))
    bad_text = bad_read = None
    if model_ok:
        t0 = time.time()
        bad_text = coq_failing(ctx, 'CorrText', text_items)
        bad_read = coq_failing(ctx, 'CorrRead', read_items)
        ctx.log(f'correspondence in Coq ({len(text_items)} texts, {len(read_items)} reads): '
                f'{time.time() - t0:.1f}s; disagreements: text {bad_text}, read {bad_read}')
    bad_orient = coq_failing(ctx, 'CorrOrient', orient_items, head=COQ_HEAD_ORIENT) \
        if (model_ok and orient_ok) else ([] if model_ok else None)
    if model_ok and not orient_ok:
        ctx.notes['orientation_correspondence'] = 'skipped: Orient.v does not check against the translated tables'
    ctx.log(f'orientation / kernel correspondence in Coq ({len(orient_items)} checks): disagreements {bad_orient}')
    n_corr = len(text_items) + len(read_items) + len(orient_items)
    n_dis = (len(bad_text) if bad_text else 0) + (len(bad_read) if bad_read else 0) \
        + (len(bad_orient) if bad_orient else 0)
    ctx.corr = {'cases': n_corr, 'text_cases': len(text_items), 'read_cases': len(read_items),
                'disagreements': n_dis if bad_text is not None and bad_read is not None else 'not evaluated'}

    if degraded:
        ctx.notes['tie'] = ('H (translator could not read ' + '; '.join(f'{k}: {v}' for k, v in degraded.items())
                            + f'; baseline model + widened correspondence, {n_corr} cases inside Coq, '
                            f'{len(meshes)} meshes / {len(vinfo)} formatting variants / 70001-row table '
                            'on the implementation-side oracle)')
        ctx.trusted.append('regions ' + ', '.join(degraded) + ' of the model are the committed translation of '
                           'the registered tree (translate/c01_baseline.json), tied by correspondence only')
    else:
        ctx.notes['tie'] = 'T (tables / flags re-translated from the tree under test) + H (text / read correspondence in Coq)'
    # ---------------------------------------------------------------- 4b. translator validation
    # the functions / constants the translator reads are RUN in femio and compared, inside Coq,
    # with the generated definitions (gen/Tables.v): detect_fistr_element_type on every type
    # name, _convert_fistr_element_type on every code of the table and on codes outside it,
    # _reorder_prism_data on a 2 x 6 array, ELEMENT_TYPES
    tv_bad = None
    if model_ok:
        types_probe = list(dict.fromkeys(c01_tables.KNOWN_TYPE_NAMES + list(tables['element_types'])
                                         + ['no_such_type', '', 'TET']))
        codes_probe = ['000', '35', '3511', ' 351', '', '351 ', 'tet'] + [c for _, c in tables['detect_table']]
        tvr = cm.run_child(ctx, [{'op': 'tables', 'id': 'tv', 'types': types_probe,
                                  'codes': codes_probe}], 'tables')['tv']
        tv_items = []
        tv_what = {}
        if 'fatal' in tvr:
            # femio cannot even be imported / the classes are gone: every other stream fails too
            ctx.log('translator validation skipped, femio side failed:', tvr['fatal'])
            ctx.notes['translator_validation_skipped'] = tvr['fatal']
        else:
            def opt(r):
                return f'Some {lib.coq_str(r[1])}' if r[0] == 'ok' else 'None'
            if tvr.get('missing'):
                ctx.notes['translator_validation_missing'] = tvr['missing']
            for t, r in (tvr.get('detect') or {}).items():
                tv_what[len(tv_items)] = f'detect_fistr_element_type({t!r}) = {r}'
                tv_items.append((len(tv_items), f'opt_str_eqb (lookup {lib.coq_str(t)} detect_table) ({opt(r)})'))
            for c, r in (tvr.get('convert') or {}).items():
                tv_what[len(tv_items)] = f'_convert_fistr_element_type({c!r}) = {r}'
                tv_items.append((len(tv_items), f'opt_str_eqb (lookup {lib.coq_str(c)} fistr_elements) ({opt(r)})'))
            if 'element_types' in tvr:
                tv_what[len(tv_items)] = f'ELEMENT_TYPES = {tvr["element_types"]}'
                tv_items.append((len(tv_items), 'lines_eqb element_types '
                                 + cm.coq_lines(tvr['element_types'])))
            ro = tvr.get('reorder')
            if ro is not None:
                tv_what[len(tv_items)] = f'_reorder_prism_data(arange(12).reshape(2, 6) + 10) = {ro}'
                if 'rows' in ro and ro.get('argument_unchanged'):
                    rows = lib.coq_list([lib.coq_list([lib.coq_Z(x) for x in r]) for r in ro['rows']])
                    tv_items.append((len(tv_items),
                                     'match mapO (permute prism_perm_write) [[10;11;12;13;14;15]%Z; '
                                     '[16;17;18;19;20;21]%Z] with Some rs => '
                                     f'list_eqb (list_eqb Z.eqb) rs {rows} | None => false end'))
                else:
                    tv_items.append((len(tv_items), 'false'))
        head = COQ_HEAD + '\n'.join([
            'From FV.C01.gen Require Import Tables.',
            'Definition opt_str_eqb (a b : option string) : bool := match a, b with '
            'Some x, Some y => String.eqb x y | None, None => true | _, _ => false end.', ''])
        tv_bad = coq_failing(ctx, 'CorrTables', tv_items, head=head)
        ctx.log(f'translator validation in Coq ({len(tv_items)} checks): disagreements {tv_bad}')
        ctx.notes['translator_validation'] = {'checks': len(tv_items), 'disagreements': tv_bad}
        ctx.corr['cases'] += len(tv_items)
        ctx.corr['translator_validation_cases'] = len(tv_items)
        if tv_bad is None:
            ctx.violation('correspondence', {}, 'translator validation file compiles', 'coqc failed',
                          'translator validation C01', found_input=False,
                          signature={'kind': 'correspondence', 'side': 'tables-coqc'})
        for k in (tv_bad or [])[:3]:
            ctx.violation('correspondence', {'probe': tv_what.get(k)},
                          'gen/Tables.v (translated' + (' / baseline' if degraded else '')
                          + ') agrees with the function run in femio', tv_what.get(k),
                          'translator validation C01 (tables)', found_input=True,
                          signature={'kind': 'correspondence', 'side': 'tables',
                                     'probe': (tv_what.get(k) or '').split('(')[0]},
                          what='a translated table / permutation differs from what femio computes')

    # ---------------------------------------------------------------- 5. property oracle on the implementation
    n_eval = 0
    impl_bad = 0
    for i, m in enumerate(meshes):
        r = res1[i]
        mcase = {'mesh': m}
        if jobs[i].get('pre_mesh') is not None:
            mcase['pre_mesh'] = jobs[i]['pre_mesh']
        nontriv = sum(len(ids) for _, ids, _ in m['elems']) > 0
        ctx.case(['mesh', m['node_ids'], m['elems'], m.get('egroups'), m.get('sections'),
                  m.get('temp')], nontrivial=nontriv,
                 sample={'mesh_meta': m['meta'], 'n_nodes': len(m['node_ids']),
                         'msh_head': (r.get('lines') or [])[:6],
                         'read_back': shown(r)[:6]})
        n_eval += 1
        if 'write_error' in r or 'read' not in r:
            impl_bad += 1
            ctx.violation('impl-violation', mcase, 'write then read succeeds',
                          {k: r.get(k) for k in ('write_error', 'read_error')},
                          'C01_msh_roundtrip / oracle on implementation', found_input=True,
                          signature={'oracle': 'roundtrip', 'component': 'exception',
                                     'error': re.sub(r'\d+', 'N', (r.get('write_error') or r.get('read_error') or ''))[:60],
                                     'over_existing_file': bool(m['meta'].get('over_existing'))},
                          what='write or read-back raised on a well-formed mesh')
            continue
        # the caller's mesh is not modified by write(), and writing the same object a second
        # time gives the same file
        if r.get('mutated') or r.get('write2_error') or r.get('msh2') != r.get('msh'):
            impl_bad += 1
            what = ('write() modified the in-memory mesh: ' + ','.join(r['mutated'])) if r.get('mutated') \
                else 'the second write of the same FEMData differs from the first'
            l2 = (r.get('msh2') or '').split('\n')
            diff_at = next((k for k, (a, b) in enumerate(zip(r['lines'], l2)) if a != b), None)
            ctx.violation('impl-violation', mcase,
                          'write() leaves the mesh as it was; a second write gives the same file',
                          {'mutated': r.get('mutated'), 'write2_error': r.get('write2_error'),
                           'first_differing_line': [r['lines'][diff_at], l2[diff_at]] if diff_at is not None else None},
                          'C01_msh_roundtrip / oracle on implementation (mesh held by the caller)',
                          found_input=True,
                          signature={'oracle': 'rewrite', 'mutated': ','.join(r.get('mutated') or []),
                                     'types': ','.join(t for t in m['meta']['types'] if t == 'prism')},
                          what=what)
        comps = roundtrip_diff(m, r['read'])
        if comps:
            impl_bad += 1
            ctx.violation('impl-violation', mcase,
                          'read(write(mesh)) = mesh (maps by id, 13 significant digits)',
                          {'differs_in': comps, 'read_back': shown(r)},
                          'C01_msh_roundtrip / oracle on implementation', found_input=True,
                          signature=sig_roundtrip(m, comps),
                          what=f'round trip changes {comps}')
    for vid, (i, kind, vl) in vinfo.items():
        base = res1[i]
        ctx.case(['variant', kind, vl], nontrivial=True)
        n_eval += 1
        if 'read' not in base:
            continue
        same = shown(res2[vid]) == shown(base)
        if not same:
            impl_bad += 1
            k0 = kind.split(':')[0]
            ctx.violation('impl-violation',
                          {'variant': kind, 'text': vl, 'base_text': base['lines']},
                          'the reader returns the same mesh for the variant as for the written text',
                          {'variant_read': shown(res2[vid]), 'base_read': shown(base),
                           'error': res2[vid].get('read_error')},
                          'C01_read_format_insensitive / oracle on implementation',
                          found_input=True,
                          signature={'oracle': 'format', 'variant': k0,
                                     'block': kind.split(':')[1] if ':' in kind else ''},
                          what=f'formatting variant "{kind}" changes what is read')
    # edge stream, implementation-side oracle only (the Coq model answers Err "outside the
    # model" here and wf_text excludes it): an element group WITHOUT members, (a) among other
    # groups, (b) in the configuration where write_msh takes its one-group-per-element path
    # (as many non-ALL groups as elements and as many members as elements)
    edge = []
    for k in range({'quick': 4, 'thorough': 24}.get(tier, 4)):
        path = 'fastpath' if k % 2 else 'plain'
        em = cm.gen_mesh(ctx.rng, types=None if k >= 2 else ['tet'], features={
            'groups': 'some', 'empty_group': path, 'sections': 'none', 'materials': 'none'})
        for _ in range(20):          # the one-group-per-element configuration needs >= 2 elements
            if path != 'fastpath' or sum(len(ids) for _, ids, _ in em['elems']) >= 2:
                break
            em = cm.gen_mesh(ctx.rng, size='large', features={
                'groups': 'some', 'empty_group': path, 'sections': 'none', 'materials': 'none'})
        # which path write_msh takes is decided by its own guard: len(values) == n_elements ==
        # len(element_groups) - 1 (values = members of the non-ALL groups)
        n_el = sum(len(ids) for _, ids, _ in em['elems'])
        n_val = sum(len(v) for g, v in em['egroups'] if g != 'ALL')
        path = 'fastpath' if n_val == n_el == len(em['egroups']) - 1 else 'plain'
        em['meta']['empty_group'] = path
        edge.append(em)
    res_e = cm.run_child(ctx, [{'op': 'write_read', 'id': i, 'dir': str(work / f'e{i}'), 'mesh': m,
                                'msh_only': True} for i, m in enumerate(edge)], 'edge')
    for i, m in enumerate(edge):
        r = res_e[i]
        path = m['meta']['empty_group']
        ctx.case(['edge-mesh', m['node_ids'], m['elems'], m.get('egroups')], nontrivial=True)
        ctx.count('edge:empty-element-group:' + path)
        n_eval += 1
        comps = ['exception'] if 'read' not in r else roundtrip_diff(m, r['read'])
        if comps:
            impl_bad += 1
            ctx.violation('impl-violation', {'mesh': m},
                          'read(write(mesh)) = mesh, the element group without members included',
                          {'differs_in': comps, 'error': r.get('write_error') or r.get('read_error'),
                           'written_egroup_lines': [l for l in (r.get('msh') or '').split('\n')
                                                    if 'EGROUP' in l][:8],
                           'read_back_groups': (r.get('read') or {}).get('egroups')},
                          'C01 oracle on implementation (outside wf_text: empty element group)',
                          found_input=True,
                          signature={'oracle': 'roundtrip', 'edge': 'empty-element-group', 'path': path,
                                     'component': ','.join(comps)},
                          what=f'round trip of a mesh with an empty element group ({path}) changes {comps}')
    for k, why in orient_bad[:3]:
        impl_bad += 1
        c = ocases[k]
        ctx.violation('impl-violation', {'orient_case': c, 'msh': res3[k].get('msh')},
                      'a positively oriented element is written in FrontISTR\'s positive node order',
                      why, 'C01_orientation_* / oracle on implementation', found_input=True,
                      signature={'oracle': 'orientation', 'type': c['type']},
                      what=f'written {c["type"]} has the wrong orientation for FrontISTR')
    if bad_orient:
        for idx in bad_orient[:3]:
            c = ocases[idx % 1000]
            ctx.violation('correspondence', {'orient_case': c},
                          'femio volume (mode=linear) x 6 = Orient.q6_of; sign = FrontISTR measure of to_fistr',
                          {'femio_volume': res3['vol']['volumes'][idx % 1000], 'check': 'kernel' if idx < 1000 else 'sign'},
                          'correspondence C01 orientation kernels', found_input=False,
                          signature={'kind': 'correspondence', 'side': 'orientation', 'type': c['type']},
                          what='volume kernel / orientation model disagrees with femio')
    # sizes: one table with more than 65 536 rows (nodes and initial temperatures), on the
    # implementation only, against the round-trip oracle (thorough tier, and whenever the tie
    # is broken: extended search)
    if tier == 'thorough' or not tie_ok or not proof_ok or degraded:
        t0 = time.time()
        big = gen_large(ctx.seed)
        nn = len(big['node_ids'])
        rb = cm.run_child(ctx, [{'op': 'write_read', 'id': 0, 'dir': str(work / 'big'), 'mesh': big,
                                 'msh_only': True}], 'big')[0]
        ctx.case(['large-table', nn], nontrivial=True)
        ctx.count('size:large-table(70001 rows)')
        n_eval += 1
        comps = ['exception'] if 'read' not in rb else roundtrip_diff(big, rb['read'])
        ctx.log(f'large-table case ({nn} node rows): {time.time() - t0:.1f}s, differs in {comps}')
        if comps:
            impl_bad += 1
            small = {k: (v if k in ('elems', 'meta') else '<%d entries: regenerate with seed>' % nn)
                     for k, v in big.items()}
            ctx.violation('impl-violation', {'large_mesh': small, 'seed': ctx.seed},
                          'read(write(mesh)) = mesh for a table of more than 65 536 rows',
                          {'differs_in': comps, 'error': rb.get('write_error') or rb.get('read_error')},
                          'C01_msh_roundtrip / oracle on implementation (large table)',
                          found_input=True, signature={'oracle': 'roundtrip', 'size': 'large-table'},
                          what=f'round trip of a {nn}-row table changes {comps}')
    ctx.notes['search_evaluations'] = n_eval
    ctx.notes['impl_property_failures'] = impl_bad

    # ---------------------------------------------------------------- 6. broken tie / proof / correspondence
    def explain(idx):
        if idx >= 100000:
            i, kind, vl = vinfo[idx - 100000]
            model = coq_show(ctx, 'Explain', f'show_full {cm.coq_lines(vl)}')
            return ({'variant': kind, 'text': vl}, shown(res2[idx - 100000]), model, 'read:' + kind.split(':')[0])
        m = meshes[idx]
        return ({'mesh': m}, None, None, 'mesh')

    if bad_text:
        for i in bad_text[:3]:
            model = coq_show(ctx, 'Explain', f'show_lines (write_msh_mat {cm.coq_mesh(meshes[i])} {cm.coq_mats(meshes[i])})')
            ctx.violation('correspondence', {'mesh': meshes[i]}, {'model_text': model},
                          {'femio_text': res1[i].get('lines'), 'write_error': res1[i].get('write_error')},
                          'correspondence C01 text: femio .msh = Model.write_msh (byte for byte)',
                          found_input=False, signature={'kind': 'correspondence', 'side': 'write'},
                          what='the written .msh differs from the model')
    if bad_read:
        for idx in bad_read[:3]:
            if idx >= 100000:
                case, impl, model, tag = explain(idx)
            else:
                case = {'mesh': meshes[idx], 'text': res1[idx]['lines']}
                impl = shown(res1[idx])
                model = coq_show(ctx, 'Explain', f'show_full {cm.coq_lines(res1[idx]["lines"])}')
                tag = 'read:base'
            ctx.violation('correspondence', case, {'model_read': model}, {'femio_read': impl},
                          'correspondence C01 read: femio read_files = Model.read_msh',
                          found_input=False, signature={'kind': 'correspondence', 'side': tag},
                          what='femio reads something else than the model')
    if model_ok and (bad_text is None or bad_read is None or bad_orient is None):
        ctx.violation('correspondence', {}, 'correspondence files compile', 'coqc failed',
                      'correspondence C01', found_input=False,
                      signature={'kind': 'correspondence', 'side': 'coqc'})
    if not tie_ok:
        ctx.violation('tie-broken', {'translator_error': ctx.notes.get('translator_error')},
                      'translator accepts the table / permutation / format regions', 'fail-closed',
                      'translator c01_tables', found_input=False, signature={'kind': 'tie-broken'})
    if tie_ok and props.exists() and not proof_ok:
        bad = [o['name'] for o in ctx.obligations if not o['discharged']]
        ctx.violation('proof-broken', {'theorems': bad, 'log': ctx.notes.get('build_log_tail', '')[-600:]},
                      'Props.v checks against the regenerated tables', 'does not check',
                      ', '.join(bad), found_input=impl_bad > 0,
                      signature={'kind': 'proof-broken', 'file': 'Props.v'})
    if tie_ok and proof_ok and (lib.COQ / 'C01' / 'PropsCfg.v').exists() and not cfg_ok:
        reported = False
        if not any(p in tables.get('ignore_pats', []) for p in ('IBang', 'IBangWs', 'IBangAny')):
            reported = True
            ctx.violation('proof-broken',
                          {'ignore_pattern': tables.get('ignore_src'), 'translated': tables.get('ignore_pats')},
                          'bang_ok ignore_pats = true (the reader ignores `!!` comment lines)',
                          'false: a `!!` line opens a new block and the rows after it are lost',
                          'C01_bang_comments_ignored', found_input=True,
                          signature={'oracle': 'format', 'variant': 'bang-inside', 'kind': 'cfg'},
                          what='per-run obligation on the translated ignore pattern fails')
        if not tables.get('rebind_by_id'):
            reported = True
            ctx.violation('proof-broken', {'rebind_by_id': False},
                          'remove_useless_nodes re-attaches nodal data by node id',
                          'by storage position: values land on other node ids',
                          'C01_rebind_by_id', found_input=True,
                          signature={'oracle': 'roundtrip', 'component': 'initial_temperature',
                                     'unreferenced_nodes': True, 'temperature_order': 'permuted',
                                     'kind': 'cfg'},
                          what='per-run obligation on remove_useless_nodes fails')
        for flag, var in (('merge_egroups', 'split-egroup'), ('merge_initial', 'split-initial')):
            if not tables.get(flag):
                reported = True
                ctx.violation('proof-broken', {flag: False},
                              'blocks with the same name / type are merged by the reader',
                              'the later block replaces the earlier one',
                              'C01_same_name_blocks_merged', found_input=True,
                              signature={'oracle': 'format', 'variant': var, 'kind': 'cfg'},
                              what='per-run obligation on block merging fails')
        if not tables.get('msh_truncated'):
            reported = True
            ctx.violation('proof-broken', {'msh_truncated': False},
                          'the first write to <name>.msh truncates the file on every path',
                          'the file is opened for appending: an existing .msh is kept in front',
                          'C01_msh_file_truncated', found_input=impl_bad > 0,
                          signature={'oracle': 'roundtrip', 'over_existing_file': True, 'kind': 'cfg'},
                          what='per-run obligation on the effect program of write(fistr) fails')
        if not reported:
            ctx.violation('proof-broken', {'log': ctx.notes.get('cfg_build_log_tail', '')[-600:]},
                          'PropsCfg.v checks', 'does not check', 'PropsCfg.v', found_input=False,
                          signature={'kind': 'proof-broken', 'file': 'PropsCfg.v'})
    if tier == 'thorough' and proof_ok and hasattr(ctx, 'coqchk'):
        ctx.coqchk('C01/Props.v')
    ctx.exhaustive = False
    return ctx.finish()


def replay(path):
    rp = json.loads(Path(path).read_text())
    c = rp['case']
    ctx = lib.Ctx(PID, 'quick')
    work = ctx.scratch / 'replay'
    try:
        tbl, _, _ = c01_tables.translate_degrading(str(lib.REPO))
        build_snapshot(ctx, c01_tables.emit(tbl))
    except Exception as e:  # noqa  (replay still runs the implementation side)
        print('model snapshot not available:', e)
    if 'text' in c:
        jobs = [{'op': 'read', 'id': 0, 'dir': str(work / 'v'),
                 'files': {'mesh.msh': '\n'.join(c['text']) + '\n'}, 'read': ['mesh.msh']}]
        if 'base_text' in c:
            jobs.append({'op': 'read', 'id': 1, 'dir': str(work / 'b'),
                         'files': {'mesh.msh': '\n'.join(c['base_text']) + '\n'}, 'read': ['mesh.msh']})
        res = cm.run_child(ctx, jobs, 'replay')
        sv = cm.show_read(res[0]['read']) if 'read' in res[0] else ['ERROR', res[0].get('read_error')]
        print('implementation, variant text :', json.dumps(sv))
        model = coq_show(ctx, 'Replay', f'show_full {cm.coq_lines(c["text"])}')
        print('model, variant text          :', json.dumps(model))
        bad = False
        if 'base_text' in c:
            sb = cm.show_read(res[1]['read']) if 'read' in res[1] else ['ERROR']
            print('implementation, written text :', json.dumps(sb))
            bad = sb != sv
        print('property', 'VIOLATED' if bad else 'holds', 'on this input')
        return 1 if bad else 0
    if 'mesh' in c:
        m = c['mesh']
        job = {'op': 'write_read', 'id': 0, 'dir': str(work / 'm'), 'mesh': m, 'msh_only': True}
        if c.get('pre_mesh') is not None:
            job['pre_mesh'] = c['pre_mesh']
            print('(written with overwrite=True over an earlier export of another mesh)')
        res = cm.run_child(ctx, [job], 'replay')[0]
        print('implementation text:', json.dumps(res.get('msh', res.get('write_error'))))
        print('implementation read:', json.dumps(cm.show_read(res['read']) if 'read' in res else res.get('read_error')))
        model = coq_show(ctx, 'Replay', f'show_lines (write_msh_mat {cm.coq_mesh(m)} {cm.coq_mats(m)})')
        print('model text         :', json.dumps(model))
        bad = 'read' not in res or bool(roundtrip_diff(m, res['read']))
        print('mesh modified by write():', res.get('mutated'), '; second write identical:',
              res.get('msh2') == res.get('msh'))
        bad = bad or bool(res.get('mutated')) or res.get('msh2') != res.get('msh')
        if 'read' in res:
            print('round trip differs in:', roundtrip_diff(m, res['read']))
        print('property', 'VIOLATED' if bad else 'holds', 'on this input')
        return 1 if bad else 0
    if 'large_mesh' in c:
        big = gen_large(c['seed'])
        rb = cm.run_child(ctx, [{'op': 'write_read', 'id': 0, 'dir': str(work / 'big'), 'mesh': big,
                                 'msh_only': True}], 'replay')[0]
        comps = ['exception: ' + str(rb.get('write_error') or rb.get('read_error'))] \
            if 'read' not in rb else roundtrip_diff(big, rb['read'])
        print(f'large table ({len(big["node_ids"])} rows): round trip differs in', comps)
        print('property', 'VIOLATED' if comps else 'holds', 'on this input')
        return 1 if comps else 0
    if 'probe' in c:
        # translator validation: the translated (or baseline) tables against the functions run in femio
        tables, _, degraded = c01_tables.translate_degrading(str(lib.REPO))
        types_probe = list(dict.fromkeys(c01_tables.KNOWN_TYPE_NAMES + list(tables['element_types'])
                                         + ['no_such_type', '', 'TET']))
        tvr = cm.run_child(ctx, [{'op': 'tables', 'id': 'tv', 'types': types_probe,
                                  'codes': ['000', '35', '3511', ' 351', '', '351 ', 'tet']}], 'replay')['tv']
        print('recorded probe:', c['probe'])
        print('regions taken from the baseline:', degraded)
        bad = []
        dt, fe = dict(tables['detect_table']), dict(tables['fistr_elements'])
        for t, r in (tvr.get('detect') or {}).items():
            if (r[1] if r[0] == 'ok' else None) != dt.get(t):
                bad.append(f'detect_fistr_element_type({t!r}): femio {r}, tables {dt.get(t)!r}')
        for k, r in (tvr.get('convert') or {}).items():
            if (r[1] if r[0] == 'ok' else None) != fe.get(k):
                bad.append(f'_convert_fistr_element_type({k!r}): femio {r}, tables {fe.get(k)!r}')
        if 'element_types' in tvr and tvr['element_types'] != list(tables['element_types']):
            bad.append(f'ELEMENT_TYPES: femio {tvr["element_types"]}, tables {tables["element_types"]}')
        ro = tvr.get('reorder')
        if ro is not None:
            want = [[row[i] for i in tables['prism_perm_write']] for row in
                    ([10, 11, 12, 13, 14, 15], [16, 17, 18, 19, 20, 21])]
            if ro.get('rows') != want or not ro.get('argument_unchanged'):
                bad.append(f'_reorder_prism_data: femio {ro}, tables give {want} and leave the argument alone')
        for b in bad:
            print('DISAGREES:', b)
        print('translated tables', 'DISAGREE with' if bad else 'agree with', 'femio on the probes')
        return 1 if bad else 0
    print('nothing to replay on the implementation:', json.dumps(rp, indent=1)[:2000])
    return 1


if __name__ == '__main__':
    if len(sys.argv) > 2 and sys.argv[1] == 'replay':
        sys.exit(replay(sys.argv[2]))
    tier = sys.argv[1] if len(sys.argv) > 1 else 'quick'
    sys.exit(main(lib.Ctx(PID, tier)))
