"""C10 — the extracted / exported surface is the outward-oriented boundary.

run:  python harness/c10.py quick|thorough     |   python harness/c10.py replay <file>
"""
import json
import re
import subprocess
import sys
from fractions import Fraction
from pathlib import Path

sys.path.insert(0, str(Path(__file__).resolve().parent))
sys.path.insert(0, str(Path(__file__).resolve().parent.parent / 'translate'))
import lib  # noqa
import c10_gen  # noqa
import c10_tables  # noqa
import c10_tables_selftest  # noqa
import c10_objpin  # noqa

PID = 'C10'
COQ_TYPE = {'tet': 'Tet', 'tet2': 'Tet2', 'pyr': 'Pyr', 'prism': 'Prism', 'hex': 'Hex'}
CHECKS = ['extract_surface', 'to_surface', 'extract_surface_fistr', 'block_volumes', 'total_volume',
          'obj_write', 'obj_read', 'model_closed', 'model_volume', 'model_outward',
          'wf_mesh', 'oriented_conforming', 'model_positive', 'obj_text', 'model_manifold', 'obj_vtext']

# ---- independent description of element faces (orientation-free cycles) used
# by the property oracle on the implementation's output
FACE_CYCLES = {
    'tet': [(0, 1, 2), (0, 1, 3), (1, 2, 3), (0, 2, 3)],
    'pyr': [(0, 1, 4), (1, 2, 4), (2, 3, 4), (3, 0, 4), (0, 1, 2, 3)],
    'prism': [(0, 1, 2), (3, 4, 5), (0, 1, 4, 3), (1, 2, 5, 4), (2, 0, 3, 5)],
    'hex': [(0, 1, 2, 3), (4, 5, 6, 7), (0, 1, 5, 4), (1, 2, 6, 5), (2, 3, 7, 6), (3, 0, 4, 7)],
}
FACE_CYCLES['tet2'] = FACE_CYCLES['tet']
N_CORNER = {'tet': 4, 'tet2': 4, 'pyr': 5, 'prism': 6, 'hex': 8}


# ------------------------------------------------------------------ literals
def zl(l):
    return lib.coq_list([lib.coq_Z(x) for x in l])


def nl(l):
    return lib.coq_list([str(int(x)) for x in l])


def c3(p):
    return '(' + ', '.join(lib.coq_Z(x) for x in p) + ')'


def mesh_literal(case):
    blocks = []
    for typ, es in case['blocks'].items():
        blocks.append('(%s, %s)' % (COQ_TYPE[typ], lib.coq_list(
            ['(%s, %s)' % (lib.coq_Z(e[0]), zl(e[1])) for e in es])))
    return '{| m_nodes := %s; m_blocks := %s |}' % (
        zl([n[0] for n in case['nodes']]), lib.coq_list(blocks))


def nodes_literal(case):
    return lib.coq_list(['(%s, %s)' % (lib.coq_Z(n[0]), c3(n[1])) for n in case['nodes']])


def numbered(ids, data):
    return lib.coq_list(['(%s, %s)' % (lib.coq_Z(i), zl(d)) for i, d in zip(ids, data)])


def fix_obligations(ctx):
    """lib.build_props takes the header line `Axioms:` of Print Assumptions
    for an axiom name; drop it and re-evaluate (reported for a fix in lib)"""
    for o in ctx.obligations:
        if 'Axioms' in o['assumptions']:
            o['assumptions'] = [a for a in o['assumptions'] if a != 'Axioms']
            bad = [a for a in o['assumptions'] if a not in lib.STDLIB_AXIOMS]
            if not bad and o['note'] == 'non-stdlib axioms: Axioms':
                o['discharged'] = True
                o['note'] = ''
    return all(o['discharged'] for o in ctx.obligations)


def is_err(x):
    return isinstance(x, dict) and 'error' in x


def unscale(nd, case, power=1):
    """implementation value n/d of a quantity that scales with length^power ->
    the value on the unscaled (integer) mesh, as an exact fraction [n', d']"""
    sc = case.get('scale')
    if not sc:
        return nd
    return [nd[0] * sc[1] ** power, nd[1] * sc[0] ** power]


def uncoord(row, case):
    """implementation coordinates (three fractions) -> coordinates on the unscaled mesh at the
    origin, as Fractions (offset and scale removed exactly)"""
    off = case.get('offset') or [0, 0, 0]
    return [Fraction(*unscale(x, case)) - o for x, o in zip(row, off)]


def coord_int(row, case):
    v = uncoord(row, case)
    return [int(x) for x in v] if all(x.denominator == 1 for x in v) else None


def frac_int(nd):
    f = Fraction(nd[0], nd[1])
    return int(f) if f.denominator == 1 else None


# ------------------------------------------------------------- impl runner
def run_impl(ctx, cases, tag='impl', probes=None):
    spec = {'work': str(ctx.scratch / 'work'), 'out': str(ctx.scratch / f'{tag}_out.json'),
            'probes': probes or [],
            'cases': [{k: c[k] for k in ('id', 'nodes', 'blocks', 'want', 'scale', 'offset', 'move', 'moved_blocks', 'history',
                                            'mod_args', 'dtype') if k in c}
                      for c in cases]}
    sp = ctx.scratch / f'{tag}_spec.json'
    sp.write_text(json.dumps(spec))
    r = subprocess.run([lib.PY, str(lib.VERIF / 'harness' / 'c10_impl.py'), str(sp)],
                       text=True, capture_output=True, env=lib.impl_env(), timeout=1500)
    if r.returncode != 0:
        raise RuntimeError('impl runner failed: ' + r.stderr[-2000:])
    return {x['id']: x for x in json.loads(Path(spec['out']).read_text())}


def want_for(case):
    w = ['surface', 'to_surface', 'volumes', 'obj', 'to_surface_all']
    if set(case['blocks']) <= {'tet'} or set(case['blocks']) <= {'tet2'}:
        w.append('fistr')
    return w


# ----------------------------------------------------- correspondence in Coq
def case_checks(case, r, expect_ok=True):
    """-> (coq definitions, list of coq bool expressions in CHECKS order)"""
    i = case['id']
    defs = [f'Definition m{i} : mesh := {mesh_literal(case)}.',
            f'Definition nd{i} : list (Z * C3) := {nodes_literal(case)}.',
            f'Definition pos{i} := pos_of nd{i}.']
    T = 'true'
    out = []
    s = r.get('surface')
    if s is None:
        out.append(T)
    elif is_err(s):
        out.append(f'check_surface_none m{i}')
    else:
        if set(s) - {'tri', 'quad'}:
            out.append('false')
        else:
            tri = '(' + lib.coq_list([nl(f) for f in s.get('tri', [])]) + ')%nat'
            quad = '(' + lib.coq_list([nl(f) for f in s.get('quad', [])]) + ')%nat'
            defs.append(f'Definition tri{i} : list (list nat) := {tri}.')
            defs.append(f'Definition quad{i} : list (list nat) := {quad}.')
            out.append(f'check_surface m{i} tri{i} quad{i}')
    ts = r.get('to_surface')
    if ts is None or is_err(ts):
        out.append(T if ts is None or is_err(s) else 'false')
    else:
        el = ts['elements']
        if set(el) - {'tri', 'quad'}:
            out.append('false')
        else:
            t_ = el.get('tri', {'ids': [], 'data': []})
            q_ = el.get('quad', {'ids': [], 'data': []})
            out.append(f'check_to_surface m{i} {zl(ts["nodes"])} {numbered(t_["ids"], t_["data"])} '
                       f'{numbered(q_["ids"], q_["data"])}')
    fi = r.get('fistr')
    if fi is None:
        out.append(T)
    elif is_err(fi):
        out.append('false')
    else:
        rows = lib.coq_list(['(%s, %s)' % (lib.coq_Z(a), lib.coq_Z(b)) for a, b in fi])
        out.append(f'check_fistr m{i} {rows}')
    v = r.get('volumes')
    if v is None:
        out += [T, T]
    elif is_err(v):
        out += ['false', 'false'] if expect_ok else [T, T]
    else:
        parts = []
        # relative tolerance 2^-40 (kernels: float64 about a local point; measured worst 2^-48.7 over the
        # generator's meshes incl. offsets 2e7 and scales 2^-13); float32 coordinates: tet kernel runs in float32
        vtol = 20 if case.get('dtype') == 'float32' else 40
        for typ, es in case['blocks'].items():
            vs = lib.coq_list(['(%s, %s)' % (lib.coq_Z(a), lib.coq_Z(b))
                               for a, b in (unscale(x, case, 3) for x in v[typ])])
            eslit = lib.coq_list(['(%s, %s)' % (lib.coq_Z(e[0]), zl(e[1])) for e in es])
            parts.append(f'check_block_volumes_k {vtol} pos{i} {COQ_TYPE[typ]} {eslit} {vs}')
        out.append(' && '.join(parts) if parts else T)
        tot = lib.coq_list(['(%s, %s)' % (lib.coq_Z(a), lib.coq_Z(b))
                            for a, b in (unscale(x, case, 3) for x in v['_total'])])
        out.append(f'sum_fracs_close_k {vtol} (mesh_vol24 ZOps pos{i} m{i}) {tot}')
    ob = r.get('obj')
    if ob is None or is_err(ob):
        out += [T, T] if ob is None or is_err(s) else ['false', 'false']
    else:
        lines = []
        bad = False
        for ln in ob['lines']:
            if ln[0] == 'v' and len(ln) == 4 and coord_int(ln[1:], case) is not None:
                lines.append('OV ' + c3(coord_int(ln[1:], case)))
            elif ln[0] == 'f':
                lines.append('OF ' + zl(ln[1:]))
            else:
                bad = True
        defs.append(f'Definition ol{i} : list (objline C3) := {lib.coq_list(lines)}.')
        coords = lib.coq_list([c3(n[1]) for n in case['nodes']])
        out.append('false' if bad else f'check_obj_write m{i} {coords} ol{i}')
        rd = ob['read']
        okc = all(coord_int(row, case) is not None for row in rd['node_xyz'])
        if not okc or set(rd['elements']) - {'tri', 'quad', 'polygon'}:
            out.append('false')
        else:
            nodes = lib.coq_list(['(%s, %s)' % (lib.coq_Z(a), c3(coord_int(row, case)))
                                  for a, row in zip(rd['nodes'], rd['node_xyz'])])
            parts = []
            for k in ('tri', 'quad', 'polygon'):
                e = rd['elements'].get(k, {'ids': [], 'data': []})
                parts.append(numbered(e['ids'], e['data']))
            out.append(f'check_obj_read ol{i} {nodes} {" ".join(parts)}')
    if expect_ok:
        out += [f'model_closed m{i}', f'model_volume_ok pos{i} m{i}', f'model_outward pos{i} m{i}',
                f'wf_mesh m{i}', f'oriented_conforming m{i}', f'model_positive pos{i} m{i}']
    else:
        exp = case.get('expect', {})
        out += [T, T, T,
                ('wf_mesh m%d' % i) if exp.get('wf', True) else ('negb (wf_mesh m%d)' % i),
                T if exp.get('oc', True) is None else
                ('oriented_conforming m%d' % i) if exp.get('oc', True)
                else ('negb (oriented_conforming m%d)' % i), T]
    # OBJ `f` lines as characters (ObjText.face_line evaluated on the model's surface)
    fraw = ob.get('fraw') if (ob is not None and not is_err(ob)) else None
    if fraw is None:
        out.append(T)
    elif not all(all(32 <= ord(ch) < 127 for ch in ln) for ln in fraw):
        out.append('false')
    else:
        defs.append(f'Definition ft{i} : list string := {lib.coq_list([lib.coq_str(ln) + "%string" for ln in fraw])}.')
        out.append(f'check_obj_text m{i} ft{i}')
    # C10_surface_manifold_edges on the model: hypothesis and conclusion evaluated (the generator's
    # lattices contain non-manifold contacts along edges: both outcomes of edge_manifold occur)
    out.append(f'model_manifold_ok m{i}' if expect_ok else T)
    # OBJ `v` lines as characters: each raw line is exactly "v " + its three blank-separated tokens joined by
    # single blanks (ObjVText.vertex_line with the float rendering as identity on the tokens)
    vraw = ob.get('vraw') if (ob is not None and not is_err(ob)) else None
    if vraw is None:
        out.append(T)
    elif not all(all(32 <= ord(ch) < 127 for ch in ln) for ln in vraw) or any(len(ln.split()) != 4 for ln in vraw):
        out.append('false')
    else:
        toks = lib.coq_list(['(%s, %s, %s)' % tuple(lib.coq_str(t) + '%string' for t in ln.split()[1:]) for ln in vraw])
        defs.append(f'Definition vt{i} : list string := {lib.coq_list([lib.coq_str(ln) + "%string" for ln in vraw])}.')
        out.append(f'check_obj_vtext vt{i} {toks}')
    assert len(out) == len(CHECKS)
    return defs, out


HEADER = ['From Coq Require Import String.', 'From Coq Require Import List ZArith Bool Arith.', 'Import ListNotations.',
          'From FV.C10 Require Import Model Corr ObjText ObjVText.', 'Open Scope Z_scope.',
          'Set Printing Width 100000.', 'Set Printing Depth 100000.']


def run_coq_cases(ctx, cases, res, name, chunk=25):
    """returns {case id: [failing check names]} ; None entry = file failed"""
    failing = {}
    chunks = [cases[k:k + chunk] for k in range(0, len(cases), chunk)]
    procs = []
    for ci, ch in enumerate(chunks):
        txt = list(HEADER)
        items = []
        for c in ch:
            defs, checks = case_checks(c, res[c['id']], expect_ok=c.get('valid', True))
            txt += defs
            txt.append(f'Definition r{c["id"]} : list bool := {lib.coq_list(checks)}.')
            items.append(f'({c["id"]}%nat, r{c["id"]})')
        txt.append(f'Definition allr : list (nat * list bool) := {lib.coq_list(items)}.')
        txt.append('Goal True. idtac "@@ failing". Abort.')
        txt.append('Eval vm_compute in report allr.')
        f = ctx.scratch / f'{name}_{ci}.v'
        f.write_text('\n'.join(txt) + '\n')
        procs.append((ch, f, subprocess.Popen(
            ['timeout', '900', 'coqc', '-Q', str(lib.COQ), 'FV', '-Q', str(f.parent), 'Scratch', str(f)],
            cwd=f.parent, stdout=subprocess.PIPE, stderr=subprocess.PIPE, text=True)))
        if len(procs) >= 8:
            _collect(procs, failing, ctx)
            procs = []
    _collect(procs, failing, ctx)
    return failing


def _collect(procs, failing, ctx):
    for ch, f, p in procs:
        out, err = p.communicate()
        if p.returncode != 0:
            ctx.log('scratch file failed:', f.name, err[-400:])
            for c in ch:
                failing[c['id']] = None
            continue
        t = lib.parse_marked(out).get('failing', '')
        t = t.split(': list')[0]
        for a, b in re.findall(r'\((\d+)(?:%nat)?,\s*(\d+)(?:%nat)?\)', t):
            failing.setdefault(int(a), []).append(CHECKS[int(b)])


# ------------------------------------- translator validation (face-table probes)
PROBE_TYPES = {'tet': ('tbl_tet', '4%nat'), 'tet2': ('tbl_tet2', 'cols_tet2'), 'hex': ('tbl_hex', '8%nat'),
               'pyr': ('tbl_pyr', '5%nat'), 'prism': ('tbl_prism', '6%nat'), 'hexprism': ('tbl_hexprism', '12%nat')}


def gen_probes(rng, per_type):
    """connectivity rows with pairwise different, sparse, unsorted node ids for each of the six solid
    types _generate_all_faces has a table for (hexprism is reached by no mesh generator)"""
    out = []
    for typ in c10_tables.TYPES:
        for k in range(per_type):
            n_rows = 1 + k % 3
            ids = rng.sample(range(1, 10 ** rng.choice([2, 4, 9, 12])), n_rows * c10_tables.ARITY[typ])
            a = c10_tables.ARITY[typ]
            out.append({'type': typ, 'rows': [ids[j * a:(j + 1) * a] for j in range(n_rows)]})
    return out


def run_coq_probes(ctx, probes, obs):
    """generated tables applied inside Coq (Corr.check_probe) vs what _generate_all_faces returned;
    -> list of indices of disagreeing probes, or None when the scratch file failed"""
    txt = list(HEADER) + ['From FV.C10.gen Require Import FaceTables.']
    items = []
    for k, (p, o) in enumerate(zip(probes, obs)):
        tb, nc = PROBE_TYPES[p['type']]
        if is_err(o):
            items.append('(%d%%nat, false)' % k)
            continue
        groups = lib.coq_list([lib.coq_list([zl(f) for f in g]) for g in o['groups']])
        items.append('(%d%%nat, check_probe %s %s %s %s)' % (k, tb, nc, lib.coq_list([zl(r) for r in p['rows']]), groups))
    txt.append('Definition probes : list (nat * bool) := %s.' % lib.coq_list(items))
    txt.append('Goal True. idtac "@@ failing". Abort.')
    txt.append('Eval vm_compute in map fst (filter (fun c => negb (snd c)) probes).')
    rc, out, err = ctx.coq_eval('Probes', '\n'.join(txt) + '\n')
    if rc != 0:
        ctx.log('probe scratch file failed:', err[-400:])
        return None
    t = lib.parse_marked(out).get('failing', '').split(': list')[0]
    return [int(x) for x in re.findall(r'\d+', t)]


def probe_oracle(p, o):
    """the face rows of one element as orientation-free node sets against the independent FACE_CYCLES"""
    if p['type'] not in FACE_CYCLES or is_err(o):
        return None if not is_err(o) else 'raises'
    exp = sorted(tuple(sorted(r[j] for j in cyc)) for r in p['rows'] for cyc in FACE_CYCLES[p['type']])
    got = sorted(tuple(sorted(f)) for g in o['groups'] for f in g)
    return None if exp == got else 'face_sets_differ'


# ------------------------------------------------- property oracle (Python)
def cyc_rotations(f):
    f = list(f)
    return [tuple(f[k:] + f[:k]) for k in range(len(f))]


def oracle(case, r):
    """the property itself, evaluated exactly on what the implementation
    returned; -> list of (check, detail)"""
    bad = []
    ids = [n[0] for n in case['nodes']]
    xyz = {n[0]: n[1] for n in case['nodes']}
    s = r.get('surface')
    if s is None or is_err(s):
        return [('extract_surface_raises', s)] if s is not None else []
    # element faces, orientation-free
    owners = {}
    elems = []
    for typ, es in case['blocks'].items():
        for eid, conn in es:
            elems.append((typ, eid, conn))
            for cyc in FACE_CYCLES[typ]:
                f = tuple(conn[k] for k in cyc)
                owners.setdefault(tuple(sorted(f)), []).append((typ, eid, conn, f))
    boundary = {k: v[0] for k, v in owners.items() if len(v) == 1}
    surf = []
    for k in ('tri', 'quad'):
        for f in s.get(k, []):
            try:
                surf.append(tuple(ids[j] for j in f))
            except (IndexError, TypeError):
                bad.append(('index_out_of_range', f))
    if set(s) - {'tri', 'quad'}:
        bad.append(('unexpected_face_shape', sorted(s)))
    keys = [tuple(sorted(f)) for f in surf]
    if sorted(keys) != sorted(boundary):
        miss = sorted(set(boundary) - set(keys))[:3]
        extra = sorted(set(keys) - set(boundary))[:3]
        bad.append(('not_the_boundary_faces', {'missing': miss, 'extra': extra,
                                               'n_surface': len(keys), 'n_boundary': len(boundary)}))
    # each surface face is a traversal of the element face (either direction)
    for f in surf:
        o = boundary.get(tuple(sorted(f)))
        if o is None:
            continue
        cyc = o[3]
        if f not in cyc_rotations(cyc) and f not in cyc_rotations(cyc[::-1]):
            bad.append(('not_a_face_cycle', {'face': f, 'element_face': cyc}))
    # closed: directed edges balance
    bal = {}
    for f in surf:
        for a, b in zip(f, f[1:] + f[:1]):
            bal[(a, b)] = bal.get((a, b), 0) + 1
            bal[(b, a)] = bal.get((b, a), 0) - 1
    open_edges = sorted(e for e, v in bal.items() if v != 0)
    if open_edges:
        bad.append(('not_closed', {'unbalanced_directed_edges': open_edges[:4], 'n': len(open_edges)}))
    # outward: (face centre - owner's centre) . vector area > 0
    for f in surf:
        o = boundary.get(tuple(sorted(f)))
        if o is None:
            continue
        typ, eid, conn, _ = o
        nc = N_CORNER[typ]
        cc = [Fraction(sum(xyz[i][k] for i in conn[:nc]), nc) for k in range(3)]
        fc = [Fraction(sum(xyz[i][k] for i in f), len(f)) for k in range(3)]
        area = [0, 0, 0]
        for a, b in zip(f, f[1:] + f[:1]):
            pa, pb = xyz[a], xyz[b]
            area[0] += pa[1] * pb[2] - pa[2] * pb[1]
            area[1] += pa[2] * pb[0] - pa[0] * pb[2]
            area[2] += pa[0] * pb[1] - pa[1] * pb[0]
        d = sum((fc[k] - cc[k]) * area[k] for k in range(3))
        if d <= 0:
            bad.append(('not_outward', {'face': f, 'element': eid, 'type': typ}))
            break
    # enclosed volume (exact) = sum of exact element volumes
    enc = Fraction(0)
    for f in surf:
        pts = [xyz[i] for i in f]
        c = [Fraction(sum(p[k] for p in pts), len(pts)) for k in range(3)]
        for a, b in zip(pts, pts[1:] + pts[:1]):
            enc += Fraction(c10_gen.det3(c, a, b), 6) if len(pts) > 3 else 0
        if len(pts) == 3:
            enc += Fraction(c10_gen.det3(*pts), 6)
    tot = sum(Fraction(c10_gen.vol6(typ, [xyz[i] for i in conn]), 6) for typ, _, conn in elems)
    if enc != tot:
        bad.append(('enclosed_volume', {'enclosed': str(enc), 'sum_of_elements': str(tot)}))
    v = r.get('volumes')
    if v is not None and not is_err(v):
        ft = sum(Fraction(*unscale([a, b], case, 3)) for a, b in v['_total'])
        if abs(ft - tot) > Fraction(1, 2 ** 18) * (abs(tot) + 1):
            bad.append(('femio_volume_sum', {'femio': str(ft), 'exact': str(tot)}))
    # views
    ts = r.get('to_surface')
    if ts is not None:
        if is_err(ts):
            bad.append(('to_surface_raises', ts.get('msg')))
        else:
            got = [tuple(f) for k in ('tri', 'quad') for f in ts['elements'].get(k, {'data': []})['data']]
            if got != surf:
                bad.append(('to_surface_differs', {'n': len(got)}))
            if sorted(ts['nodes']) != sorted({i for f in surf for i in f}):
                bad.append(('to_surface_nodes', None))
            # the surface mesh object pairs every kept node id with that node's coordinates
            for nid, row in zip(ts['nodes'], ts['node_xyz']):
                if nid not in xyz or uncoord(row, case) != list(map(Fraction, xyz[nid])):
                    bad.append(('to_surface_node_coordinates', {'node': nid}))
                    break
    ta = r.get('to_surface_all')
    if ta is not None:
        if is_err(ta):
            bad.append(('to_surface_all_raises', ta.get('msg')))
        else:
            got = [tuple(f) for k in ('tri', 'quad') for f in ta['elements'].get(k, {'data': []})['data']]
            if got != surf:
                bad.append(('to_surface_keep_nodes_differs', {'n': len(got)}))
            if ta['nodes'] != ids or [uncoord(row, case) for row in ta['node_xyz']] != \
                    [list(map(Fraction, n[1])) for n in case['nodes']]:
                bad.append(('to_surface_keep_nodes_node_table', None))
    ob = r.get('obj')
    if ob is not None:
        if is_err(ob):
            bad.append(('obj_raises', ob.get('msg')))
        else:
            vs = [ln for ln in ob['lines'] if ln[0] == 'v']
            fs = [ln for ln in ob['lines'] if ln[0] == 'f']
            if [uncoord(ln[1:], case) for ln in vs] != [list(map(Fraction, n[1])) for n in case['nodes']]:
                bad.append(('obj_vertices', None))
            objf = []
            for ln in fs:
                try:
                    objf.append(tuple(ids[j - 1] if j >= 1 else None for j in ln[1:]))
                except IndexError:
                    objf.append(None)
            if objf != surf:
                bad.append(('obj_faces_differ', {'first': [list(ln[1:]) for ln in fs[:2]]}))
            rd = ob['read']
            rdf = sorted((i, tuple(d)) for k in rd['elements'] for i, d in
                         zip(rd['elements'][k]['ids'], rd['elements'][k]['data']))
            if [d for _, d in rdf] != [tuple(ln[1:]) for ln in fs] or \
                    rd['nodes'] != list(range(1, len(vs) + 1)) or \
                    [[Fraction(*x) for x in row] for row in rd['node_xyz']] != \
                    [[Fraction(*x) for x in ln[1:]] for ln in vs]:
                bad.append(('obj_read_back', None))
    fi = r.get('fistr')
    if fi is not None:
        if is_err(fi):
            bad.append(('fistr_raises', fi.get('msg')))
        else:
            conn_of = {eid: conn for _, eid, conn in elems}
            fk = []
            for eid, n in fi:
                cset = FACE_CYCLES['tet']
                # FrontISTR numbering of tetra faces: 1:(1,2,3) 2:(1,2,4) 3:(2,3,4) 4:(3,1,4)
                nodes = {1: (0, 1, 2), 2: (0, 1, 3), 3: (1, 2, 3), 4: (2, 0, 3)}.get(n)
                if eid not in conn_of or nodes is None:
                    fk.append(None)
                else:
                    fk.append(tuple(sorted(conn_of[eid][k] for k in nodes)))
            if sorted(fk, key=repr) != sorted(keys, key=repr):
                bad.append(('fistr_differs', {'n_fistr': len(fk), 'n_surface': len(keys)}))
    return bad


def round_result(rnd):
    """views of one round as a result dict (a view taken twice in a round: the last one)"""
    return dict(rnd)


def expected_state(case, mesh, op):
    """harness-side model of the in-place modifiers: mesh (nodes, blocks) -> mesh; None = not predicted"""
    nodes, blocks = mesh
    args = case.get('mod_args', {})
    if op == 'M:remove_useless_nodes':
        used = {i for es in blocks.values() for _, c in es for i in c}
        if used == {n[0] for n in nodes}:
            return nodes, blocks
        return sorted([n for n in nodes if n[0] in used], key=lambda n: n[0]), blocks
    if op in ('M:assign_new', 'M:assign_same'):
        (typ, es), = blocks.items()
        if op == 'M:assign_new':
            perm = args['perm']
        else:
            a, b = args['swap']
            perm = list(range(len(es)))
            perm[a], perm[b] = b, a
        return nodes, {typ: [[es[j][0], es[perm[j]][1]] for j in range(len(es))]}
    if op == 'M:move_nodes':
        return [[n[0], list(c)] for n, c in zip(nodes, args['coords'])], blocks
    return None


def mesh_of_state(case, st):
    nodes = []
    for i, row in zip(st['nodes'], st['xyz']):
        c = coord_int(row, case)
        nodes.append([i, c if c is not None else [float(Fraction(*x)) for x in row]])
    blocks = {t: [[e, list(d)] for e, d in zip(v['ids'], v['data'])] for t, v in st['blocks'].items()}
    return nodes, {t: blocks[t] for t in c10_gen.TYPE_ORDER if t in blocks}


def rounds_of(case, r):
    """-> list of (round index, mesh in force, views, modifier problems)"""
    mesh = ([[n[0], list(n[1])] for n in case['nodes']],
            {t: [[e, list(c)] for e, c in es] for t, es in case['blocks'].items()})
    out = []
    for k, (ops, rnd) in enumerate(zip(case['history'], r.get('history') or [])):
        probs = []
        mods = [op for op in ops if op.startswith('M:')]
        if 'state' in rnd:
            obs = mesh_of_state(case, rnd['state'])
            exp = mesh
            for op in mods:
                exp = expected_state(case, exp, op) if exp is not None else None
            if exp is not None and (exp[0] != obs[0] or exp[1] != obs[1]):
                probs.append(('modifier_result_unexpected:' + ','.join(mods), None))
            if exp is None:
                # make_elements_positive: same ids, same node sets per element
                same = {t: [(e, sorted(c)) for e, c in es] for t, es in obs[1].items()} == \
                    {t: [(e, sorted(c)) for e, c in es] for t, es in mesh[1].items()} and obs[0] == mesh[0]
                if not same:
                    probs.append(('modifier_changed_more_than_orientation', None))
            mesh = obs
        views = {v: x for v, x in rnd.items() if v != 'state'}
        out.append((k, mesh, views, probs, bool(mods)))
    return out


def judge(case, r):
    """the property on everything the implementation returned: one view each on fresh objects, or
    several rounds of views on ONE object, possibly modified in place between the rounds (each round
    is judged on the mesh then in force; without a modification later views must equal earlier ones)"""
    if 'history' not in case:
        return oracle(case, r)
    bad = []
    seen = {}
    for k, mesh, views, probs, modified in rounds_of(case, r):
        tag = '' if k == 0 else 'later_round_%d:' % k
        bad += [(tag + a, b) for a, b in probs]
        if modified:
            seen = {}
        ck = dict(case, nodes=mesh[0], blocks=mesh[1])
        if 'surface' in views and k >= case.get('oracle_from_round', 0):
            bad += [(tag + a, b) for a, b in oracle(ck, views)]
        for view, val in views.items():
            if is_err(val):
                bad.append((tag + view + '_raises', val.get('msg')))
            elif view in seen and seen[view] != val:
                bad.append(('later_view_differs:' + view, {'round': k}))
            seen.setdefault(view, val)
    return bad[:6]


def expand_history(cases, res):
    extra = []
    for c in cases:
        if 'history' not in c:
            continue
        for k, mesh, views, probs, modified in rounds_of(c, res[c['id']]):
            if not views:
                continue
            c2 = dict(c, id=len(cases) + len(extra), derived=True, first_case=c['id'],
                      nodes=mesh[0], blocks=mesh[1],
                      valid=c['valid'] and k >= c.get('oracle_from_round', 0),
                      expect={'wf': True, 'oc': None},
                      meta=dict(c['meta'], stage='round_%d' % k))
            rr = dict(views)
            rr['id'] = c2['id']
            res[c2['id']] = rr
            extra.append(c2)
    return extra


def plate(rng, n):
    """one-layer n x n hex plate (2 n (n + 2) boundary quads... 2 n^2 + 4 n): sizes beyond the
    thresholds a block-wise writer may have; judged by the Python oracle only"""
    def nid(i, j, k):
        return 11 + 3 * (i + (n + 1) * (j + (n + 1) * k))
    nodes = [[nid(i, j, k), [2 * i, 2 * j, 2 * k]] for k in range(2) for j in range(n + 1) for i in range(n + 1)]
    rng.shuffle(nodes)
    es = []
    for j in range(n):
        for i in range(n):
            es.append([1 + i + n * j, [nid(i, j, 0), nid(i + 1, j, 0), nid(i + 1, j + 1, 0), nid(i, j + 1, 0),
                                       nid(i, j, 1), nid(i + 1, j, 1), nid(i + 1, j + 1, 1), nid(i, j + 1, 1)]])
    return {'nodes': nodes, 'blocks': {'hex': es}, 'valid': True, 'oracle_only': True,
            'want': ['surface', 'obj', 'to_surface'],
            'meta': {'kind': 'plate', 'dims': [n, n, 1], 'n_elem': n * n, 'boundary_faces': 2 * n * n + 4 * n,
                     'id_mode': 'sparse', 'affine': 'id'}}


# ------------------------------------------------------------------ cases
def gen_cases(ctx, widened=False):
    rng = ctx.rng
    n_valid = 110 if ctx.tier == 'quick' else 1500
    if widened and ctx.tier == 'quick':
        n_valid = 330
    cases = []
    kinds = ['hex', 'tet', 'pyr', 'prism', 'hexpyr', 'mix', 'tetprism', 'tet', 'mix']
    for k in range(n_valid):
        kind = kinds[k % len(kinds)]
        tet2 = kind == 'tet' and rng.choice([False, True, 'some'])
        m = c10_gen.gen_mesh(rng, kind=kind, tet2=tet2, max_elems=40 if ctx.tier == 'quick' else 60,
                             id_mode='radix' if k % 5 == 1 else None)
        c = {'nodes': m['nodes'], 'blocks': m['blocks'], 'meta': m['meta'], 'valid': True}
        # length scale (exact powers of two): volumes scale by s^3 (C10_volume_scale), the surface
        # does not change; the model runs on the unscaled integer mesh
        if k % 4 == 3:
            sc = [(1, 2 ** 11), (1, 2 ** 13), (2 ** 7, 1)][(k // 4) % 3]
            c['scale'] = list(sc)
            c['meta'] = dict(c['meta'], scale='%d/%d' % sc)
        # far from the origin (exact integer offsets ~1e6..1e7 cell sizes, also combined with the small
        # scales): the surface, the OBJ text and (since /repo 38049d8: kernels relative to a local point,
        # float64) the volumes must not care (C10_volume_translate)
        if k % 10 == 2 and 'scale' not in c:
            # coordinate dtype other than float64 (integer coordinates of the lattice are exact in all)
            c['dtype'] = ['float32', 'int64', 'int32'][(k // 10) % 3]
            c['meta'] = dict(c['meta'], dtype=c['dtype'])
        if k % 6 == 5:
            c['offset'] = [rng.choice([-1, 1]) * rng.randint(2 * 10 ** 6, 2 * 10 ** 7) for _ in range(3)]
            c['meta'] = dict(c['meta'], offset='1e6..1e7')
        cases.append(c)
    # same-object histories: several rounds of views on ONE object; every later view is compared with
    # the model and with the exact oracle, and must equal the earlier one
    templates = [
        [['obj'], ['surface', 'to_surface', 'obj']],
        [['to_surface'], ['to_surface', 'surface', 'fistr']],
        [['surface', 'obj'], ['obj', 'to_surface', 'surface']],
        [['to_surface', 'fistr'], ['surface', 'obj'], ['obj', 'surface', 'to_surface']],
        [['obj', 'obj'], ['fistr', 'surface', 'to_surface']],
        [['surface'], ['X:other', 'to_surface', 'surface', 'obj']],
        # an in-place MODIFICATION between the views: every later view is a function of the new mesh
        [['surface', 'to_surface'], ['M:remove_useless_nodes', 'surface', 'to_surface', 'obj', 'fistr']],
        [['surface'], ['M:remove_useless_nodes', 'to_surface', 'surface']],
        [['surface', 'obj'], ['M:move_nodes', 'surface', 'to_surface', 'obj']],
        [['surface'], ['M:assign_new', 'surface', 'to_surface', 'fistr']],
        [['to_surface', 'surface'], ['M:assign_same', 'surface', 'obj', 'to_surface', 'fistr']],
        [['surface'], ['M:positive', 'surface', 'to_surface', 'obj']],
        [['surface', 'to_surface'], ['M:positive2', 'to_surface', 'surface', 'fistr']],
    ]
    hkinds = ['prism', 'pyr', 'mix', 'hexpyr', 'tetprism', 'tet', 'hex']
    single = ['prism', 'pyr', 'tet', 'hex']
    n_hist = 39 if ctx.tier == 'quick' else 390
    if widened and ctx.tier == 'quick':
        n_hist = 78
    for k in range(n_hist):
        tpl = templates[k % len(templates)]
        mods = [op for rnd in tpl for op in rnd if op.startswith('M:')]
        needs_single = any(op in ('M:assign_new', 'M:assign_same', 'M:positive', 'M:positive2') for op in mods)
        kind = single[(k // len(templates)) % len(single)] if needs_single else hkinds[k % len(hkinds)]
        if any(op.startswith('M:positive') for op in mods):
            kind = 'tet'      # femio's _permute exists for tet only (NotImplementedError for every other type)
        kw = {}
        if 'M:remove_useless_nodes' in mods:
            kw = {'extra_nodes': rng.choice([1, 3, 5]), 'extra_pos': ['first', 'middle', 'last'][(k // len(templates)) % 3]}
        if any(op.startswith('M:positive') for op in mods):
            kw = {'invert_some': 0.4}
        m = c10_gen.gen_mesh(rng, kind=kind, dims=rng.choice([(1, 1, 1), (2, 1, 1), (2, 2, 1), (2, 2, 2)]),
                             max_elems=30, **kw)
        tets_only = set(m['blocks']) <= {'tet'}
        hist = [list(dict.fromkeys(op for op in rnd if op != 'fistr' or tets_only)) for rnd in tpl]
        if k % len(templates) == 4:
            hist[0] = ['obj', 'obj']
        c = {'nodes': m['nodes'], 'blocks': m['blocks'], 'valid': True, 'history': hist, 'want': ['history'],
             'meta': dict(m['meta'], history='|'.join(','.join(r) for r in hist))}
        n_el = sum(len(v) for v in m['blocks'].values())
        if needs_single and len(m['blocks']) == 1 and n_el >= 1:
            perm = list(range(n_el))
            rng.shuffle(perm)
            c['mod_args'] = {'perm': perm, 'swap': [rng.randrange(n_el), rng.randrange(n_el)]}
        elif needs_single:
            continue
        if 'M:move_nodes' in mods:
            name, M = rng.choice([a for a in c10_gen.AFFINE if c10_gen.det3(*a[1]) > 0 and a[0] != 'id'])
            t = (rng.randint(-6, 6), rng.randint(-6, 6), rng.randint(-6, 6))
            c['mod_args'] = {'coords': [list(c10_gen.mat_apply(M, t, p)) for _, p in m['nodes']]}
        if any(op.startswith('M:positive') for op in mods):
            c['oracle_from_round'] = 1      # before make_elements_positive the mesh is not oriented
        cases.append(c)
    # one plate with more than 8 192 boundary quadrilaterals (oracle on the implementation only)
    cases.append(plate(rng, 67))
    # single reference-like elements of each type (any table slip shows here first)
    for kind in ['hex', 'tet', 'pyr', 'prism']:
        for aff in c10_gen.AFFINE[:3]:
            m = c10_gen.gen_mesh(rng, kind=kind, dims=(1, 1, 1), affine=aff)
            cases.append({'nodes': m['nodes'], 'blocks': m['blocks'], 'meta': m['meta'], 'valid': True})
    # second stream: not oriented-conforming (one element inverted) / dangling node id:
    # model and implementation must still agree; the predicates must say "no"
    n_bad = 12 if ctx.tier == 'quick' else 150
    if widened and ctx.tier == 'quick':
        n_bad = 36
    for k in range(n_bad):
        kind = kinds[k % len(kinds)]
        if k % 3 == 2:
            m = c10_gen.gen_mesh(rng, kind=kind, dims=(2, 1, 1), extra_nodes=0)
            # drop one referenced node
            used = {i for es in m['blocks'].values() for _, c in es for i in c}
            victim = sorted(used)[rng.randrange(len(used))]
            m['nodes'] = [n for n in m['nodes'] if n[0] != victim]
            m['meta']['malformed'] = 'dangling'
            exp = {'wf': False, 'oc': True}
            want = ['surface']
        else:
            m = c10_gen.gen_mesh(rng, kind=kind, dims=(2, 2, 1), invert_one=True)
            m['meta']['malformed'] = 'inverted_element'
            # not oriented-conforming exactly when the inverted element shares a face
            inv = m['meta']['inverted_eid']
            own = {}
            for typ, es in m['blocks'].items():
                for eid, conn in es:
                    for cyc in FACE_CYCLES[typ]:
                        own.setdefault(tuple(sorted(conn[j] for j in cyc)), []).append(eid)
            shared = any(len(v) > 1 and inv in v for v in own.values())
            exp = {'wf': True, 'oc': not shared}
            want = ['surface', 'to_surface', 'obj']
        c = {'nodes': m['nodes'], 'blocks': m['blocks'], 'meta': m['meta'], 'valid': False,
             'want': want}
        if exp:
            c['expect'] = exp
        cases.append(c)
    for i, c in enumerate(cases):
        c['id'] = i
        c.setdefault('want', want_for(c))
    return cases


def signature(case, check):
    return {'check': check, 'kind': case['meta'].get('kind'), 'types': sorted(case['blocks']),
            'scale': case['meta'].get('scale', '1'), 'offset': case['meta'].get('offset', '0'),
            'history': case['meta'].get('history', 'fresh_object_per_view')}


def shrink(ctx, case, still_fails, budget=8):
    """greedy element removal while `still_fails(case)` holds"""
    cur = case
    if case.get('mod_args') or case.get('oracle_only'):
        return cur          # arguments of the modifiers refer to rows / the size is the point
    for _ in range(budget):
        cands = []
        for typ, es in cur['blocks'].items():
            for k in range(len(es)):
                nb = {t: [e for j, e in enumerate(v) if not (t == typ and j == k)]
                      for t, v in cur['blocks'].items()}
                nb = {t: v for t, v in nb.items() if v}
                if nb:
                    cands.append(dict(cur, blocks=nb))
        if not cands:
            break
        cands = cands[:40]
        for i, c in enumerate(cands):
            c['id'] = i
            c['want'] = cur['want']
        try:
            res = run_impl(ctx, cands, tag='shrink')
        except Exception:
            break
        nxt = None
        for c in cands:
            if still_fails(c, res[c['id']]):
                nxt = c
                break
        if nxt is None:
            break
        cur = nxt
    return cur


def main(ctx):
    ctx.rule = ('lattice assemblies (<=3x3x3 cells; hex, Kuhn tets, 6-pyramid cells, prisms along x/y/z, '
                'partial cells, random occupancy = voids / L-shapes / several components) under 8 integer '
                'affine maps, tet->tet2, node/element ids seq|sparse|~2^31|>2^40, storage order shuffled, '
                'unreferenced nodes; plus a stream of inverted-element / dangling-id meshes; a case is '
                'non-trivial when it has an interior face or more than one element type; distinct = distinct '
                '(nodes, blocks)')
    ctx.trusted += [
        'translator translate/c10_tables.py (fail-closed Python-ast reader of the face tables)',
        'hand model coq/C10/Model.v of extract_facets/_extract_surface/to_surface/extract_surface_fistr/'
        'OBJ write+read, pinned by the correspondence check (numpy unique/lexsort, pandas .loc modelled)',
        'harness glue: OBJ text tokenised with str.split/int/float; floats converted with '
        'float.as_integer_ratio; meshes built with FEMData(nodes=..., elements=...)',
        'S-definitions in Model.v: directed edges, face24 (divergence contribution, centroid fan for '
        'quadrilaterals), outward2, reference elements, is_reversal',
    ]
    ctx.assumptions += [
        'real arithmetic is exact (floating point not modelled); volumes compared within 2^-20 relative',
        'STL export cannot run here (numpy-stl absent): only its use of extract_surface is covered',
        'elements are tet, tet2, pyr, prism, hex; polygons/polyhedra are outside the model',
    ]
    # 0. translator self-test: spellings with the same meaning must give the reference tables, edits
    # with another meaning must give other tables or fail closed
    try:
        nv, nm, st_problems = c10_tables_selftest.run()
    except Exception as e:          # noqa
        nv, nm, st_problems = 0, 0, ['self-test crashed: %r' % (e,)]
    ctx.notes['translator_selftest'] = {'variants': nv, 'mutants': nm, 'problems': st_problems}
    # 1. translate (T).  A region the translator cannot read is not by itself a violation: the
    # committed baseline tables become the hand model of that region (tie H) and the correspondence
    # is widened (BUILDERS_R5 policy); only a disagreement / a failing input is a violation.
    tie_ok = True
    gen_file = lib.COQ / 'C10' / 'gen' / 'FaceTables.v'
    baseline = lib.COQ / 'C10' / 'gen_baseline' / 'FaceTables.v'
    try:
        tr, consumed = c10_tables.translate(str(lib.REPO))
        ctx.sources = consumed
        lib.write_if_changed(gen_file, c10_tables.emit(tr))
        ctx.notes['tie_tables'] = 'T (tables re-translated from the tree under test)'
    except (c10_tables.TranslateError, SyntaxError, OSError, RecursionError) as e:
        tie_ok = False
        ctx.notes['translator_error'] = str(e)
        ctx.log('translator could not read the face tables:', e, '-> baseline tables + widened correspondence')
        try:
            ctx.sources = c10_tables.region_hashes(str(lib.REPO))
        except Exception:          # noqa
            pass
    fallback = False
    if not tie_ok and baseline.exists():
        lib.write_if_changed(gen_file, baseline.read_text())
        fallback = True
    # 2. proofs (in fallback mode: about the baseline tables)
    proof_ok = False
    if tie_ok or fallback:
        proof_ok, log = ctx.build_props('C10/Props.v', extra_targets=['C10/Corr.vo', 'C10/ObjText.vo', 'C10/ObjVText.vo'])
        proof_ok = fix_obligations(ctx) and bool(ctx.obligations)
        if not proof_ok:
            ctx.notes['build_log_tail'] = log[-1500:]
        if fallback:
            for o in ctx.obligations:
                o['note'] = (o.get('note') or '') + ' [about the baseline face tables: translator could not read the tree under test]'
    else:
        for n in lib.theorem_names(lib.COQ / 'C10' / 'Props.v'):
            ctx.obligations.append({'name': n, 'discharged': False, 'assumptions': [],
                                    'note': 'translator failed closed, no baseline'})
    model_ok, _, _ = lib.coq_make(['C10/Corr.vo', 'C10/ObjText.vo', 'C10/ObjVText.vo']) if (tie_ok or fallback) else (False, '', 0)

    # 2b. body fingerprint of the OBJ writer (size-dependent behaviour is out of reach of the in-Coq
    # evaluation): a changed body is not a violation, it widens the search to > 8 192 and > 65 536 faces
    obj_ok, obj_fp = c10_objpin.check(str(lib.REPO))
    ctx.sources['femio/formats/obj/write_obj.py:OBJWriter(ast)'] = obj_fp
    ctx.notes['obj_writer_pinned'] = obj_ok

    # 3. cases: corpus first
    cases = []
    corpus = sorted((lib.VERIF / 'corpus' / PID).glob('*.json')) if (lib.VERIF / 'corpus' / PID).exists() else []
    for p in corpus:
        c = json.loads(p.read_text())
        c['meta'] = dict(c.get('meta', {}), corpus=p.name)
        cases.append(c)
    gen = gen_cases(ctx, widened=fallback)
    if not obj_ok:
        ctx.log('OBJWriter differs from the pinned body: extended search with large plates')
        gen.append(plate(ctx.rng, 182))
        gen.append(plate(ctx.rng, 91))
    cases = cases + gen
    for i, c in enumerate(cases):
        c['id'] = i
        c.setdefault('valid', True)
        c.setdefault('want', want_for(c))
    probes = gen_probes(ctx.rng, 4 if (ctx.tier == 'quick' and not fallback) else 24)
    res = run_impl(ctx, cases, probes=probes)
    probe_obs = res.pop('probes')['rows']
    ctx.log(f'implementation ran on {len(cases)} meshes and {len(probes)} face-table probes')
    cases += expand_history(cases, res)
    for c in cases:
        meta = c['meta']
        ctx.count('offset:' + str(meta.get('offset', '0')))
        ctx.count('history:' + str(meta.get('stage', 'container' if 'history' in c else 'fresh_object_per_view')))
        n_el = sum(len(v) for v in c['blocks'].values())
        ctx.count('kind:' + str(meta.get('kind')))
        ctx.count('scale:' + str(meta.get('scale', '1')))
        ctx.count('ids:' + str(meta.get('id_mode')))
        ctx.count('affine:' + str(meta.get('affine')))
        ctx.count('types:' + '+'.join(sorted(c['blocks'])))
        ctx.count('stream:' + ('valid' if c['valid'] else meta.get('malformed', 'invalid')))
        ctx.count('n_elem:' + ('1' if n_el == 1 else '2-9' if n_el < 10 else '10-29' if n_el < 30 else '30+'))
        s = res[c['id']].get('surface')
        nsurf = 0 if (s is None or is_err(s)) else sum(len(v) for v in s.values())
        if nsurf and c['valid']:
            de = [(f[k], f[(k + 1) % len(f)]) for v in s.values() for f in v for k in range(len(f))]
            ctx.count('edge_manifold:' + ('yes' if len(set(de)) == len(de) else 'no'))
        nfaces = sum(len(FACE_CYCLES[t]) * len(v) for t, v in c['blocks'].items())
        ctx.case([c['nodes'], c['blocks']], nontrivial=(nsurf < nfaces or len(c['blocks']) > 1),
                 sample={'meta': meta, 'n_surface_faces': nsurf, 'n_element_faces': nfaces})

    # 4. property oracle on the implementation (exact; always)
    n_or = 0
    oracle_bad = {}
    for c in cases:
        if not c['valid'] or c.get('derived'):
            continue
        n_or += 1
        b = judge(c, res[c['id']])
        if b:
            oracle_bad[c['id']] = b
    ctx.notes['search_evaluations'] = n_or
    ctx.notes['impl_property_failures'] = len(oracle_bad)

    # 5. correspondence (model evaluated inside Coq)
    failing = {}
    if model_ok:
        failing = run_coq_cases(ctx, [c for c in cases if ('history' not in c or c.get('derived'))
                                      and not c.get('oracle_only')], res, 'Corr')
        n_dis = len(failing)
        ctx.corr = {'cases': sum(1 for c in cases if ('history' not in c or c.get('derived'))
                                 and not c.get('oracle_only')),
                    'checks_per_case': CHECKS, 'disagreements': n_dis,
                    'valid_stream': sum(1 for c in cases if c['valid']),
                    'second_stream': sum(1 for c in cases if not c['valid'])}
        ctx.log(f'correspondence: {len(cases)} cases, {n_dis} with a failing check')
        probe_bad = run_coq_probes(ctx, probes, probe_obs)
        ctx.corr['face_table_probes'] = len(probes)
        ctx.corr['face_table_probe_disagreements'] = -1 if probe_bad is None else len(probe_bad)
        for p in probes:
            ctx.count('probe:' + p['type'])
    else:
        ctx.corr = {'cases': 0, 'disagreements': 0, 'note': 'model did not build'}
        probe_bad = None

    # 6. violations
    reported = 0
    for cid, bads in sorted(oracle_bad.items())[:3]:
        c = cases[cid]
        chk = bads[0][0]

        def still(cc, rr, chk=chk):
            return any(b[0] == chk for b in judge(cc, rr))
        small = shrink(ctx, c, still)
        rr = run_impl(ctx, [dict(small, id=0)], tag='shrunk')[0]
        ob = judge(dict(small, id=0), rr)
        ctx.violation('impl-violation',
                      {'nodes': small['nodes'], 'blocks': small['blocks'], 'meta': c['meta'],
                       'scale': small.get('scale'), 'offset': small.get('offset'), 'dtype': small.get('dtype'),
                       'history': small.get('history'), 'mod_args': small.get('mod_args'),
                       'oracle_from_round': small.get('oracle_from_round'),
                       'oracle_only': small.get('oracle_only'), 'want': small['want'], 'shrunk_from_elements': sum(len(v) for v in c['blocks'].values())},
                      'surface = faces owned by exactly one element, closed, outward, enclosing the element '
                      'volumes; to_surface / OBJ / fistr describe the same faces',
                      {'failed_checks': [[a, b] for a, b in (ob or bads)][:4]},
                      'C10 property oracle on the implementation', found_input=True,
                      signature=signature(c, chk), what=f'{chk} on a {c["meta"].get("kind")} mesh')
        reported += 1
    for cid, chks in sorted(failing.items(), key=lambda kv: kv[0])[:6]:
        c = cases[cid]
        if cid in oracle_bad or c.get('first_case') in oracle_bad:
            continue
        what = 'scratch file did not compile' if chks is None else ','.join(chks)
        ctx.violation('correspondence',
                      {'nodes': c['nodes'], 'blocks': c['blocks'], 'meta': c['meta'], 'want': c['want'],
                       'scale': c.get('scale'), 'offset': c.get('offset'), 'history': c.get('history'),
                       'mod_args': c.get('mod_args'), 'dtype': c.get('dtype')},
                      'model = implementation on ' + what, {'failing_checks': chks,
                                                           'impl': {k: (v if is_err(v) else '...') for k, v in res[cid].items() if k != 'id'}},
                      'correspondence C10 (Corr.v checks ' + what + ')', found_input=False,
                      signature=signature(c, what), what='model and implementation disagree: ' + what)
        reported += 1
    # face-table probes: generated (or baseline) tables vs _generate_all_faces itself
    if probe_bad:
        for k in probe_bad[:2]:
            p, o = probes[k], probe_obs[k]
            po = probe_oracle(p, o)
            ctx.violation('correspondence' if po is None else 'impl-violation',
                          {'probe': p, 'tables': 'baseline' if fallback else 'translated'},
                          'the %s face table applied to the rows' % ('baseline' if fallback else 'translated'),
                          o if is_err(o) else {'groups': o['groups']},
                          'correspondence C10 (Corr.check_probe: _generate_all_faces on one connectivity array)',
                          found_input=True, signature={'check': 'face_table_probe', 'type': p['type'],
                                                       'oracle': po or 'same_node_sets'},
                          what='_generate_all_faces(%s) differs from the %s table%s' % (
                              p['type'], 'baseline' if fallback else 'translated',
                              '' if po is None else ' and from the element\'s faces (' + po + ')'))
            reported += 1
    elif probe_bad is None and model_ok:
        ctx.violation('correspondence', {'probes': len(probes)}, 'probe scratch file compiles', 'it did not',
                      'correspondence C10 (Corr.check_probe)', found_input=False,
                      signature={'check': 'face_table_probe', 'kind': 'scratch-failed'})
        reported += 1
    if st_problems:
        ctx.violation('tie-broken', {'problems': st_problems}, 'translator self-test passes',
                      '; '.join(st_problems)[:400], 'translator c10_tables (self-test)', found_input=False,
                      signature={'kind': 'tie-broken', 'what': 'translator-selftest'})
    if not obj_ok:
        # changed body => deeper search (done above: plates with 17 290 and 66 976 faces), never by itself a violation
        ctx.notes['tie_obj_writer'] = ('H (OBJWriter body differs from the validated one, fingerprint %s; hand model '
                                       'Model.write_obj + correspondence on %d meshes + oracle on plates with 9 246 / '
                                       '17 290 / 66 976 boundary faces: %s)' % (
                                           obj_fp[:12], ctx.corr.get('cases', 0),
                                           'no disagreement' if not oracle_bad and not failing else 'DISAGREEMENT'))
    if fallback:
        n_corr = ctx.corr.get('cases', 0)
        agree = not oracle_bad and not failing and probe_bad == [] and proof_ok and model_ok
        ctx.notes['tie_tables'] = ('H (translator could not read femio/graph_processor.py face tables: %s; baseline '
                                   'model coq/C10/gen_baseline/FaceTables.v + widened correspondence, %d cases + %d '
                                   'face-table probes over all six types: %s)' % (
                                       ctx.notes.get('translator_error'), n_corr, len(probes),
                                       'all agree' if agree else 'DISAGREEMENT'))
        ctx.trusted.append('baseline face tables coq/C10/gen_baseline/FaceTables.v as the hand model of '
                           '_generate_all_faces / the extract_surface_fistr table (translator could not read them); '
                           'tied by the widened correspondence only')
        if not model_ok and not oracle_bad:
            ctx.violation('tie-broken', {'translator_error': ctx.notes.get('translator_error')},
                          'baseline model builds so that the widened correspondence can run', 'it does not build',
                          'translator c10_tables + baseline', found_input=False, signature={'kind': 'tie-broken'})
    if not tie_ok and not fallback and not oracle_bad:
        ctx.violation('tie-broken', {'translator_error': ctx.notes.get('translator_error')},
                      'translator accepts _generate_all_faces / extract_surface_fistr', 'fail-closed, no baseline',
                      'translator c10_tables', found_input=False, signature={'kind': 'tie-broken'})
    if (tie_ok or fallback) and not proof_ok and not oracle_bad:
        badn = [o['name'] for o in ctx.obligations if not o['discharged']]
        ctx.violation('proof-broken', {'undischarged': badn, 'log': ctx.notes.get('build_log_tail', '')[-600:]},
                      'all theorems of C10/Props.v check against the regenerated tables', 'do not check',
                      ', '.join(badn), found_input=False, signature={'kind': 'proof-broken'})
    return ctx.finish()


def replay(path):
    rp = json.loads(Path(path).read_text())
    c = rp['case']
    if 'probe' in c:
        ctx = lib.Ctx(PID, 'quick')
        obs = run_impl(ctx, [], tag='replay', probes=[c['probe']])['probes']['rows']
        po = probe_oracle(c['probe'], obs[0])
        ok, _, _ = lib.coq_make(['C10/Corr.vo', 'C10/ObjText.vo', 'C10/ObjVText.vo'])
        bad = run_coq_probes(ctx, [c['probe']], obs) if ok else None
        print('implementation:', json.dumps(obs[0])[:1500])
        print('oracle (node sets of the element faces):', po or 'same')
        print('tables in coq/C10/gen vs implementation:', 'differ' if bad or bad is None else 'agree')
        print('property', 'VIOLATED' if (po or bad or bad is None) else 'holds', 'on this input')
        return 1 if (po or bad or bad is None) else 0
    if 'nodes' not in c:
        print('nothing to replay on the implementation:', json.dumps(rp, indent=1)[:2000])
        return 1
    ctx = lib.Ctx(PID, 'quick')
    case = {'id': 0, 'nodes': c['nodes'], 'blocks': c['blocks'], 'meta': c.get('meta', {}),
            'want': c.get('want') or want_for(c), 'valid': True}
    for k in ('scale', 'offset', 'mod_args', 'dtype', 'oracle_from_round', 'oracle_only'):
        if c.get(k):
            case[k] = c[k]
    if c.get('history'):
        case.update(history=c['history'], want=['history'])
    r = run_impl(ctx, [case], tag='replay')[0]
    bad = judge(case, r)
    print('implementation:', json.dumps({k: v for k, v in r.items() if k in ('surface', 'fistr')})[:1500])
    print('oracle:', bad)
    ok, _, _ = lib.coq_make(['C10/Corr.vo', 'C10/ObjText.vo', 'C10/ObjVText.vo'])
    if ok:
        cs = [case]
        res = {0: r}
        cs += expand_history(cs, res)
        f = run_coq_cases(ctx, [x for x in cs if 'history' not in x or x.get('derived')], res, 'Replay')
        print('model vs implementation, failing checks:', f)
        bad = bad or [x for v in f.values() for x in (v or ['compile'])]
    print('property', 'VIOLATED' if bad else 'holds', 'on this input')
    return 1 if bad else 0


if __name__ == '__main__':
    if len(sys.argv) > 2 and sys.argv[1] == 'replay':
        sys.exit(replay(sys.argv[2]))
    tier = sys.argv[1] if len(sys.argv) > 1 else 'quick'
    sys.exit(main(lib.Ctx(PID, tier)))
