"""C08 — an attribute is one id-keyed table whichever way it is accessed."""
import json
import re
import subprocess
import sys
from concurrent.futures import ThreadPoolExecutor
from pathlib import Path

sys.path.insert(0, str(Path(__file__).resolve().parent))
sys.path.insert(0, str(Path(__file__).resolve().parent.parent / 'translate'))
import lib  # noqa
import c08_cfg  # noqa
import c08_types  # noqa
import c08_renumber  # noqa

PID = 'C08'

# which refresh site a disagreement between two views is attributed to:
# (operation after which the views first differ, views) -> site, cfg flag
SITES = {
    ('SliceWrite', 'data-vs-frame'): ('FEMAttribute._update_parent', 'parent_refreshes_data'),
    ('Overwrite', 'data-vs-frame'): ('FEMAttributes.overwrite', 'overwrite_uses_setter'),
    ('Overwrite', 'data-unreadable'): ('FEMAttributes.overwrite', 'overwrite_uses_setter'),
    ('Update', 'ids2indices-vs-ids'): ('FEMAttribute.data_frame.setter', 'frame_setter_refreshes_id2index'),
    ('SetFrame', 'ids2indices-vs-ids'): ('FEMAttribute.data_frame.setter', 'frame_setter_refreshes_id2index'),
    ('SetIds', 'ids2indices-vs-ids'): ('FEMAttribute.ids.setter', 'ids_setter_refreshes_id2index'),
    ('read', 'iloc-scalar-ids'): ('_Indexer.__getitem__', 'scalar_key_uses_label'),
}
PATH_NAMES = {11: 'FEMAttributes.filter_with_ids', 12: 'FEMAttributes.extract_dict', 0: 'raises', 1: 'ids', 2: 'data', 3: 'data_frame', 4: 'loc[list]', 5: 'loc[scalar]',
              6: 'iloc[list]', 7: 'iloc[scalar]', 8: '__getitem__', 9: 'filter_with_ids',
              10: 'ids2indices', 98: 'constructor', 99: 'op-outside-model-domain'}

# one-step histories of Proofs.witness / iloc_scalar_refuted (same values)
WITNESSES = {
    'parent_refreshes_data': {
        'init': {'ids': [1], 'rows': [[0]], 'tail': [1], 'ts': False, 'T': 1, 'gen': False},
        'ops': [{'k': 'SliceWrite', 'sel': ['ByIds', [1]], 'rows': [[1]]}]},
    'overwrite_uses_setter': {
        'init': {'ids': [1], 'rows': [[0]], 'tail': [1], 'ts': False, 'T': 1, 'gen': False},
        'ops': [{'k': 'Overwrite', 'rows': [[1]]}]},
    'frame_setter_refreshes_id2index': {
        'init': {'ids': [1], 'rows': [[0]], 'tail': [1], 'ts': False, 'T': 1, 'gen': True},
        'ops': [{'k': 'Update', 'ids': [2], 'rows': [[1]], 'via': 'attr'}]},
    'ids_setter_refreshes_id2index': {
        'init': {'ids': [1], 'rows': [[0]], 'tail': [1], 'ts': False, 'T': 1, 'gen': True},
        'ops': [{'k': 'SetIds', 'ids': [2]}]},
    'scalar_key_uses_label': {
        'init': {'ids': [5, 0], 'rows': [[7], [8]], 'tail': [1], 'ts': False, 'T': 1, 'gen': False},
        'ops': [{'k': 'SliceWrite', 'sel': ['ByPos1', 0], 'rows': [[9]]}]},
}


# ------------------------------------------------------------ Coq literals
def zl(xs):
    return '[' + ';'.join(str(int(x)) if x >= 0 else f'({int(x)})' for x in xs) + ']'


def nl(xs):
    return '[' + ';'.join(str(int(x)) for x in xs) + ']%nat'


def rows_l(rows):
    return '[' + ';'.join(zl(r) for r in rows) + ']'


def table_l(t):
    return '[' + ';'.join(f'({int(i) if i >= 0 else "(%d)" % i},{zl(r)})' for i, r in t) + ']'


def opt(x, f):
    return 'None' if x is None else f'(Some {f(x)})'


def b(x):
    return 'true' if x else 'false'


def obs_l(o):
    return ('{|o_raised:=%s;o_ids:=%s;o_data:=%s;o_frame:=%s;o_q:=%s;o_q1:=%s;o_ks:=%s;o_k1:=%s;'
            'o_loc:=%s;o_loc1:=%s;o_iloc:=%s;o_iloc1:=%s;o_getitem:=%s;o_filter:=%s;o_i2i:=%s;'
            'o_cq:=%s;o_cfilter:=%s;o_cextract:=%s|}') % (
        b(o.get('raised')), zl(o['ids']), opt(o['data'], rows_l), table_l(o['frame']),
        zl(o['q']), (str(o['q1']) if o['q1'] >= 0 else f"({o['q1']})"), nl(o['ks']), f"{o['k1']}%nat",
        opt(o['loc'], table_l), opt(o['loc1'], table_l), opt(o['iloc'], table_l),
        opt(o['iloc1'], table_l), opt(o['getitem'], rows_l), opt(o['filter'], table_l),
        opt(o['i2i'], nl), zl(o.get('cq') or []),
        opt(o.get('cfilter'), lambda ts_: '[' + ';'.join(table_l(t) for t in ts_) + ']'),
        opt(o.get('cextract'), lambda rs_: '[' + ';'.join(rows_l(r) for r in rs_) + ']'))


def sel_l(s):
    k, v = s
    if k == 'ByIds':
        return f'(ByIds {zl(v)})'
    if k == 'ById1':
        return f'(ById1 {v})' if v >= 0 else f'(ById1 ({v}))'
    if k == 'ByPos':
        return f'(ByPos {nl(v)})'
    return f'(ByPos1 {v}%nat)'


def op_l(o):
    k = o['k']
    if k in ('SetData', 'Overwrite', 'SetAttr'):
        return f'({k} {rows_l(o["rows"])})'
    if k in ('SetFrame', 'Update', 'OverwriteIds'):
        return f'({k} {table_l(list(zip(o["ids"], o["rows"])))})'
    if k == 'SetIds':
        return f'(SetIds {zl(o["ids"])})'
    if k == 'SliceWrite':
        return f'(SliceWrite {sel_l(o["sel"])} {rows_l(o["rows"])})'
    raise AssertionError(k)


def case_l(r):
    init = r['init']
    steps = ';'.join(f'({op_l(s["op"])},{obs_l(s["obs"])})' for s in r['steps'])
    others = '[' + ';'.join(f'({zl(o["ids"])},{rows_l(o["rows"])},{b(o["ts"])})' for o in init.get('others', [])) + ']'
    return (f'({r["id"]}%nat, check_case cfg {zl(init["ids"])} {rows_l(init["rows"])} {b(init["gen"])} '
            f'{b(init["ts"])} {others} {obs_l(r["obs0"])} [{steps}])')


HEADER = ('From Coq Require Import ZArith List Bool.\nImport ListNotations.\n'
          'From Coq Require Import String.\nFrom FV.C08 Require Import Table Model ElemModel Corr.\nFrom FV.C08.gen Require Import AttrCfg ElemTypes.\n'
          'Local Open Scope Z_scope.\nSet Printing Width 100000.\nSet Printing Depth 100000.\n')


def coq_check(ctx, name, items, kind='cases', extra=''):
    """items: list of Coq terms (id, list nat).  Returns {id: [codes]} of the
    failing ones, or None when the file does not compile."""
    txt = [HEADER + extra, 'Definition cases : list (nat * list nat) := [', ';\n'.join(items), '].',
           'Goal True. idtac "@@ failing". Abort.',
           'Eval vm_compute in filter (fun c => match snd c with [] => false | _ => true end) cases.']
    rc, out, err = ctx.coq_eval(name, '\n'.join(txt) + '\n', timeout=1200)
    if rc != 0:
        ctx.log(f'{name}: scratch file failed to compile', err[-600:])
        return None
    t = lib.parse_marked(out).get('failing', '')
    t = t.split(': list')[0].replace('%nat', '')
    res = {}
    for m in re.finditer(r'\((\d+),\s*\[([^\]]*)\]\)', t):
        res[int(m.group(1))] = [int(x) for x in re.findall(r'\d+', m.group(2))]
    return res


# ------------------------------------------------------------ impl runner
def run_impl(ctx, spec, tag='impl'):
    spec = dict(spec)
    spec['out'] = str(ctx.scratch / f'{tag}_out.json')
    r = subprocess.run([lib.PY, str(lib.VERIF / 'harness' / 'c08_impl.py')], input=json.dumps(spec),
                       text=True, capture_output=True, env=lib.impl_env(), timeout=1500)
    if r.returncode != 0:
        raise RuntimeError('impl runner failed: ' + r.stderr[-2000:])
    return json.loads(Path(spec['out']).read_text())


# ------------------------------------------------------------ property oracle
def disagreements(o):
    """views of one state that do not describe the table (ids[k], data[k]);
    only whole-table reads are used, so the result depends on the state alone"""
    f = o['full']
    out = set()
    if o['data'] is None:
        out.add('data-unreadable')
        tab = None
    else:
        tab = [[i, r] for i, r in zip(o['ids'], o['data'])]
        if tab != o['frame'] or len(o['ids']) != len(o['data']):
            out.add('data-vs-frame')
    ref = o['frame']      # the id-keyed reads are compared with the frame view
    if f['loc'] is not None and f['loc'] != ref:
        out.add('loc-vs-frame')
    if f['iloc'] is not None and f['iloc'] != ref:
        out.add('iloc-vs-frame')
    if f['filter'] is not None and f['filter'] != ref:
        out.add('filter-vs-frame')
    if f['getitem'] is not None and f['getitem'] != [r for _, r in ref]:
        out.add('getitem-vs-frame')
    if f['loc'] is None or f['iloc'] is None or (f['filter'] is None and not o['ts']) or f['getitem'] is None:
        out.add('whole-table-read-raises')
    if o['gen'] and f['i2i'] != list(range(len(o['ids']))):
        out.add('ids2indices-vs-ids')
    if f.get('cfilter_bad'):
        out.add('collection-filter-vs-member')
    if f['loc1_bad']:
        out.add('loc-scalar')
    if f['iloc1_bad']:
        out.add('iloc-scalar-ids')
    if o['flags']:
        out.add('other:' + ','.join(sorted(set(o['flags']))))
    return out


def oracle_case(r):
    """[(step index, op kind, view)] : views that start to disagree at a step"""
    res = []
    prev = set()
    d0 = disagreements(r['obs0'])
    for v in sorted(d0):
        res.append((0, 'read' if v == 'iloc-scalar-ids' else 'init', v))
    prev = d0
    for i, s in enumerate(r['steps']):
        d = disagreements(s['obs'])
        for v in sorted(d - prev):
            res.append((i + 1, 'read' if v == 'iloc-scalar-ids' else s['op']['k'], v))
        prev = d
    return res


def shrink_prefix(r, step):
    """history up to the offending step (self-contained replay case)"""
    return {'init': r['init'], 'ops': [s['op'] for s in r['steps'][:step]],
            'queries': [[r['obs0'].get(k) for k in ('q', 'q1', 'ks', 'k1', 'cq')]] +
                       [[s['obs'].get(k) for k in ('q', 'q1', 'ks', 'k1', 'cq')] for s in r['steps'][:step]]}


# ------------------------------------------------------------ elemental cases
# nodes per element of the fixed-width types; 'polygon' / 'unknown' / a name this
# table does not know get one random width per block, 'polyhedron' is ragged
WIDTH = {'line': 2, 'line2': 3, 'spring': 2, 'tri': 3, 'tri2': 6, 'quad': 4, 'quad2': 8, 'tet': 4,
         'tet2': 10, 'pyr': 5, 'pyr2': 13, 'prism': 6, 'prism2': 15, 'hex': 8, 'hex2': 20, 'hexprism': 12}
INVALID_KEYS = ['pt', 'foo', 'TET', 'polyhedr', 'hexa', 'mix']


def validate_keys(d, types):
    """mirror of FEMElementalAttribute._validate_keys (oracle side only; the
    model's own copy is ElemModel.validate_keys)"""
    for bl in d:
        if bl[0] not in types:
            if len(d) > 1:
                return None
            return [['unknown', bl[1], bl[2]]]
    return d


def gen_ecases(ctx, n, types):
    rng = ctx.rng
    cases = []
    for cid in range(n):
        mode = rng.choice(['dense', 'sparse', 'large'])
        pool = set()

        def fresh(k):
            out = []
            while len(out) < k:
                i = {'dense': rng.randrange(1, 60 + 2 * len(pool)), 'sparse': rng.randrange(1, 100000),
                     'large': rng.choice([rng.randrange(1, 30), rng.randrange(2 ** 31, 2 ** 31 + 30),
                                          rng.randrange(2 ** 40, 2 ** 40 + 30)])}[mode]
                if i not in pool:
                    pool.add(i)
                    out.append(i)
            return out

        def block(t):
            k = rng.choice([1, 2, 3, 5])
            ids = fresh(k)
            if rng.random() < 0.25:
                ids.sort()
            if t == 'polyhedron':
                rows = [[rng.randrange(1, 500) for _ in range(rng.randrange(4, 11))] for _ in ids]
            else:
                w = WIDTH.get(t) or rng.randrange(1 if t not in ('polygon',) else 3, 10)
                rows = [[rng.randrange(1, 500) for _ in range(w)] for _ in ids]
            return [t, ids, rows]

        def names(k):
            out = rng.sample(types, min(k, len(types)))
            if rng.random() < 0.3 and 'polyhedron' in types and 'polyhedron' not in out:
                out[rng.randrange(len(out))] = 'polyhedron'     # the ragged / longest-named type
            if rng.random() < 0.08:
                out[rng.randrange(len(out))] = rng.choice(INVALID_KEYS)
            return out
        nt = rng.choice([1, 1, 2, 2, 3, 4, 6, len(types) if rng.random() < 0.3 else 2])
        blocks = [block(t) for t in names(nt)]
        cur = validate_keys(blocks, types)
        updates = []
        if cur is not None:
            cur = {bl[0]: bl for bl in cur}
            for _ in range(rng.choice([0, 0, 0, 1, 1, 2])):
                # dict-update: replace blocks / add blocks (ids stay distinct)
                ns = names(rng.choice([1, 1, 2]))
                if rng.random() < 0.5 and ns[0] in types:
                    ns[0] = rng.choice(list(cur))
                ns = list(dict.fromkeys(ns))
                vn = [x[0] for x in (validate_keys([[x, 0, 0] for x in ns], types) or [])]
                for t in vn:
                    if t in cur:
                        pool.difference_update(cur[t][1])
                u = [block(t) for t in ns]
                updates.append(u)
                vu = validate_keys(u, types)
                if vu is None:
                    cur = None
                    break
                for bl in vu:
                    cur[bl[0]] = bl
        c = {'id': cid, 'blocks': blocks, 'updates': updates, 'mode': mode, 'q': [], 'g': []}
        if cur is not None:
            c['final'] = [cur[t] for t in types if t in cur]
            allids = [i for bl in c['final'] for i in bl[1]]
            m = rng.choice([1, 2, 3, len(allids), len(allids)])
            q = rng.sample(allids, min(m, len(allids)))
            if rng.random() < 0.25:
                q.insert(rng.randrange(len(q) + 1), max(allids) + 1 + rng.randrange(5))
            c['q'] = q
            c['g'] = rng.sample(allids, rng.randrange(1, len(allids) + 1))
        else:
            c['final'] = None
        cases.append(c)
    return cases


def ecase_of(c, cid, types):
    """a stored collection {blocks, updates, q, g} as a case (final dict by the oracle-side mirror)"""
    vd = validate_keys(c['blocks'], types)
    cur = None if vd is None else {bl[0]: bl for bl in vd}
    for u in c.get('updates', []):
        vu = None if cur is None else validate_keys(u, types)
        cur = None if vu is None else {**cur, **{bl[0]: bl for bl in vu}}
    return {'id': cid, 'blocks': c['blocks'], 'updates': c.get('updates', []), 'q': c.get('q', []),
            'g': c.get('g', []), 'mode': 'corpus',
            'final': None if cur is None else [cur[t] for t in types if t in cur]}


def gen_dcases(ctx, n, types):
    """collections whose blocks have colliding element ids (each block's own ids distinct):
    the `_unique_element_ids` branch.  Drawn after every other stream."""
    rng = ctx.rng
    fixed = [t for t in types if t in WIDTH]
    out = []
    for cid in range(n):
        names = rng.sample(fixed, rng.choice([2, 2, 3, 4]))
        hi = rng.choice([4, 6, 9])
        blocks = []
        for t in names:
            ids = rng.sample(range(1, hi + 1), rng.choice([1, 2, 3]))
            blocks.append([t, ids, [[rng.randrange(1, 500) for _ in range(WIDTH[t])] for _ in ids]])
        allids = [i for bl in blocks for i in bl[1]]
        if len(set(allids)) == len(allids):
            blocks[-1][1][0] = blocks[0][1][0]           # force one collision
            if len(set(blocks[-1][1])) != len(blocks[-1][1]):
                blocks[-1][1] = [blocks[0][1][0]]
                blocks[-1][2] = blocks[-1][2][:1]
        out.append({'id': cid, 'blocks': blocks})
    return out


def dcase_l(c, r, writable):
    sl = lambda xs: '[' + ';'.join(st(x) for x in xs) + ']'    # noqa
    ob = '{|d_raised:=%s;d_ids:=%s;d_types:=%s;d_data:=%s;d_block_ids:=%s|}' % (
        b(r.get('raised')), zl(r.get('ids', [])), sl(r.get('types', [])), rows_l(r.get('data', [])),
        '[' + ';'.join(f'({st(t)},{zl(v)})' for t, v in r.get('block_ids', [])) + ']')
    return f'({c["id"]}%nat, check_dup {b(writable)} 60%nat {dict_l(c["blocks"])} {ob})'


def st(x):
    return '"' + re.sub(r'[^A-Za-z0-9_-]', '?', str(x)) + '"%string'


def dict_l(d):
    return '[' + ';'.join(f'({st(t)},{table_l(list(zip(ids, rows)))})' for t, ids, rows in d) + ']'


def ecase_l(c, r):
    d0 = dict_l(c['blocks'])
    upds = '[' + ';'.join(dict_l(u) for u in c['updates']) + ']'
    empty = {'ids': [], 'types': [], 'data': [], 'id2index': [], 'ids_types': [], 'dict_type_ids': [], 'keys': []}
    s, f = r.get('summary', empty), r.get('filter_summary', empty)
    nb = lambda bs: '[' + ';'.join(f'({st(t)},{table_l(tb)})' for t, tb in bs) + ']'   # noqa
    i2i = '[' + ';'.join(f'({i},{k}%nat)' for i, k in s['id2index']) + ']'
    sl = lambda xs: '[' + ';'.join(st(x) for x in xs) + ']'    # noqa
    gtab = table_l([(i, [i % 100003 * 3 + 1]) for i in c['g']])
    ob = ('{|e_raised:=%s;e_ids:=%s;e_types:=%s;e_data:=%s;e_id2index:=%s;e_ids_types:=%s;e_dti:=%s;'
          'e_keys:=%s;e_q:=%s;e_filter:=%s;e_fids:=%s;e_ftypes:=%s;e_fdata:=%s;e_g:=%s;e_gen:=%s|}') % (
        b(r.get('raised')), zl(s['ids']), sl(s['types']), rows_l(s['data']), i2i,
        '[' + ';'.join(f'({i},{st(t)})' for i, t in s['ids_types']) + ']',
        '[' + ';'.join(f'({st(t)},{zl(v)})' for t, v in s['dict_type_ids']) + ']',
        sl(s['keys']), zl(c['q']), nb(r.get('filter_blocks', [])), zl(f['ids']),
        sl(f['types']), rows_l(f['data']), gtab, nb(r.get('generated', [])))
    return f'({c["id"]}%nat, check_summary {d0} {upds} {ob})'


def eoracle(c, r):
    """the collection part of the property on the implementation's output"""
    if r.get('raised') or c['final'] is None:
        return []        # raise / no-raise is compared with the model (code 90)
    s = r['summary']
    bad = []
    final = {t: (ids, rows) for t, ids, rows in c['final']}
    want = sorted((i, t, tuple(row)) for t, (ids, rows) in final.items() for i, row in zip(ids, rows))
    got = list(zip(s['ids'], s['types'], map(tuple, s['data'])))
    if any(t not in s['keys'] for t in s['types']):
        bad.append('type-is-not-a-key-of-the-collection')
    if sorted(got) != want:
        bad.append('not-every-element-exactly-once')
    if len(final) > 1 and s['ids'] != sorted(s['ids']):
        bad.append('not-ascending')
    if s['id2index'] != [[i, k] for k, i in enumerate(s['ids'])]:
        bad.append('id2index')
    if s['ids_types'] != [[i, t] for i, t in zip(s['ids'], s['types'])]:
        bad.append('ids_types')
    if s['keys'] != list(final) or s['unique_types'] != sorted(final):
        bad.append('keys-or-unique_types')
    if sorted((t, sorted(v)) for t, v in s['dict_type_ids']) != sorted((t, sorted(ids)) for t, (ids, _) in final.items()):
        bad.append('dict_type_ids')
    f = r['filter_summary']
    wantf = sorted((i, t, row) for (i, t, row) in want if i in c['q'])
    if sorted(zip(f['ids'], f['types'], map(tuple, f['data']))) != wantf:
        bad.append('filter_with_ids')
    if 'generated' in r:
        tid = {i: t for t, (ids, _) in final.items() for i in ids}
        got = [(i, t, tuple(row)) for t, tb in r['generated'] for i, row in tb]
        if sorted(got) != sorted((i, tid[i], (i % 100003 * 3 + 1,)) for i in c['g']):
            bad.append('generate_elemental_attribute')
        if len(r['generated']) > 1 and r['generated_summary_ids'] != sorted(c['g']):
            bad.append('generate_elemental_attribute-summary')
    return bad


# ------------------------------------------------------------------- main
def main(ctx):
    quick = ctx.tier == 'quick'
    n_seq = 300 if quick else 4000
    n_el = 150 if quick else 1500
    ctx.rule = ('random histories of <= 12 public updates on one attribute held in a FEMAttributes '
                '(scalar/vector/tensor rows, time series; dense/sparse/large unsorted ids), every '
                'public read path recorded after every step and compared with the Coq model evaluated '
                'by vm_compute; a case is one history; non-trivial = at least one update succeeded; '
                'distinct = distinct (initial table, op list); plus random mixed element collections')
    ctx.trusted += [
        'translators /verif/translate/c08_cfg.py (five refresh sites + three id-keyed filters; a site it cannot '
        'read falls back to the registered value and a widened correspondence) and c08_types.py (ELEMENT_TYPES)',
        'hand model coq/C08/Model.v of FEMAttribute/_Indexer/FEMAttributes/FEMElementalAttribute, '
        'tied by the correspondence (pandas .loc/.iloc/combine_first/DataFrame-copy semantics are '
        'represented in the model and pinned only there)',
        'harness glue harness/c08.py, harness/c08_impl.py (array <-> flattened integer rows)',
    ]
    ctx.assumptions += [
        'row values are NaN-free floats; rows of one attribute have one width (combine_first is cell-wise '
        'and treats NaN as missing: outside the model)',
        'the caller does not mutate an array after handing it to femio; slice objects are used '
        'immediately (not kept across later updates of the parent); slices of slices are not modelled',
        'tables handed to update/overwrite/ids have distinct ids; a directly assigned data_frame has '
        'as many rows as the one it replaces',
        'FEMAttribute.update without allow_overwrite is not exercised (DataFrame.append does not '
        'exist in pandas 3: it raises)',
    ]
    for p in lib.REPLAY.glob(PID + '_*.json'):
        p.unlink()
    # 1. translate.  A site the grammar cannot read is no alarm: it keeps its registered value
    #    (hand model, tie H) and the correspondence is widened on the operations it decides.
    tie_ok, cfg, unreadable = True, None, {}
    try:
        cfg, consumed, unreadable = c08_cfg.translate(str(lib.REPO))
        ctx.sources = consumed
        for f in ('fem_attribute.py', 'fem_attributes.py', 'fem_elemental_attribute.py',
                  'time_series_dataframe.py'):
            ctx.sources['femio/' + f] = lib.sha((lib.REPO / 'femio' / f).read_text())
        lib.write_if_changed(lib.COQ / 'C08' / 'gen' / 'AttrCfg.v', c08_cfg.emit(cfg))
        ctx.notes['translated_cfg'] = cfg
    except (c08_cfg.TranslateError, SyntaxError, OSError) as e:
        tie_ok = False
        ctx.log('translator failed closed:', e)
        ctx.notes['translator_error'] = str(e)
    # the table of element type names: read from the source (T), validated against / replaced by
    # the value the imported class holds (evaluated, H) when the source is not a plain literal
    types_ast, types_why = None, None
    try:
        types_ast, cons = c08_types.translate(str(lib.REPO))
        ctx.sources.update(cons)
    except (c08_types.TranslateError, SyntaxError, OSError) as e:
        types_why = str(e)
    try:
        types_rt = run_impl(ctx, {'cases': [], 'ecases': []}, tag='types')['element_types']
    except Exception as e:      # noqa: the main run below reports a child that cannot start
        types_rt = None
        ctx.log('element types could not be evaluated:', str(e)[-300:])
    types = types_rt or types_ast or []
    if types_ast is not None and types_ast == types_rt:
        ctx.notes['element_types_tie'] = 'T (literal read from the source, equal to the value at run time)'
    else:
        ctx.notes['element_types_tie'] = ('H (evaluated at run time; source: %s)' %
                                          (types_why or 'literal differs from the run-time value'))
    ctx.notes['element_types'] = types
    if types and all(re.fullmatch(r'[A-Za-z0-9_-]+', t) for t in types):
        lib.write_if_changed(lib.COQ / 'C08' / 'gen' / 'ElemTypes.v', c08_types.emit(types))
    if unreadable:
        n_seq = max(n_seq, 1500)
        bias = sorted({k for f in unreadable for k in c08_cfg.SITE_OPS.get(f, [])})
        ctx.notes['tie'] = ('H for %s (translator could not read: %s; registered model + widened '
                            'correspondence, %d histories biased to %s)' % (
                                ', '.join(sorted(unreadable)), '; '.join(f'{k}: {v}' for k, v in sorted(unreadable.items())),
                                n_seq, bias or 'all operations'))
        ctx.log(ctx.notes['tie'])
    else:
        bias = []
        ctx.notes['tie'] = 'T for the five refresh sites and the id-keyed filters (all read from the source)'

    # 2. proofs
    proof_ok = False
    if tie_ok:
        proof_ok, log = ctx.build_props('C08/Props.v', extra_targets=['C08/Corr.vo', 'C08/CorrDup.vo'])
        if not proof_ok:
            ctx.notes['build_log_tail'] = log[-1500:]
        elif ctx.tier == 'thorough' and hasattr(ctx, 'coqchk'):
            if not ctx.coqchk('C08/Props.v'):
                proof_ok = False
                ctx.notes['coqchk_failed'] = True
    else:
        for n in lib.theorem_names(lib.COQ / 'C08' / 'Props.v'):
            ctx.obligations.append({'name': n, 'discharged': False, 'assumptions': [],
                                    'note': 'translator failed closed'})
        # keep the last good configuration for the model so that the
        # correspondence and the search still run
        ok, _, _ = lib.coq_make(['C08/Corr.vo', 'C08/CorrDup.vo', 'C08/gen/AttrCfg.vo', 'C08/gen/ElemTypes.vo'])

    # 3. cases: corpus first, then the model's witnesses, then random histories
    cases = []
    corpus_dir = lib.VERIF / 'corpus' / PID
    ecorpus = []
    for p in sorted(corpus_dir.glob('*.json')) if corpus_dir.exists() else []:
        c = json.loads(p.read_text())
        if 'blocks' in c:       # an element collection
            ecorpus.append(c)
            continue
        cases.append({'id': len(cases), 'seed': 0, 'init': c['init'], 'ops': c['ops'],
                      'queries': c.get('queries'), 'origin': 'corpus:' + p.name})
    for flag, w in WITNESSES.items():
        cases.append({'id': len(cases), 'seed': f'w{flag}', 'init': w['init'], 'ops': w['ops'],
                      'origin': 'witness:' + flag})
    for _ in range(n_seq):
        cases.append({'id': len(cases), 'seed': ctx.rng.randrange(2 ** 62), 'bias': bias,
                      'n_ops': ctx.rng.choice([1, 2, 4, 6, 8, 10, 12, 12]), 'origin': 'random'})
    ecases = gen_ecases(ctx, n_el, types)
    for c in ecorpus:           # corpus collections run first (ids after the random ones)
        ecases.insert(0, ecase_of(c, len(ecases), types))
    dcases = gen_dcases(ctx, 40 if quick else 300, types)      # drawn last: the other streams are unchanged
    res = run_impl(ctx, {'cases': cases, 'ecases': ecases, 'dcases': dcases})
    results = {r['id']: r for r in res['cases']}
    eresults = {r['id']: r for r in res['ecases']}
    herr = [r for r in res['cases'] + res['ecases'] + res.get('dcases', []) if 'error' in r]
    if herr:
        ctx.notes['harness_errors'] = [h['error'][-400:] for h in herr[:3]]
        ctx.log('harness errors:', len(herr), herr[0]['error'][-600:])

    # 4. correspondence (model evaluated in Coq)
    good = [c for c in cases if 'error' not in results[c['id']]]
    chunks = [good[i:i + 60] for i in range(0, len(good), 60)]
    egood = [c for c in ecases if 'error' not in eresults[c['id']]]
    echunks = [egood[i:i + 400] for i in range(0, len(egood), 400)]
    jobs = [(f'Corr{i}', [case_l(results[c['id']]) for c in ch]) for i, ch in enumerate(chunks)]
    jobs += [(f'ECorr{i}', [ecase_l(c, eresults[c['id']]) for c in ch]) for i, ch in enumerate(echunks)]
    with ThreadPoolExecutor(max_workers=12) as ex:
        outs = list(ex.map(lambda j: coq_check(ctx, j[0], j[1]), jobs))
    bad, ebad, compile_fail = {}, {}, 0
    for (name, _), o in zip(jobs, outs):
        if o is None:
            compile_fail += 1
        elif name.startswith('E'):
            ebad.update(o)
        else:
            bad.update(o)
    # colliding element ids (the _unique_element_ids branch): model = Renumber.update_self_fuel with
    # the environment fact `writable` probed on the implementation
    dres = {r['id']: r for r in res.get('dcases', [])}
    probe = bool(res.get('ids_writable'))
    ctx.notes['ids_inplace_add_writable'] = probe
    try:
        kind = c08_renumber.translate(str(lib.REPO))
        ctx.notes['unique_element_ids_shift'] = kind + ' (read from the source)'
        writable = probe or kind == 'assign'        # a new array is assigned: works everywhere
    except (c08_renumber.TranslateError, SyntaxError, OSError) as e:
        ctx.notes['unique_element_ids_shift'] = 'unreadable (%s): environment probe only' % e
        writable = probe
    dgood = [c for c in dcases if c['id'] in dres and 'error' not in dres[c['id']]]
    dbad = coq_check(ctx, 'DCorr0', [dcase_l(c, dres[c['id']], writable) for c in dgood],
                     extra='From FV.C08 Require Import Renumber CorrDup.\n') if dgood else {}
    if dbad is None:
        compile_fail += 1
        dbad = {}
    for c in dgood:
        ctx.count('duplicate-ids:' + ('raises' if dres[c['id']].get('raised') else 'renumbered'))
        ctx.case(['d', c['blocks']], nontrivial=True)
    ctx.corr = {'cases': len(good) + len(egood) + len(dgood), 'duplicate_id_collections': len(dgood),
                'duplicate_id_disagreements': len(dbad), 'attribute_histories': len(good),
                'element_collections': len(egood), 'disagreements': len(bad) + len(ebad),
                'scratch_files_not_compiling': compile_fail,
                'steps_compared': sum(len(results[c['id']]['steps']) + 1 for c in good)}
    ctx.log(f"correspondence: {len(good)} histories / {ctx.corr['steps_compared']} states, "
            f"{len(egood)} collections, disagreements {len(bad)}+{len(ebad)}, compile failures {compile_fail}")

    # bookkeeping of the input distribution
    for c in good:
        r = results[c['id']]
        init = r['init']
        ctx.count('origin:' + c['origin'].split(':')[0])
        ctx.count('ids:' + init.get('mode', 'fixed'))
        ctx.count('rows:' + ('time-series' if init['ts'] else
                            {0: 'scalar', 1: 'vector', 2: 'tensor'}[len(init['tail'])]))
        ctx.count('id2index:' + ('yes' if init['gen'] else 'no'))
        ctx.count('dtype:' + init.get('dtype', 'float64'))
        ctx.count('other-members:%d' % len(init.get('others', [])))
        ctx.count('name:' + ('alias' if init.get('names') else 'plain'))
        n_ok = 0
        for s in r['steps']:
            ctx.count('op:' + s['op']['k'] + (':kept-slice' if 'kept' in s['op'] else '') +
                      (':raised' if s['obs']['raised'] else ''))
            n_ok += 0 if s['obs']['raised'] else 1
        ctx.case([init['ids'], init['rows'], [s['op'] for s in r['steps']]], nontrivial=n_ok > 0,
                 sample={'init': {k: init[k] for k in ('ids', 'rows', 'tail', 'ts', 'gen')},
                         'ops': [s['op'] for s in r['steps']][:4],
                         'last_state': {k: (r['steps'][-1]['obs'] if r['steps'] else r['obs0'])[k]
                                        for k in ('ids', 'data', 'frame')}})
    for c in egood:
        ctx.count('collection:' + ('raises' if c['final'] is None else '%d-types' % len(c['final'])))
        for bl in c['final'] or []:
            ctx.count('collection-type:' + bl[0])
        ctx.case(['e', c['blocks'], c['updates'], c['q']], nontrivial=c['final'] is not None)

    # 5. property oracle on the implementation
    n_or = 0
    unknown_or = []
    site_hits = {}
    for c in good:
        r = results[c['id']]
        for (step, opk, view) in oracle_case(r):
            n_or += 1
            site, flag = SITES.get((opk, view), (None, None))
            ob = (r['steps'][step - 1]['obs'] if step else r['obs0'])
            if view == 'filter-vs-frame' and ob['ts']:
                site = 'FEMAttribute.filter_with_ids(time_series)'
            sig = {'site': site or 'unlisted', 'op': opk, 'views': view}
            if site is not None:
                site_hits.setdefault(flag, []).append((c, step))
                if cfg is not None and cfg.get(flag):
                    sig['note'] = 'refresh present in the source, views differ nevertheless'
                    sig['site'] = 'unlisted'
            known = ctx.violation(
                'impl-violation', shrink_prefix(r, step),
                'every read path describes the table (ids[k], data[k])',
                {'views_that_disagree': view, 'after': opk,
                 'state': {k: ob[k] for k in ('ids', 'data', 'frame')}, 'whole_table_reads': ob['full']},
                'C08_inv_step / C08_views_agree (oracle on the implementation)',
                found_input=True, signature=sig,
                what=f'after {opk}: {view}')
            if not known and sig['site'] == 'unlisted':
                unknown_or.append(c['id'])
    for c in egood:
        badp = eoracle(c, eresults[c['id']])
        if badp:
            n_or += 1
            ctx.violation('impl-violation', {'blocks': c['blocks'], 'updates': c['updates'], 'q': c['q'], 'g': c['g']},
                          'collection lists every element once, ascending, consistent',
                          {'failed': badp, 'summary': eresults[c['id']]['summary']},
                          'C08_summary_sorted_complete (oracle on the implementation)',
                          found_input=True, signature={'site': 'FEMElementalAttribute', 'views': badp[0]},
                          what='element collection: ' + ','.join(badp))
    ctx.notes['search_evaluations'] = ctx.corr['steps_compared'] + len(egood)
    ctx.notes['oracle_failures'] = n_or

    # 6. per-run obligation: a refresh the translator found missing must show
    #    on the implementation through the model's witness (else the tie is off)
    if cfg is not None:
        for flag in c08_cfg.FIELDS:
            if not cfg[flag]:
                wid = next(c['id'] for c in cases if c['origin'] == 'witness:' + flag)
                if 'error' in results[wid] or not oracle_case(results[wid]):
                    ctx.violation('tie-broken', WITNESSES[flag],
                                  'the witness of C08_inv_step_refuted reproduces on the implementation',
                                  'all views agree on the implementation', 'C08_tree_decided',
                                  found_input=False, signature={'kind': 'witness-not-reproduced', 'flag': flag})
        ctx.notes['cfg_ok'] = all(cfg.values())

    # 7. correspondence disagreements
    for cid, codes in sorted(bad.items())[:6]:
        r = results[cid]
        step = min(k // 100 for k in codes)
        paths = sorted({PATH_NAMES.get(k % 100, str(k % 100)) for k in codes if k // 100 == step})
        opk = r['steps'][step - 1]['op']['k'] if step else 'init'
        ctx.violation('correspondence', shrink_prefix(r, step),
                      'model and implementation agree on every read path',
                      {'first_step': step, 'after': opk, 'paths': paths, 'codes': codes[:12],
                       'impl': (r['steps'][step - 1]['obs'] if step else r['obs0'])},
                      'correspondence C08 (Corr.check_case)',
                      found_input=True,
                      signature={'kind': 'correspondence', 'op': opk, 'paths': ','.join(paths)},
                      what='model and implementation differ')
    for cid, codes in sorted(ebad.items())[:4]:
        c = next(x for x in ecases if x['id'] == cid)
        ctx.violation('correspondence', {'blocks': c['blocks'], 'updates': c['updates'], 'q': c['q'], 'g': c['g']},
                      'model and implementation agree on the collection summary',
                      {'codes': codes, 'impl': eresults[cid]}, 'correspondence C08 (Corr.check_summary)',
                      found_input=True,
                      signature={'kind': 'correspondence-collection', 'codes': str(codes)})
    # oracle on the duplicate-id collections: a failed public update must not leave the summary
    # half rebuilt; a successful one must agree with the constructor on the same final dict
    for c in dgood:
        r = dres[c['id']]
        u = r.get('upd') or {}
        views = []
        if r.get('upd_raised') and (u['ids'] != u['id2index_ids'] or u['keys'] != u['dti_keys']
                                    or len(set(u['ids'])) != len(u['ids'])):
            views.append('half-updated-after-failed-update')
        if not r.get('upd_raised') and not r.get('raised') and (u['ids'] != r['ids'] or u['types'] != r['types']):
            views.append('update-vs-constructor')
        for v in views:
            ctx.violation('impl-violation', {'dup_blocks': c['blocks']},
                          'after update({blocks}) - raised or not - ids, types, id2index and dict_type_ids '
                          'describe one collection', {'after_update': u, 'update_raised': r.get('upd_raised')},
                          'C08_duplicate_ids_branch / C08_summary_defined_iff_distinct (oracle on the implementation)',
                          found_input=True,
                          signature={'site': 'FEMElementalAttribute._unique_element_ids', 'views': v},
                          what='colliding element ids: ' + v)
    for cid, codes in sorted(dbad.items())[:3]:
        c = next(x for x in dcases if x['id'] == cid)
        ctx.violation('correspondence', {'dup_blocks': c['blocks'], 'ids_writable': writable},
                      'model and implementation agree on collections with colliding element ids',
                      {'codes': codes, 'impl': dres[cid]}, 'correspondence C08 (CorrDup.check_dup)',
                      found_input=True, signature={'kind': 'correspondence-duplicate-ids', 'codes': str(codes)})
    if compile_fail:
        ctx.violation('correspondence', {'files': compile_fail}, 'scratch files compile', 'coqc failed',
                      'correspondence C08', found_input=False, signature={'kind': 'corr-compile'})
    if herr:
        ctx.violation('correspondence', {'errors': [h['error'][-300:] for h in herr[:3]]},
                      'harness runs every case', 'child raised', 'correspondence C08', found_input=False,
                      signature={'kind': 'harness-error'})
    # 8. tie / proof broken without anything else to show
    if not tie_ok:
        ctx.violation('tie-broken', {'translator_error': ctx.notes.get('translator_error')},
                      'translator recognises the five refresh sites', 'fail-closed',
                      'translator c08_cfg (C08_tree_decided cannot be regenerated)',
                      found_input=False, signature={'kind': 'tie-broken'})
    elif not proof_ok:
        badn = [o['name'] for o in ctx.obligations if not o['discharged']]
        ctx.violation('proof-broken', {'theorems': badn}, 'Props.v checks', 'does not check',
                      ', '.join(badn), found_input=False, signature={'kind': 'proof-broken'})
    return ctx.finish()


def replay(path):
    rp = json.loads(Path(path).read_text())
    c = rp['case']
    ctx = lib.Ctx(PID, 'quick')
    if 'blocks' in c:
        types = run_impl(ctx, {'cases': [], 'ecases': []}, tag='replay')['element_types']
        ec = ecase_of(c, 0, types)
        r = run_impl(ctx, {'cases': [], 'ecases': [ec]}, tag='replay')['ecases'][0]
        if 'error' in r:
            print(r['error'])
            return 1
        print('implementation:', json.dumps({k: r.get(k) for k in ('raised', 'summary', 'filter_blocks')})[:3000])
        orc = eoracle(ec, r)
        print('collection views that disagree on the implementation:', orc)
        lib.coq_make(['C08/Corr.vo', 'C08/gen/AttrCfg.vo', 'C08/gen/ElemTypes.vo'])
        badc = coq_check(ctx, 'Replay', [ecase_l(ec, r)])
        print('model vs implementation (failing codes):', badc)
        print('property', 'VIOLATED' if orc or badc else 'holds', 'on this collection')
        return 1 if orc or badc else 0
    if 'init' not in c:
        print('nothing to replay on the implementation:', json.dumps(rp, indent=1)[:3000])
        return 1
    case = {'id': 0, 'seed': 0, 'init': c['init'], 'ops': c['ops'], 'queries': c.get('queries')}
    r = run_impl(ctx, {'cases': [case], 'ecases': []}, tag='replay')['cases'][0]
    if 'error' in r:
        print(r['error'])
        return 1
    o = r['steps'][-1]['obs'] if r['steps'] else r['obs0']
    print('implementation, final state:')
    for k in ('ids', 'data', 'frame', 'full'):
        print('  ', k, '=', json.dumps(o[k]))
    orc = oracle_case(r)
    print('views that disagree on the implementation (step, op, views):', orc)
    lib.coq_make(['C08/Corr.vo', 'C08/gen/AttrCfg.vo'])
    badc = coq_check(ctx, 'Replay', [case_l(r)])
    print('model vs implementation (failing read paths, 100*step+path):', badc)
    print('property', 'VIOLATED' if orc else 'holds', 'on this history')
    return 1 if orc or badc else 0


if __name__ == '__main__':
    if len(sys.argv) > 2 and sys.argv[1] == 'replay':
        sys.exit(replay(sys.argv[2]))
    tier = sys.argv[1] if len(sys.argv) > 1 else 'quick'
    sys.exit(main(lib.Ctx(PID, tier)))
