"""C06 — legacy VTK export describes the same mesh (meshio as independent reader)."""
import json
import subprocess
import sys
import threading
from fractions import Fraction as Fr
from pathlib import Path

sys.path.insert(0, str(Path(__file__).resolve().parent))
sys.path.insert(0, str(Path(__file__).resolve().parent.parent / 'translate'))
import lib  # noqa
import c06_tables  # noqa

PID = 'C06'
ARITY = {'line': 2, 'tri': 3, 'quad': 4, 'tet': 4, 'tet2': 10, 'pyr': 5, 'prism': 6, 'hex': 8}
# stated conventions (S), independent of femio's tables: meshio name of the VTK cell type
VTK_NAME = {'line': 'line', 'tri': 'triangle', 'quad': 'quad', 'tet': 'tetra', 'tet2': 'tetra10',
            'pyr': 'pyramid', 'prism': 'wedge', 'hex': 'hexahedron'}
VTK_TET10_EDGES = [(0, 1), (1, 2), (2, 0), (0, 3), (1, 3), (2, 3)]
FEMIO_TET2_EDGES = [(1, 2), (2, 0), (0, 1), (0, 3), (1, 3), (2, 3)]   # FrontISTR 342


def pair(fr):
    fr = Fr(fr)
    return [fr.numerator, fr.denominator]


def frs(x):
    return None if x[0] == 'nan' else Fr(int(x[0]), int(x[1]))


def q(fr):
    return lib.coq_Q(Fr(fr))


def qrow(r):
    return lib.coq_list([q(x) for x in r])


def zl(xs):
    return lib.coq_list([lib.coq_Z(x) for x in xs])


def natl(xs):
    return lib.coq_list([str(int(x)) for x in xs]) + '%nat'


# ---------------------------------------------------------------- generator
def almost_sorted(rng, ids):
    """storage orders that look sorted: reversed, two neighbours swapped, one id moved,
    ends in place + interior shuffled, fully shuffled, sorted"""
    n = len(ids)
    how = rng.choice(['sorted', 'reversed', 'shuffled', 'shuffled', 'swap2', 'move1', 'interior'])
    ids = sorted(ids)
    if how == 'reversed':
        ids = ids[::-1]
    elif how == 'shuffled':
        rng.shuffle(ids)
    elif how == 'swap2' and n > 1:
        k = rng.randrange(n - 1)
        ids[k], ids[k + 1] = ids[k + 1], ids[k]
    elif how == 'move1' and n > 1:
        ids.insert(rng.randrange(n), ids.pop(rng.randrange(n)))
    elif how == 'interior' and n > 3:
        mid = ids[1:-1]
        rng.shuffle(mid)
        ids = [ids[0]] + mid + [ids[-1]]
    return ids, how


def gen_ops(rng, n_ids, v_ids, widths, int_tables, count):
    """in-place edits of the node table / of nodal variables through the public API, as a list of
    abstract operations (n_ids, v_ids = current id sets; both are updated):
      put      table.update(ids, rows, allow_overwrite=True)   existing rows overwritten, new appended
      renumber table.ids = [sigma(i) for i in table.ids]        sigma a permutation of the table's ids
    A node that is appended gets a row in every variable (every nodal variable is point data)."""
    ops = []

    def row(t):
        w = widths[t]
        return [pair(Fr(rng.randint(-64, 64), 1 if t in int_tables else rng.choice([1, 2, 4])))
                for _ in range(w)]
    for _ in range(count):
        kind = rng.choice(['put_existing', 'put_existing', 'put_new', 'renumber', 'put_mixed'])
        target = rng.choice(['NODE', 'NODE'] + sorted(v_ids))
        cur = n_ids if target == 'NODE' else v_ids[target]
        if kind == 'renumber':
            perm = list(cur)
            rng.shuffle(perm)
            ops.append({'op': 'renumber', 'target': target, 'sigma': [[a, b] for a, b in zip(cur, perm)]})
            continue                    # the id SET is unchanged
        ids = []
        if kind in ('put_existing', 'put_mixed'):
            ids += rng.sample(cur, rng.randint(1, min(3, len(cur))))
        if kind in ('put_new', 'put_mixed'):
            # a new id next to an existing one, below the smallest or above the largest
            #  (its place in the sorted order varies)
            taken = set(n_ids)
            for v_ in v_ids.values():
                taken |= set(v_)
            base = rng.choice(n_ids + [min(n_ids), max(n_ids)])
            cand = [base + d for d in list(range(-6, 0)) + list(range(1, 7))
                    if base + d >= 1 and base + d not in taken]
            if cand:
                ids.append(rng.choice(cand))
        if not ids:
            continue
        rng.shuffle(ids)
        ops.append({'op': 'put', 'target': target, 'ids': ids, 'rows': [row(target) for _ in ids]})
        new = [i for i in ids if i not in cur]
        cur.extend(new)
        if target == 'NODE':
            for name in sorted(v_ids):
                miss = [i for i in new if i not in v_ids[name]]
                if miss:
                    ops.append({'op': 'put', 'target': name, 'ids': miss, 'rows': [row(name) for _ in miss]})
                    v_ids[name].extend(miss)
    return ops


def gen_mesh(rng, cid, misaligned=False, malformed=False, only_type=None):
    types = rng.sample(list(ARITY), rng.randint(1, 8))
    if rng.random() < 0.25:
        types = list(ARITY)
    if only_type:
        types = [only_type]
    n = rng.randint(max(ARITY[t] for t in types), 24)
    mode = rng.choice(['contig', 'offset', 'sparse', 'sparse', 'large', 'huge'])
    if mode == 'contig':
        ids = list(range(1, n + 1))
    elif mode == 'offset':
        a0 = rng.randint(100, 10 ** 6)
        ids = list(range(a0, a0 + n))
    elif mode == 'sparse':
        ids = rng.sample(range(1, 10 * n + 5), n)
    elif mode == 'large':
        ids = rng.sample(range(2 ** 31, 2 ** 31 + 50 * n), n - 1) + [rng.randint(1, 9)]
    else:
        ids = rng.sample(range(2 ** 53 - 40 * n, 2 ** 53 + 40 * n), n)
    ids, order_how = almost_sorted(rng, ids)
    pdt = rng.choice(['float64', 'float64', 'float64', 'float32', 'int64', 'int32'])
    if pdt.startswith('int'):
        pts = [[Fr(rng.randint(-64, 64)) for _ in range(3)] for _ in range(n)]
    elif pdt == 'float32' or rng.random() < 0.6:
        pts = [[Fr(rng.randint(-64, 64), rng.choice([1, 2, 4, 8])) for _ in range(3)] for _ in range(n)]
    else:       # decimal length scale, far from the origin: not dyadic (exact value of the double)
        sc = Fr(rng.choice(['0.0001', '0.001', '0.3', '1', '1000']))
        off = Fr(rng.choice(['0', '100000.1', '12345678.9']))
        pts = [[Fr(float((Fr(rng.randint(-640, 640), 10) + off) * sc)) for _ in range(3)] for _ in range(n)]
    blocks = []
    eids = rng.sample(range(1, 500), 40)
    for t in types:
        k = rng.randint(1, 4)
        blocks.append({'type': t, 'ids': [eids.pop() for _ in range(k)],
                       'conn': [rng.sample(ids, ARITY[t]) for _ in range(k)]})
    rng.shuffle(blocks)             # dict insertion order of the caller
    if malformed:
        b = rng.choice(blocks)
        b['conn'][rng.randrange(len(b['conn']))][rng.randrange(ARITY[b['type']])] = max(ids) + 7
    variables = []
    # names that are prefixes / case variants of one another
    names = ['zz_a', 'zz_A', 'zz_a_b', 'zz_a_', 'zz', 'ZZ_a', 'zz_ab']
    rng.shuffle(names)
    for name in names[:rng.randint(0, 4)]:
        shape = rng.choice([(n,), (n, 1), (n, 2), (n, 3), (n, 6), (n, 3, 3), (n, 4), (n, 12)])
        vdt = rng.choice(['float64', 'float64', 'float32', 'int64', 'int32'])
        size = 1
        for s in shape:
            size *= s
        vids = list(ids)
        if misaligned:
            vids = list(ids)
            while vids == ids and n > 1:
                rng.shuffle(vids)
        attr_name, attr_how = None, None
        if rng.random() < 0.25:
            # the FEMAttribute's own .name differs from the key it is stored under (documented
            # option of set_attribute_data; also nodal_data[key] = FEMAttribute(other, ...));
            # sometimes it collides with the key of another variable
            attr_name = rng.choice(['other_' + name] + [x for x in names[:4] if x != name])
            attr_how = 'set_attribute_data' if (vids == ids and rng.random() < 0.5) else 'setitem'
        variables.append({'name': name, 'ids': vids, 'shape': list(shape), 'dtype': vdt,
                          'attr_name': attr_name, 'attr_how': attr_how,
                          'flat': [pair(Fr(rng.randint(-999, 999), 1 if vdt.startswith('int')
                                           else rng.choice([1, 2, 4])))
                                   for _ in range(size)]})
    if misaligned and not any(len(v['shape']) < 3 for v in variables):
        vids = list(ids)
        while vids == ids and n > 1:
            rng.shuffle(vids)
        variables.append({'name': 'scal', 'ids': vids, 'shape': [n, 1], 'dtype': 'float64',
                          'flat': [pair(Fr(ids.index(i) + 1)) for i in vids]})
    overwrites = []
    for v in variables:
        if rng.random() < 0.3:
            overwrites.append({'name': v['name'], 'shape': v['shape'],
                               'how': rng.choice(['overwrite', 'setter']),
                               'flat': [pair(Fr(rng.randint(-999, 999), rng.choice([1, 2, 4])))
                                        for _ in v['flat']]})
    then = None
    if not malformed and rng.random() < 0.4:
        then = {}
        if rng.random() < 0.7:
            then['points'] = [[pair(Fr(rng.randint(-64, 64), 4)) for _ in range(3)] for _ in range(n)]
            then['points_how'] = rng.choice(['setter', 'inplace'])
            if pdt.startswith('int'):
                then['points'] = [[pair(Fr(rng.randint(-64, 64))) for _ in range(3)] for _ in range(n)]
        if rng.random() < 0.7:
            b = rng.choice(blocks)
            then['conn'] = {'type': b['type'], 'how': rng.choice(['setter', 'inplace']),
                            'conn': [rng.sample(ids, ARITY[b['type']]) for _ in b['conn']]}
        ow2 = [{'name': v['name'], 'shape': v['shape'], 'how': rng.choice(['overwrite', 'inplace']),
                'flat': [pair(Fr(rng.randint(-999, 999))) for _ in v['flat']]}
               for v in variables if rng.random() < 0.5]
        if ow2:
            then['overwrites'] = ow2
        if rng.random() < 0.4:
            # the node table itself changes between the two exports, the elements do not.
            # (in-place edits are kept out of these histories: remove_useless_nodes rebuilds the
            # variables through .loc, whose staleness after attr.data[...] = v is not C06's subject)
            then['nodes'] = 'remove_useless'
            if 'points' in then:
                then['points_how'] = 'setter'
            for ow in then.get('overwrites', []):
                ow['how'] = 'overwrite'
        if not then:
            then = None
    # histories of in-place table edits through update(..., allow_overwrite=True) / ids assignment:
    # before the first export and / or between two exports (then exclusively, so that the sizes of
    # the other history steps stay those of the original tables)
    pre_ops = None
    if not malformed and rng.random() < 0.3:
        widths = {'NODE': 3}
        for v in variables:
            w = 1
            for s_ in v['shape'][1:]:
                w *= s_
            widths[v['name']] = w
        int_tables = {v['name'] for v in variables if v['dtype'].startswith('int')} | \
            ({'NODE'} if pdt.startswith('int') else set())
        n_ids, v_ids = list(ids), {v['name']: list(v['ids']) for v in variables}
        how = rng.choice(['pre', 'then', 'both'])
        if how in ('pre', 'both'):
            pre_ops = gen_ops(rng, n_ids, v_ids, widths, int_tables, rng.randint(1, 3))
        if how in ('then', 'both'):
            then = {'ops': gen_ops(rng, n_ids, v_ids, widths, int_tables, rng.randint(1, 3))}
        else:
            then = None             # a single export after the edits
    return {'id': cid, 'node_ids': ids, 'points': [[pair(x) for x in p] for p in pts],
            'points_dtype': pdt, 'order_nodes': order_how, 'then': then, 'pre_ops': pre_ops,
            'blocks': blocks, 'variables': variables, 'overwrites': overwrites, 'id_mode': mode,
            'stream': 'malformed' if malformed else ('misaligned' if misaligned else 'main')}


def run_impl(ctx, cases, tag='cases'):
    spec_path = ctx.scratch / f'impl_{tag}.json'
    out_path = ctx.scratch / f'impl_{tag}_out.json'
    spec_path.write_text(json.dumps({'out': str(out_path), 'work': str(ctx.scratch / 'work'),
                                     'cases': cases}))
    r = subprocess.run([lib.PY, str(lib.VERIF / 'harness' / 'c06_impl.py'), str(spec_path)],
                       text=True, capture_output=True, env=lib.impl_env(), timeout=1500)
    if r.returncode != 0:
        raise RuntimeError('impl runner failed: ' + r.stderr[-2000:])
    return {x['id']: x for x in json.loads(out_path.read_text())}


# ------------------------------------------------- oracle (the property, Python)
def table_state(c):
    """the mesh as finite maps: node id -> point, and per variable id -> row (values replaced
    through overwrite / the data setter folded in)"""
    latest = {ow['name']: ow['flat'] for ow in c.get('overwrites', [])}
    st = {'NODE': dict(zip(c['node_ids'], c['points']))}
    for v in c['variables']:
        w = 1
        for s_ in v['shape'][1:]:
            w *= s_
        flat = latest.get(v['name'], v['flat'])
        st[v['name']] = {i: flat[k * w:(k + 1) * w] for k, i in enumerate(v['ids'])}
    return st


def apply_ops(st, ops):
    st = {k: dict(v) for k, v in st.items()}
    for op in ops or []:
        tb = st[op['target']]
        if op['op'] == 'put':
            for i, row in zip(op['ids'], op['rows']):
                tb[i] = [pair(Fr(*x)) for x in row]
        else:
            sg = {a: b for a, b in op['sigma']}
            st[op['target']] = {sg[i]: row for i, row in tb.items()}
    return st


def effective_case(c, st, held_ids):
    """the case the export must describe after the edits.  Which storage order the node table has
    after update() is femio's business (combine_first sorts); the property speaks of the storage
    order the mesh HOLDS, so the order is taken from the object, the content by id from the case"""
    nodes = st['NODE']
    if sorted(held_ids) != sorted(nodes):
        return None
    variables = []
    for v in c['variables']:
        tb = st[v['name']]
        vids = list(tb)
        variables.append(dict(v, ids=vids, flat=[x for i in vids for x in tb[i]]))
    return dict(c, node_ids=list(held_ids), points=[[pair(Fr(*x)) for x in nodes[i]] for i in held_ids],
                variables=variables, overwrites=[], pre_ops=None, then=None)


def oracle(c, r):
    bad = []
    if c['stream'] == 'tables':
        if 'error' in r:
            return [('raised', r['error'])]
        # independent of femio's tables: each of the eight types must be exported under the VTK
        # name of the S-definition and only tet2 may be re-ordered, by the edge-based order
        tbl = dict(map(tuple, r['table']))
        for t, vt in VTK_NAME.items():
            if tbl.get(t) != vt:
                bad.append(('type-table', {'type': t, 'expected': vt, 'table': tbl.get(t)}))
        for t, row, out in r['export']:
            want = list(row)
            if t == 'tet2':
                want = list(row[:4]) + [row[4 + [set(x) for x in FEMIO_TET2_EDGES].index(set(e))]
                                        for e in VTK_TET10_EDGES]
            if out != want:
                bad.append(('export-node-order', {'type': t, 'row': row, 'exported': out}))
        return bad[:1]
    if c['stream'] == 'tet2perm':
        if 'error' in r:
            return [('raised', r['error'])]
        if r['from_to'] != c['rows'] or r['to_from'] != c['rows']:
            bad.append(('tet2-permutations-not-inverse', {'to': r['to'][0], 'from': r['from'][0]}))
        return bad
    if c['stream'] == 'malformed':
        if 'error' not in r:
            bad.append(('dangling-node-reference-accepted', ''))
        return bad
    if 'error' in r:
        return [('raised', r['error'])]
    if c.get('pre_ops') or (c.get('then') or {}).get('ops'):
        st = apply_ops(table_state(c), c.get('pre_ops'))
        c1 = effective_case(c, st, r['held']['node_ids'])
        if c1 is None:
            return [('node-table-after-update', {'held_ids': r['held']['node_ids'][:12]})]
        bad = oracle(c1, r)
        th = c.get('then')
        if th and 'second' in r and not bad:
            if 'error' in r['second']:
                return [('second-export:raised', r['second']['error'])]
            c2 = effective_case(c, apply_ops(st, th.get('ops')), r['second']['held']['node_ids'])
            if c2 is None:
                return [('second-export:node-table-after-update',
                         {'held_ids': r['second']['held']['node_ids'][:12]})]
            bad = [('second-export:' + w, d) for w, d in oracle(c2, r['second'])]
        return bad
    ids = c['node_ids']
    pos = {i: k for k, i in enumerate(ids)}
    if r['points'] != c['points']:
        bad.append(('points', 'not the mesh points in storage order'))
    cells = {cb['type']: cb['data'] for cb in r['cells']}
    if len(cells) != len(r['cells']) or len(cells) != len(c['blocks']):
        bad.append(('cell-blocks', [cb['type'] for cb in r['cells']]))
    for b in c['blocks']:
        t = b['type']
        got = cells.get(VTK_NAME[t])
        if got is None or len(got) != len(b['conn']):
            bad.append(('cell-type', {'type': t, 'expected': VTK_NAME[t],
                                      'present': sorted(cells)}))
            continue
        for conn, cell in zip(b['conn'], got):
            if t == 'tet2':
                # VTK position 4+e must hold femio's mid-node of the same edge
                want = list(conn[:4])
                for e in VTK_TET10_EDGES:
                    k = [set(x) for x in FEMIO_TET2_EDGES].index(set(e))
                    want.append(conn[4 + k])
            else:
                want = list(conn)
            if cell != [pos[i] for i in want]:
                bad.append(('cell-nodes', {'type': t, 'conn': conn, 'cell': cell}))
    latest = {ow['name']: ow['flat'] for ow in c.get('overwrites', [])}
    want_vars = [dict(v, flat=latest.get(v['name'], v['flat']))
                 for v in c['variables'] if len(v['shape']) < 3]
    node_var = {'name': 'NODE', 'ids': ids, 'shape': [len(ids), 3],
                'flat': [x for p in c['points'] for x in p]}
    names = set(r['point_data'])
    if names != {v['name'] for v in want_vars} | {'NODE'}:
        bad.append(('point-data-names', sorted(names)))
    for v in want_vars + [node_var]:
        pd = r['point_data'].get(v['name'])
        if pd is None:
            continue
        width = 1
        for s in v['shape'][1:]:
            width *= s
        by_id = {i: [Fr(*x) for x in v['flat'][k * width:(k + 1) * width]]
                 for k, i in enumerate(v['ids'])}
        for k, i in enumerate(ids):
            want = by_id[i]
            got = [frs(x) for x in pd['rows'][k]]
            if got != want and not (len(want) == 2 and got == want + [Fr(0)]):
                what = 'point-data-not-by-node-id' if v['ids'] != ids else 'point-data-value'
                bad.append((what, {'variable': v['name'], 'point': k, 'node_id': i}))
                break
    if r['cell_data_keys']:
        bad.append(('unexpected-cell-data', r['cell_data_keys']))
    if c.get('then') and 'second' in r and not bad:
        th = c['then']
        c2 = dict(c, then=None)
        if 'points' in th:
            c2['points'] = th['points']
        if 'conn' in th:
            c2['blocks'] = [dict(b, conn=th['conn']['conn']) if b['type'] == th['conn']['type'] else b
                            for b in c['blocks']]
        if th.get('overwrites'):
            c2['overwrites'] = list(c.get('overwrites', [])) + th['overwrites']
        if th.get('nodes') == 'remove_useless':
            used = sorted({i for b in c2['blocks'] for row in b['conn'] for i in row})
            if len(used) != len(ids):       # otherwise remove_useless_nodes leaves the table alone
                p_of = dict(zip(ids, c2['points']))
                c2['node_ids'] = used
                c2['points'] = [p_of[i] for i in used]
        edited = ({'NODE'} if th.get('points_how') == 'inplace' else set()) | \
            {ow['name'] for ow in th.get('overwrites', []) if ow.get('how') == 'inplace'}
        for w, d in oracle(c2, r['second']):
            if w in ('point-data-value', 'point-data-not-by-node-id') and isinstance(d, dict) \
                    and d.get('variable') in edited:
                bad.append(('point-data-stale-after-inplace-edit', d))
            else:
                bad.append(('second-export:' + w, d))
    return bad


# --------------------------------------------------------- correspondence (Coq)
HEADER = ('From Coq Require Import String List ZArith QArith Bool.\nImport ListNotations.\n'
          'From FV.C06 Require Import Model Corr.\nFrom FV.C06.gen Require VtkTables.\nOpen Scope string_scope.\n'
          'Set Printing Width 100000.\n')


def coq_mesh(held):
    nodes = lib.coq_list([f'({lib.coq_Z(i)}, {qrow([frs(x) for x in p])})'
                          for i, p in zip(held['node_ids'], held['points'])])
    blocks = lib.coq_list([
        '(' + lib.coq_str(b['type']) + ', ' + lib.coq_list(
            [f'({lib.coq_Z(e)}, {zl(cn)})' for e, cn in zip(b['ids'], b['conn'])]) + ')'
        for b in held['blocks']])
    nodal = lib.coq_list([
        f"(mkvar {lib.coq_str(v['name'])} {v['rank']}%nat {zl(v['ids'])} "
        + lib.coq_list([qrow([frs(x) for x in row]) for row in v['rows']]) + ')'
        for v in held['variables']])
    return f'(mkmesh {nodes} {blocks} {nodal})'


def coq_item(c, r):
    if c['stream'] == 'tables':
        if 'error' in r:
            return 'false'
        sp = lambda kv: f'({lib.coq_str(kv[0])}, {lib.coq_str(kv[1])})'                      # noqa
        tr = lambda x: f'({lib.coq_str(x[0])}, {zl(x[1])}, {zl(x[2])})'                      # noqa
        return ('chk_tables ' + lib.coq_list([sp(kv) for kv in r['table']]) + ' ' +
                lib.coq_list([lib.coq_str(x) for x in r['element_types']]) + ' ' +
                lib.coq_list([tr(x) for x in r['export']]) + ' ' + lib.coq_list([tr(x) for x in r['import']]) +
                ' ' + lib.coq_list([f"({k}%nat, {'true' if b else 'false'})" for k, b in r['ranks']]))
    if c['stream'] == 'tet2perm':
        if 'error' in r:
            return 'false'
        return ' && '.join(
            f"match take VtkTables.{lst} {zl(row)} with Some d => all2 Z.eqb d {zl(out)} | None => false end"
            for lst, outs in (('tet2_to_meshio', r['to']), ('tet2_from_meshio', r['from']))
            for row, out in zip(c['rows'], outs))
    if c['stream'] == 'malformed':
        if 'error' not in r:
            return 'false'
        held = {'node_ids': c['node_ids'], 'points': c['points'], 'blocks': c['blocks'], 'variables': []}
        return f'chk_raises {coq_mesh(held)}'
    if 'error' in r:
        return 'false'
    pts = lib.coq_list([qrow([frs(x) for x in p]) for p in r['points']])
    cells = lib.coq_list(['(' + lib.coq_str(cb['type']) + ', ' +
                          lib.coq_list([natl(row) for row in cb['data']]) + ')' for cb in r['cells']])
    pd = lib.coq_list(['(' + lib.coq_str(k) + ', ' +
                       lib.coq_list([qrow([frs(x) for x in row]) for row in v['rows']]) + ')'
                       for k, v in sorted(r['point_data'].items())])
    first = f"chk_vtk {coq_mesh(r['held'])} {pts} {cells} {pd}"
    if 'second' in r:
        return first + ' && ' + coq_item(dict(c, then=None), r['second'])
    return first


def run_corr(ctx, cases, res):
    items = [(c['id'], coq_item(c, res[c['id']])) for c in cases]
    chunks = [items[i:i + 60] for i in range(0, len(items), 60)]
    failing, cfail = set(), []
    lock = threading.Lock()

    def work(n, chunk):
        txt = [HEADER, 'Definition cases : list (nat * bool) := [',
               ';\n'.join(f'({cid}%nat, {e})' for cid, e in chunk) + '].',
               'Goal True. idtac "@@ failing". Abort.',
               'Eval vm_compute in map fst (filter (fun c => negb (snd c)) cases).']
        rc, out, err = ctx.coq_eval(f'Corr_{n}', '\n'.join(txt) + '\n', timeout=900)
        with lock:
            if rc != 0:
                cfail.append((n, err[-600:]))
                failing.update(cid for cid, _ in chunk)
            else:
                import re
                t = lib.parse_marked(out).get('failing', '').split(':')[0]
                failing.update(int(x) for x in re.findall(r'\d+', t))
    threads = [threading.Thread(target=work, args=(n, ch)) for n, ch in enumerate(chunks)]
    for i in range(0, len(threads), 8):
        for t in threads[i:i + 8]:
            t.start()
        for t in threads[i:i + 8]:
            t.join()
    return sorted(failing), cfail


def public_case(c):
    return {k: v for k, v in c.items() if k != 'id'}


def shrink_misaligned(c):
    """smallest sub-case that still shows positional binding: two nodes, one line"""
    ids = c['node_ids'][:2]
    return {'node_ids': ids, 'points': c['points'][:2],
            'blocks': [{'type': 'line', 'ids': [1], 'conn': [ids]}],
            'variables': [{'name': 'scal', 'ids': ids[::-1], 'shape': [2, 1], 'dtype': 'float64',
                           'flat': [pair(Fr(k)) for k in (2, 1)]}],
            'id_mode': c['id_mode'], 'stream': 'misaligned'}


def main(ctx):
    thorough = ctx.tier == 'thorough'
    ctx.rule = ('random meshes: 1-8 of the eight element types (25% all eight), 1-4 elements per '
                'type, node ids contiguous / sparse / >2^31, storage order shuffled (85%), caller '
                'dict order shuffled, unreferenced nodes, 0-4 nodal variables of shapes (n,), (n,1), '
                '(n,2), (n,3), (n,4), (n,6), (n,3,3); separate streams: variables whose id order '
                'differs from the nodes (misaligned) and dangling node references (malformed). '
                'non-trivial = at least one element; distinct = distinct generated mesh')
    ctx.trusted += [
        'translator /verif/translate/c06_tables.py (fail-closed; tables, ELEMENT_TYPES order, tet2 '
        'index lists, rank bound, and the exact shape of to_meshio/_to_indices/items)',
        'hand model Model.to_vtk of FEMData.to_meshio + ids2indices + FEMAttributes.to_meshio, '
        'pinned by the correspondence (femio writes, meshio reads)',
        'meshio 5.3 writer/reader (legacy VTK, binary); its conventions: (n,1) -> (n,), 2-vectors '
        'padded with a zero third component',
        'S-definitions: meshio names of the VTK cell types, VTK_QUADRATIC_TETRA edge order '
        '(0,1),(1,2),(2,0),(0,3),(1,3),(2,3), FrontISTR-342 mid-node order of femio tet2',
    ]
    ctx.assumptions += ['node ids distinct; element blocks of the eight types with the right arity',
                        'meshes carrying elemental data are excluded: meshio 5 rejects femio\'s '
                        'meshio-3 style cell_data (environment incompatibility, not the property)']
    tie_ok, unread, changed = True, {}, []
    try:
        values, consumed, unread = c06_tables.read_regions(str(lib.REPO))
        baseline = c06_tables.load_baseline()
        t = c06_tables.combine(values, unread, baseline)
        ctx.sources = consumed
        ctx.notes['translated'] = {k: v for k, v in t.items() if k != 'table'}
        ctx.notes['point_data_export'] = 'by node id' if t['point_data_by_id'] else 'positional'
        if not unread:
            flat = c06_tables.combine(values, {}, {})
            ctx.notes['translation_equals_baseline'] = all(
                json.loads(json.dumps(flat[k])) == baseline[k] for k in baseline if k != 'watched')
        lib.write_if_changed(lib.COQ / PID / 'gen' / 'VtkTables.v', c06_tables.emit(t, unread))
        # bodies the hand model mirrors (ids2indices, id2index, values_of, ...): changed => search deeper
        changed = c06_tables.changed_bodies(str(lib.REPO), baseline)
    except (c06_tables.TranslateError, SyntaxError, KeyError, AttributeError, TypeError,
            ValueError, IndexError, OSError) as e:
        tie_ok = False
        ctx.log('translator failed closed:', e)
        ctx.notes['translator_error'] = f'{type(e).__name__}: {e}'
    try:        # translator self-test: same-meaning spellings / mutants of the tree's own source (notes only)
        import c06_selftest
        ctx.notes['translator_selftest'] = c06_selftest.run(str(lib.REPO), ctx.scratch / 'selftest')
    except Exception as e:      # noqa
        ctx.notes['translator_selftest'] = f'error: {type(e).__name__}: {e}'
    # A region the translator cannot read is not a violation by itself: its values come from the
    # committed baseline (T degrades to H) and the correspondence is widened.
    degraded = tie_ok and bool(unread or changed)
    if degraded:
        ctx.log('translator could not read:', unread, '; changed bodies:', changed,
                '-> baseline model + widened correspondence')
        ctx.notes['translator_unread_regions'] = unread
        ctx.notes['changed_mirrored_bodies'] = changed
    proof_ok, corr_built = False, False
    if tie_ok:
        proof_ok, log = ctx.build_props(f'{PID}/Props.v', extra_targets=[f'{PID}/Corr.vo'])
        corr_built = proof_ok
        if not proof_ok:
            ctx.notes['build_log_tail'] = log[-2500:]
            corr_built, log2, _ = lib.coq_make([f'{PID}/Corr.vo'])
    else:
        for n in lib.theorem_names(lib.COQ / PID / 'Props.v'):
            ctx.obligations.append({'name': n, 'discharged': False, 'assumptions': [],
                                    'note': 'translator failed closed'})
    # cases: corpus, main, misaligned, malformed
    cases = []
    cdir = lib.VERIF / 'corpus' / PID
    if cdir.exists():
        for f in sorted(cdir.glob('*.json')):
            c = json.loads(f.read_text())
            c['id'] = len(cases)
            cases.append(c)
    n_main = 3000 if thorough else (500 if degraded else 150)
    for t in ARITY:                       # every element type alone (own branches of the export)
        cases.append(gen_mesh(ctx.rng, len(cases), only_type=t))
    for _ in range(n_main):
        cases.append(gen_mesh(ctx.rng, len(cases)))
    if degraded:                          # every element type alone, again (type table, arities)
        for t_ in list(ARITY) + ['tet2'] * 8:
            cases.append(gen_mesh(ctx.rng, len(cases), only_type=t_))
    for _ in range(60 if thorough else (40 if degraded else 10)):
        cases.append(gen_mesh(ctx.rng, len(cases), misaligned=True))
    for _ in range(40 if thorough else (16 if degraded else 6)):
        cases.append(gen_mesh(ctx.rng, len(cases), malformed=True))
    for _ in range(12 if degraded else 3):
        cases.append({'id': len(cases), 'stream': 'tet2perm', 'id_mode': 'n/a', 'blocks': [],
                      'variables': [],
                      'rows': [ctx.rng.sample(range(1, 1000), 10) for _ in range(2)]})
    # translator validation: the generated tables / permutations / rank bound, evaluated in Coq,
    # against the Python objects and private functions of the tree under test at run time
    cases.append({'id': len(cases), 'stream': 'tables', 'id_mode': 'n/a', 'blocks': [], 'variables': [],
                  'arity': ARITY, 'vtk_arity': {VTK_NAME[t]: a for t, a in ARITY.items()}})
    res = run_impl(ctx, cases)
    n_bad = 0
    per_what = {}
    known_whats = set()
    for c in cases:
        r = res[c['id']]
        ctx.count('stream:' + c['stream'])
        ctx.count('ids:' + c['id_mode'])
        if 'order_nodes' in c:
            ctx.count('node_order:' + c['order_nodes'])
            ctx.count('points_dtype:' + c['points_dtype'])
            ctx.count('second_export' if c.get('then') else 'single_export')
        for v in c['variables']:
            ctx.count('var_dtype:' + v.get('dtype', 'float64'))
        ctx.count('n_types:%d' % len(c['blocks']))
        for b in c['blocks']:
            ctx.count('type:' + b['type'])
        for v in c['variables']:
            ctx.count('var_rank:%d' % len(v['shape']))
        ctx.case(public_case(c), nontrivial=True,
                 sample={'case': public_case(c), 'impl_cells': r.get('cells'),
                         'impl_error': r.get('error')} if c['id'] < 2 else None)
        bad = oracle(c, r)
        for what, detail in bad[:1]:
            n_bad += 1
            per_what[what] = per_what.get(what, 0) + 1
            if per_what[what] > 3:
                continue
            case = public_case(c)
            if what == 'point-data-not-by-node-id':
                small = shrink_misaligned(c)
                small['id'] = 0
                r2 = run_impl(ctx, [small], tag='shrink')[0]
                if any(w == what for w, _ in oracle(small, r2)):
                    case = public_case(small)
            is_known = ctx.violation('impl-violation', case,
                          'C06 holds on this mesh (points, cell types, VTK node order as storage '
                          'positions, nodal variables attached to their nodes)',
                          {'what': what, 'detail': detail, 'impl_error': r.get('error')},
                          'oracle on implementation (statement of C06) / '
                          'C06_point_data_by_node_refuted' if what == 'point-data-not-by-node-id'
                          else 'oracle on implementation (statement of C06)',
                          found_input=True,
                          signature={'what': what, 'site': 'FEMData.to_meshio',
                                     'stream': c['stream']} if what != 'point-data-stale-after-inplace-edit'
                          else {'what': what, 'site': 'FEMAttributes.to_meshio (attribute.loc reads the frame)',
                                'edit': 'attribute.data[...] = v'},
                          what=f'VTK export: {what}')
            if is_known:
                known_whats.add(what)
    n_bad = sum(n for w, n in per_what.items() if w not in known_whats)
    ctx.notes['search_evaluations'] = len(cases)
    ctx.notes['impl_property_failures'] = per_what
    if corr_built:
        failing, cfail = run_corr(ctx, cases, res)
        ctx.corr = {'cases': len(cases), 'disagreements': len(failing),
                    'comparison': 'exact (points and values as rationals, cells as naturals)'}
        if cfail:
            ctx.notes['corr_compile_failures'] = cfail
        rep = 0
        for cid in failing:
            c = cases[cid]
            if oracle(c, res[cid]):
                continue            # already reported with its failing input
            if rep >= 5:
                break
            rep += 1
            ctx.violation('correspondence', public_case(c),
                          'Model.to_vtk (evaluated in Coq) = what meshio read back',
                          {'impl': {k: v for k, v in res[cid].items() if k not in ('id', 'held')}},
                          'correspondence C06 (Corr.chk_vtk)',
                          found_input=bool(oracle(c, res[cid])),
                          signature={'what': 'correspondence', 'stream': c['stream'],
                                     'types': sorted(b['type'] for b in c['blocks'])},
                          what='VTK file not reproduced by the model')
    if degraded:
        n_dis = ctx.corr.get('disagreements') if corr_built and ctx.corr else None
        why = '; '.join(f'{k}: {v}' for k, v in sorted(unread.items())) or 'nothing'
        if changed:
            why += '; bodies mirrored by the hand model changed: ' + ', '.join(changed)
        ctx.notes['tie'] = (f'H (translator could not read {why}; baseline model + widened '
                            f'correspondence, {len(cases)} cases, {n_dis} disagreements, '
                            f'{sum(per_what.values())} oracle failures)')
        ctx.trusted.append('degraded tie for this tree: ' + ctx.notes['tie'])
        if not corr_built and n_bad == 0:
            ctx.violation('tie-broken', {'unread_regions': unread},
                          'the widened correspondence runs when the translator cannot read a region',
                          'Corr.vo did not build', 'correspondence C06 (Corr.chk_vtk)',
                          found_input=False, signature={'kind': 'tie-broken', 'why': 'corr-not-built'})
    if not tie_ok and n_bad == 0:
        ctx.violation('tie-broken', {'translator_error': ctx.notes.get('translator_error')},
                      'translator accepts the VTK export code', 'fail-closed',
                      'translator c06_tables', found_input=False, signature={'kind': 'tie-broken'})
    if tie_ok and not proof_ok and n_bad == 0:
        badn = [o['name'] for o in ctx.obligations if not o['discharged']]
        ctx.violation('proof-broken', {'log_tail': ctx.notes.get('build_log_tail', '')[-600:]},
                      'theorems of C06/Props.v check against the regenerated gen/VtkTables.v',
                      'do not check', ', '.join(badn) or 'build', found_input=False,
                      signature={'kind': 'proof-broken'})
    if thorough and proof_ok:
        ctx.coqchk(f'{PID}/Props.v')
    return ctx.finish()


def replay(path):
    rp = json.loads(Path(path).read_text())
    c = dict(rp['case'])
    if 'node_ids' not in c and c.get('stream') not in ('tables', 'tet2perm'):
        print('nothing to replay on the implementation:', json.dumps(rp, indent=1)[:2000])
        return 1
    ctx = lib.Ctx(PID, 'quick')
    c['id'] = 0
    r = run_impl(ctx, [c], tag='replay')[0]
    print('implementation (meshio read back):', json.dumps({k: v for k, v in r.items() if k != 'held'})[:3000])
    bad = oracle(c, r)
    print('oracle:', bad)
    try:
        values, _, unread = c06_tables.read_regions(str(lib.REPO))
        t = c06_tables.combine(values, unread, c06_tables.load_baseline())
        if unread:
            print('translator could not read (baseline used):', unread)
        lib.write_if_changed(lib.COQ / PID / 'gen' / 'VtkTables.v', c06_tables.emit(t, unread))
        ok, log, _ = lib.coq_make([f'{PID}/Corr.vo'])
        if ok:
            failing, cfail = run_corr(ctx, [c], {0: r})
            print('model (Coq) agrees with implementation:', not failing, cfail or '')
    except c06_tables.TranslateError as e:
        print('translator failed closed:', e)
    print('property', 'VIOLATED' if bad else 'holds', 'on this input')
    return 1 if bad else 0


if __name__ == '__main__':
    if len(sys.argv) > 2 and sys.argv[1] == 'replay':
        sys.exit(replay(sys.argv[2]))
    tier = sys.argv[1] if len(sys.argv) > 1 else 'quick'
    sys.exit(main(lib.Ctx(PID, tier)))
