"""Child process of harness/c11.py: runs femio on the tasks given on stdin (JSON)
and writes the results to the file named in the spec.  Floats are returned as
float.hex() strings (exact); nothing is compared here."""
import io
import json
import sys
import contextlib

import numpy as np


def fhex(x):
    return float(x).hex()


def build(mesh):
    from femio import FEMData, FEMAttribute, FEMElementalAttribute
    nodes = FEMAttribute('NODE', np.array(mesh['node_ids'], dtype=np.int64),
                         np.array(mesh['coords'], dtype=getattr(np, mesh.get('coord_dtype', 'float64'))))
    blocks = {}
    for ty, eids, conn in mesh['blocks']:
        if ty == 'polygon' and len({len(c) for c in conn}) > 1:
            data = np.empty(len(conn), dtype=object)
            data[:] = [np.array(c, dtype=np.int64) for c in conn]
        else:
            data = np.array(conn, dtype=np.int64)
        blocks[ty] = FEMAttribute(ty, np.array(eids, dtype=np.int64), data)
    return FEMData(nodes=nodes, elements=FEMElementalAttribute('ELEMENT', blocks))


def arr(a):
    a = np.asarray(a)
    if a.ndim == 1:
        return [fhex(x) for x in a]
    return [[fhex(x) for x in row] for row in a]


def run_task(t):
    kind = t['kind']
    if kind == 'kernel':
        fd = build(t['mesh'])
        fn = getattr(fd, t['name'])
        if t.get('point'):
            cols = [fd.collect_node_positions_by_ids(fd.elements.data[:, k])
                    for k in range(t['arity'])]
            out = fn(*cols)
        else:
            out = fn(fd.elements)
        out = np.asarray(out)
        if out.ndim == 2 and out.shape[1] == 1:
            out = out[:, 0]
        return {'values': arr(out)}
    if kind == 'entry':
        fd = build(t['mesh'])
        e = t['entry']
        try:
            if e == 'areas':
                out = fd.calculate_element_areas(mode=t['mode'], raise_negative_area=t['raise'],
                                                 return_abs_area=t['abs'])
            elif e == 'volumes':
                out = fd.calculate_element_volumes(mode=t['mode'],
                                                   raise_negative_volume=t['raise'],
                                                   return_abs_volume=t['abs'])
            elif e == 'metrics':
                out = fd.calculate_element_metrics(raise_negative_metric=t['raise'],
                                                   return_abs_metric=t['abs'])
            elif e == 'normals':
                out = fd.calculate_element_normals(mode=t['mode'])
            else:
                raise AssertionError(e)
        except (NotImplementedError, ValueError, KeyError) as ex:
            return {'error': type(ex).__name__, 'msg': str(ex)[:200]}
        out = np.asarray(out, dtype=np.float64)
        if out.ndim == 2 and out.shape[1] == 1:
            out = out[:, 0]
        return {'ids': [int(i) for i in fd.elements.ids], 'values': arr(out),
                'types': [str(x) for x in fd.elements.types]}
    if kind == 'history':
        fd = build(t['mesh'])
        out = []

        def flag(x):      # falsy / truthy values that are not the bool singletons
            return {'None': None, '0': 0, '1': 1, 'np.False_': np.False_, 'np.True_': np.True_}.get(x, x) \
                if isinstance(x, str) else x
        for c in t['calls']:
            c = dict(c, **{'raise': flag(c['raise']), 'abs': flag(c['abs'])})
            try:
                e = c['entry']
                if e == 'areas':
                    v = fd.calculate_element_areas(mode=c['mode'], raise_negative_area=c['raise'],
                                                   return_abs_area=c['abs'])
                elif e == 'volumes':
                    v = fd.calculate_element_volumes(mode=c['mode'], raise_negative_volume=c['raise'],
                                                     return_abs_volume=c['abs'])
                elif e == 'volumes_default':
                    v = fd.calculate_element_volumes()
                elif e == 'metrics':
                    v = fd.calculate_element_metrics(raise_negative_metric=c['raise'],
                                                     return_abs_metric=c['abs'])
                else:
                    v = fd.calculate_element_normals(mode=c['mode'])
            except (NotImplementedError, ValueError, KeyError) as ex:
                out.append({'error': type(ex).__name__})
                continue
            v = np.asarray(v, dtype=np.float64)
            if v.ndim == 2 and v.shape[1] == 1:
                v = v[:, 0]
            out.append({'ids': [int(i) for i in fd.elements.ids], 'values': arr(v)})
        return {'results': out}
    if kind == 'motion':
        fd = build(t['mesh'])
        if t['prep'] == 'pop_node' and 'NODE' in fd.nodal_data:
            fd.nodal_data.pop('NODE')
        key = {'areas': 'area', 'volumes': 'volume', 'metrics': 'metric', 'normals': 'normal'}[t['entry']]

        def query():
            e = t['entry']
            try:
                if e == 'areas':
                    out = fd.calculate_element_areas(mode=t['mode'], raise_negative_area=False,
                                                     return_abs_area=True)
                elif e == 'volumes':
                    out = fd.calculate_element_volumes(mode=t['mode'], raise_negative_volume=False,
                                                       return_abs_volume=False)
                elif e == 'metrics':
                    out = fd.calculate_element_metrics(raise_negative_metric=False, return_abs_metric=False)
                else:
                    out = fd.calculate_element_normals(mode=t['mode'])
            except (NotImplementedError, ValueError, KeyError) as ex:
                return {'error': type(ex).__name__}
            out = np.asarray(out, dtype=np.float64)
            if out.ndim == 2 and out.shape[1] == 1:
                out = out[:, 0]
            return {'ids': [int(i) for i in fd.elements.ids], 'values': arr(out)}
        res = {}
        if t['order'] == 'qmq':
            res['first'] = query()
        if t['prep'] == 'reset':
            # what users do before moving a mesh: drop the attached tables
            fd.nodal_data.reset()
            fd.elemental_data.reset()
        res['derived_keys_before_motion'] = [str(k) for k in fd.elemental_data.keys()]
        try:
            for mv in t['motions']:
                if mv['kind'] == 'translation':
                    fd.translation(*mv['v'])
                else:
                    fd.rotation(*mv['axis'], mv['theta'])
        except NotImplementedError:
            res['refused'] = True
            return res
        res['coords_after'] = arr(fd.nodes.data)
        res['node_ids_after'] = [int(i) for i in fd.nodes.ids]
        if key in fd.elemental_data:
            st = np.asarray(fd.elemental_data.get_attribute_data(key), dtype=np.float64)
            if st.ndim == 2 and st.shape[1] == 1:
                st = st[:, 0]
            res['stored_right_after_motion'] = arr(st)
        res['second'] = query()
        if key in fd.elemental_data:
            st = np.asarray(fd.elemental_data.get_attribute_data(key), dtype=np.float64)
            if st.ndim == 2 and st.shape[1] == 1:
                st = st[:, 0]
            res['stored_after_second'] = arr(st)
        return res
    if kind == 'motion_point':
        # translation()/rotation() on a mesh without attached data: where do the nodes go?
        fd = build(t['mesh'])
        fd.nodal_data.reset()
        fd.elemental_data.reset()
        if t['motion'] == 'rotation':
            fd.rotation(*t['axis'], t['theta'])
            extra = {'c': fhex(np.cos(t['theta'])), 's': fhex(np.sin(t['theta']))}
        else:
            fd.translation(*t['axis'])
            extra = {}
        return dict(extra, node_ids=[int(i) for i in fd.nodes.ids], coords=arr(fd.nodes.data))
    if kind == 'validate':
        # the common exit of the scalar entry points on an arbitrary array of values
        fd = build(t['mesh'])
        vals = np.array([float.fromhex(v) for v in t['values']], dtype=np.float64).reshape(-1, 1)
        flag = {'None': None, '0': 0, '1': 1}
        try:
            out = fd._validate_metric(vals, raise_negative_metric=flag.get(t['raise'], t['raise']),
                                      return_abs_metric=flag.get(t['abs'], t['abs']))
        except ValueError:
            return {'error': 'ValueError'}
        out = np.asarray(out, dtype=np.float64)
        return {'values': arr(out.reshape(-1)), 'shape': list(out.shape)}
    if kind == 'slot_answers':
        # _slot_answers(key, options) against a result stored through _store_slot with `stored`
        fd = build(t['mesh'])
        ids = fd.elements.ids
        vals = np.zeros((len(ids), 1))
        if t['stored'] is None:
            fd.elemental_data.update_data(ids, {t['key']: vals}, allow_overwrite=True)
        else:
            fd._store_slot(ids, t['key'], vals, tuple(t['stored']), allow_overwrite=True)
        return {'answers': bool(fd._slot_answers(t['key'], tuple(t['options'])))}
    if kind == 'random_mesh':
        # generate_random_mesh: Delaunay mesh of a jittered lattice -> tiles the convex hull of its nodes
        from femio.util import random_generator
        from scipy.spatial import ConvexHull
        np.random.seed(t['np_seed'])
        dim = 3 if t['type'] == 'tet' else 2
        fd = random_generator.generate_random_mesh(
            t['type'], t['n_point'], x_length=t['lx'], y_length=t['ly'], z_length=t['lz'],
            noise_scale=t['noise_scale'])
        res = {'n_nodes': len(fd.nodes.ids), 'n_elements': len(fd.elements.ids),
               'hull': fhex(ConvexHull(fd.nodes.data[:, :dim]).volume),
               'leftover_keys': sorted(str(k) for k in fd.elemental_data.keys())}
        if dim == 3:
            for mode in ('linear', 'centroid'):
                res[mode] = arr(np.asarray(fd.calculate_element_volumes(
                    mode=mode, raise_negative_volume=False))[:, 0])
        else:
            for mode in ('linear', 'centroid'):
                res[mode] = arr(np.asarray(fd.calculate_element_areas(mode=mode, return_abs_area=False))[:, 0])
            res['normals_z'] = arr(np.asarray(fd.calculate_element_normals())[:, 2])
        try:
            fd.calculate_element_metrics()
            res['default_metrics_raises'] = False
        except ValueError:
            res['default_metrics_raises'] = True
        return res
    if kind == 'brick':
        from femio.util import brick_generator
        kw = {}
        if t['nz'] is not None:
            kw['n_z_element'] = t['nz']
        fd = brick_generator.generate_brick(
            t['type'], t['nx'], t['ny'], x_length=t['lx'], y_length=t['ly'],
            **({'z_length': t['lz']} if t['nz'] is not None else {}), **kw)
        res = {'node_ids': [int(i) for i in fd.nodes.ids], 'coords': arr(fd.nodes.data),
               'eids': [int(i) for i in fd.elements.ids],
               'conn': [[int(x) for x in row] for row in fd.elements.data]}
        try:
            if t['type'] in ('tri', 'quad'):
                m = fd.calculate_element_areas(mode='linear', return_abs_area=False)
            else:
                m = fd.calculate_element_volumes(mode='linear', raise_negative_volume=False)
            res['metrics'] = arr(np.asarray(m)[:, 0])
            fd2 = brick_generator.generate_brick(
                t['type'], t['nx'], t['ny'], x_length=t['lx'], y_length=t['ly'],
                **({'z_length': t['lz']} if t['nz'] is not None else {}), **kw)
            try:
                fd2.calculate_element_metrics()
                res['default_metrics_raises'] = False
            except ValueError:
                res['default_metrics_raises'] = True
        except Exception as ex:      # noqa
            res['error'] = type(ex).__name__ + ': ' + str(ex)[:200]
        return res
    raise AssertionError(kind)


def main():
    spec = json.loads(sys.stdin.read())
    out = []
    buf = io.StringIO()
    for t in spec['tasks']:
        with contextlib.redirect_stdout(buf):
            try:
                r = run_task(t)
            except Exception as ex:   # noqa: unexpected failures are data
                import traceback
                r = {'crash': type(ex).__name__ + ': ' + str(ex)[:300],
                     'tb': traceback.format_exc()[-600:]}
        r['id'] = t['id']
        out.append(r)
    with open(spec['out'], 'w') as f:
        json.dump(out, f)


if __name__ == '__main__':
    main()
