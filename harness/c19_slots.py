"""C19 — correspondence between the concrete slot protocol of coq/C19/Slot.v and femio:
the model's slot_trace_ops is evaluated inside Coq (vm_compute) on the option sequences the
implementation ran on, with the signed per-mode values of the same mesh as exact rationals, and
compared step by step (answer or raise, table entry: values and recorded options)."""
import json
import subprocess
from fractions import Fraction
from pathlib import Path

import lib

HAS_MODE = {'volume': True, 'area': True, 'metric': False}

KINDS = {'volume': ['tet', 'hex', 'prism'], 'area': ['tri', 'quad'], 'metric': ['tet', 'hex', 'prism', 'tri', 'quad']}


def gen_cases(ctx, gen_mesh, n):
    rng = ctx.rng
    cases = []
    for i in range(n):
        slot = ['volume', 'area', 'metric'][i % 3]
        kind = KINDS[slot][(i // 3) % len(KINDS[slot])]
        feat = ['unref']
        if kind in ('tet', 'prism') and rng.random() < 0.7:
            feat.append('inverted')
        if kind in ('tet', 'tri', 'prism') and rng.random() < 0.5:
            feat.append('jitter')
        mesh = gen_mesh(rng, kind, feat)
        init = rng.choice(['none', 'none', 'user'])
        if init == 'user':
            n_el = len(mesh['elements'][kind]['ids'])
            mesh['elemental'][slot] = [[rng.choice([-1., 1.]) * rng.choice([0.5, 1.25, 3., 42.])] for _ in range(n_el)]
            if all(v[0] > 0 for v in mesh['elemental'][slot]):
                mesh['elemental'][slot][rng.randrange(n_el)][0] *= -1.
        n_modes = 3 if HAS_MODE[slot] else 1
        ops = []
        for _ in range(rng.randrange(1, 6)):
            if rng.random() < 0.15 and 'drop' not in ops:
                # (one per case: the mesh has unreferenced nodes exactly once; a second
                # remove_useless_nodes changes nothing and rightly keeps the results)
                ops.append('drop')
            elif rng.random() < 0.12:
                ops.append('mod')           # connectivity assignment: the values change
            else:
                ops.append({'mode': rng.randrange(n_modes), 'raise': rng.random() < 0.35, 'abs': rng.random() < 0.5})
        cases.append({'slot': slot, 'kind': kind, 'init': init, 'mesh': mesh, 'ops': ops})
    return cases


def q(r):
    return lib.coq_Q(Fraction(int(r[0]), int(r[1])))


def qlist(rs):
    return lib.coq_list([q(r) for r in rs])


def opts_term(o):
    return f'(mkopts {int(o["mode"])} {"true" if o["raise"] else "false"} {"true" if o["abs"] else "false"})'


def entry_term(e):
    if e is None:
        return 'None'
    o = 'None' if e['opts'] is None else f'(Some {opts_term(e["opts"])})'
    return f'(Some (mkentry {qlist(e["vals"])} {o}))'


def run(ctx, gen_mesh, n_cases, tag='', cases=None):
    """returns the number of disagreements (each reported as a violation)"""
    cases = gen_cases(ctx, gen_mesh, n_cases) if cases is None else cases
    spec = {'out': str(ctx.scratch / f'slots_impl{tag}.json'), 'cases': cases}
    r = subprocess.run([lib.PY, str(lib.VERIF / 'harness' / 'c19_slots_impl.py')], input=json.dumps(spec),
                       text=True, capture_output=True, env=lib.impl_env(), timeout=900)
    if r.returncode != 0:
        ctx.violation('correspondence', {'stderr': r.stderr[-800:]}, 'slot correspondence driver runs',
                      'it failed', 'C19_slot_history_pure (correspondence with Slot.v)', found_input=False,
                      signature={'kind': 'slot-corr-driver'})
        return 1
    res = json.loads(Path(spec['out']).read_text())
    L = ['From Coq Require Import QArith List Bool.', 'Import ListNotations.', 'From FV.C19 Require Import Slot.',
         'Set Printing Width 100000.', 'Open Scope Q_scope.', 'Open Scope nat_scope.']
    defs, usable, errors = [], [], []
    for i, (c, o) in enumerate(zip(cases, res)):
        if 'error' in o or any('error' in s for s in o.get('steps', [])):
            errors.append((i, o.get('error') or [s['error'] for s in o['steps'] if 'error' in s][0]))
            continue
        signed = lib.coq_list([qlist(s) for s in o['signed']])
        ops, obs = [], []
        for op, st in zip(c['ops'], o['steps']):
            if op == 'drop':
                ops.append('Drop')
                obs.append(f'(Val [], {entry_term(st["entry"])})')
            elif op == 'mod':
                s2 = lib.coq_list([qlist(x) for x in st['signed']])
                ops.append(f'Mod (fun n => nth n {s2} [])')
                obs.append(f'(Val [], {entry_term(st["entry"])})')
            else:
                ops.append(f'Call {opts_term(op)}')
                v = 'Raise' if st.get('raise') else f'Val {qlist(st["val"])}'
                obs.append(f'({v}, {entry_term(st["entry"])})')
        defs.append(f'Definition c{i} : bool := trace_eqb (slot_trace_ops (fun n => nth n {signed} []) '
                    f'{entry_term(o["t0"])} {lib.coq_list(ops)}) {lib.coq_list(obs)}.')
        usable.append(i)
    L += defs
    L.append('Goal True. idtac "@@ bad". Abort.')
    L.append('Eval vm_compute in (map fst (filter (fun c => negb (snd c)) ' +
             lib.coq_list([f'({i}, c{i})' for i in usable]) + ')).')
    rc, out, err = ctx.coq_eval('SlotCorr' + tag, '\n'.join(L) + '\n')
    n_bad = 0
    if rc != 0:
        ctx.violation('correspondence', {'coq_error': err[-800:]}, 'slot correspondence file compiles',
                      'it does not', 'C19_slot_history_pure (correspondence with Slot.v)', found_input=False,
                      signature={'kind': 'slot-corr-coq'})
        return 1
    import re
    txt = lib.parse_marked(out).get('bad', '')
    bad = [int(x) for x in re.findall(r'\d+', txt.split('=', 1)[1].split(':')[0])] if '=' in txt else []
    for c in cases:
        ctx.count('slotcorr:' + c['slot'] + ':' + c['kind'] + ':' + c['init'])
    ctx.corr['cases'] += len(usable)
    prev = ctx.notes.get('slot_correspondence', {})
    ctx.notes['slot_correspondence'] = {'cases': len(usable) + prev.get('cases', 0),
                                        'disagreements': len(bad) + prev.get('disagreements', 0),
                                        'driver_errors': len(errors) + prev.get('driver_errors', 0),
                                        'steps': sum(len(cases[i]['ops']) for i in usable) + prev.get('steps', 0)}
    for i in bad[:3]:
        c, o = cases[i], res[i]
        n_bad += 1
        ctx.corr['disagreements'] += 1
        ctx.violation('correspondence', {'slot_case': {k: c[k] for k in ('slot', 'kind', 'init', 'ops', 'mesh')}},
                      'femio answers and stores what coq/C19/Slot.v slot_trace_ops computes (answer or raise, '
                      'entry values, recorded options) at every step',
                      {'steps': [{k: (v if k != 'val' else v[:4]) for k, v in s.items() if k != 'entry'} |
                                 {'entry_opts': (s.get('entry') or {}).get('opts'),
                                  'entry_head': ((s.get('entry') or {}).get('vals') or [])[:4]} for s in o['steps']],
                       't0': o['t0'] and {'opts': o['t0']['opts'], 'head': o['t0']['vals'][:4]}},
                      'C19_slot_history_pure / C19_slot_user_variable_kept (model Slot.v vs implementation)',
                      found_input=True,
                      signature={'kind': 'slot-protocol', 'slot': c['slot'], 'init': c['init'],
                                 'ops': json.dumps(c['ops'], sort_keys=True)[:200]})
    if errors:
        ctx.notes['slot_correspondence']['first_errors'] = [str(e)[:200] for e in errors[:3]]
        if len(errors) > len(cases) // 4:
            ctx.violation('correspondence', {'errors': [str(e)[:300] for e in errors[:5]]},
                          'the slot histories can be evaluated on the implementation', 'unexpected exceptions',
                          'C19_slot_history_pure (correspondence with Slot.v)', found_input=False,
                          signature={'kind': 'slot-corr-errors'})
            n_bad += 1
    return n_bad
