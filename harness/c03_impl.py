"""Child process of the C03 check: calls FistrWriter._generate_constraints of the tree under
test directly (translator validation of the region translate/c03_cnt.py reads).

stdin: {"out": path, "tables": [{"id", "ids": [...], "rows": [[hex | null, ...], ...]}]}
out  : [{"id", "ids": [...], "dof": [[a, b], ...], "values": [hex, ...]} | {"id", "error": str}]
"""
import contextlib
import io
import json
import sys

import numpy as np


def main():
    spec = json.loads(sys.stdin.read())
    from femio import FEMAttribute
    from femio.formats.fistr.write_fistr import FistrWriter
    w = object.__new__(FistrWriter)
    out = []
    for t in spec['tables']:
        data = np.array([[np.nan if h is None else float.fromhex(h) for h in r] for r in t['rows']], dtype=float)
        try:
            with contextlib.redirect_stdout(io.StringIO()):
                attr = FEMAttribute('boundary', np.array(t['ids'], dtype=np.int64), data)
                ids, dof, vals = w._generate_constraints(attr)
            dof = np.asarray(dof)
            out.append({'id': t['id'], 'ids': [int(i) for i in ids],
                        'dof': [[int(a) for a in np.atleast_1d(row)] for row in dof] if len(ids) else [],
                        'values': [float(v).hex() for v in vals]})
        except Exception as e:  # noqa
            out.append({'id': t['id'], 'error': f'{type(e).__name__}: {e}'[:200]})
    with open(spec['out'], 'w') as f:
        json.dump(out, f)


if __name__ == '__main__':
    main()
